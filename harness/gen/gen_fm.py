#!/usr/bin/env python3
"""
Generates harness/src/corpus_fm.rs: the compiled corpus of `FromMeta` receivers (structs and
enums over the derive option space), their canonical renderers, and input templates.

Deterministic (fixed PRNG seed); re-run after editing and commit the output.  The *model* never
reads anything produced here except through the compiled source itself: the harness parses
corpus_fm.rs with syn and serialises each receiver's real declaration.
"""
import os
import random

rng = random.Random(20260927)
OUT = os.path.join(os.path.dirname(os.path.abspath(__file__)), "..", "src", "corpus_fm.rs")

# ---------------------------------------------------------------- rename rules (ident_case port)


def to_field(rule, f):
    if rule in (None, "lowercase", "snake_case"):
        return f
    if rule == "PascalCase" or rule == "camelCase":
        out, cap = "", True
        for ch in f:
            if ch == "_":
                cap = True
            elif cap:
                out += ch.upper()
                cap = False
            else:
                out += ch
        if rule == "camelCase":
            out = out[:1].lower() + out[1:]
        return out
    if rule == "SCREAMING_SNAKE_CASE":
        return f.upper()
    if rule == "kebab-case":
        return f.replace("_", "-")
    raise ValueError(rule)


def to_variant(rule, v):
    if rule in (None, "PascalCase"):
        return v
    if rule == "lowercase":
        return v.lower()
    if rule == "camelCase":
        return v[:1].lower() + v[1:]
    snake = ""
    for i, ch in enumerate(v):
        if i > 0 and ch.isupper():
            snake += "_"
        snake += ch.lower()
    if rule == "snake_case":
        return snake
    if rule == "SCREAMING_SNAKE_CASE":
        return snake.upper()
    if rule == "kebab-case":
        return snake.replace("_", "-")
    raise ValueError(rule)


RULES = ["lowercase", "PascalCase", "camelCase", "snake_case", "SCREAMING_SNAKE_CASE"]  # kebab-case names cannot be spelled as idents


# ---------------------------------------------------------------- types


class T:
    def __init__(self, rust, valid, invalid, has_default=True, optional=False, depth=0, flattenable=False, flat_items=None):
        self.rust = rust
        self.valid = valid          # value suffixes after the item name
        self.invalid = invalid
        self.has_default = has_default
        self.optional = optional    # from_none() is Some
        self.depth = depth
        self.flattenable = flattenable
        self.flat_items = flat_items or []   # lists of complete items acceptable when flattened


LEAVES = [
    T("u8", [" = 5", ' = "7"', " = 255", " = 0", " = 0x10"], [" = 300", ' = "x"', "", "(a)", " = -1", " = 1.5"]),
    T("i64", [" = 5", " = -9", ' = "12"', ' = "-3"'], [' = "x"', " = true", "", " = 99999999999999999999"]),
    T("String", [' = "hi"', ' = ""', ' = "a b"'], [" = 5", "", "(x)", " = 'c'"]),
    T("bool", ["", " = true", " = false", ' = "true"'], [" = 5", ' = "yes"', "(x)"]),
    T("char", [" = 'c'", ' = "d"'], [' = "cc"', " = 5", ""]),
    T("Option<u8>", [" = 5", ' = "9"'], [" = 300", "", " = true"], optional=True),
    T("Option<String>", [' = "s"'], [" = 5", "(x)"], optional=True),
    T("HashMap<String, u8>", ["(a = 1, b = 2)", "()", "(k = 7)"], ["(a = 300)", " = 5", "(a = 1, a = 2)", '("lit")']),
    T("syn::Path", [" = a::b", ' = "a::b"', " = foo"], [" = 5", ' = "1x"', ""], has_default=False),
    T("Flag", [""], [" = true", "(x)"], optional=True),
    T("f64", [" = 1.5", ' = "2.5"'], [' = "x"', " = true"]),
    T("Override<u8>", ["", " = 5"], [" = 300", ' = "x"']),
    T("SpannedValue<u8>", [" = 5", ' = "6"'], [" = 300", ""]),
]
FLAT_MAP = T("HashMap<String, String>", ['(a = "1")'], [], flattenable=True,
             flat_items=[[], ['zz = "1"'], ['extra = "x"', 'more = "y"']])

IDENTS = ["alpha", "beta_gamma", "count", "name", "kind_of", "x1", "max_len", "is_on", "path_to", "label", "lorem_ipsum",
          "dolor", "sit_amet", "level", "mode", "tag_list", "depth_limit", "v", "w2", "zeta", "r#type", "r#fn", "naïve"]
VIDENTS = ["Alpha", "BetaGamma", "Unit", "NewT", "Conf", "LoremIpsum", "X", "HttpGet", "Other", "Zed", "r#type", "r#move"]

FEATURE_MIN = {"empty_struct_variant": 3, "vflat_skip": 3, "skip_word": 4, "skip_collide": 3, "nonzero": 8, "map_inc": 6, "with_u8_plus1": 6, "with_upper": 6, "with_fail": 4}
FEATURE_COUNT = {}
RR = {}


def rr(key, options):
    """round-robin choice: every option of a feature is used, regardless of luck"""
    i = RR.get(key, 0)
    RR[key] = i + 1
    return options[i % len(options)]


receivers = []   # dicts
types_by_name = {}


def pick_valid(t):
    return rng.choice(t.valid)


def struct_samples(r, n=4):
    """valid / invalid value suffixes for a struct receiver used as a field type"""
    valid, invalid = [], []
    for _ in range(n):
        items = compose_items(r)
        valid.append("(" + ", ".join(items) + ")")
    # invalid: one injected mistake each
    base = compose_items(r)
    invalid.append("(" + ", ".join(base + ["zzz_unknown = 1"]) + ")" if not (r["allow_unknown"] or r["has_flatten"]) else " = 5")
    req = [f for f in r["fields"] if f["required"]]
    if req:
        drop = rng.choice(req)
        invalid.append("(" + ", ".join(i for i in base if not i.startswith(drop["name"] + " ") and not i.startswith(drop["name"] + "(") and i != drop["name"]) + ")")
    single = [f for f in r["fields"] if f["addressable"] and not f["multiple"]]
    if single:
        f = rng.choice(single)
        invalid.append("(" + ", ".join(base + [f["name"] + pick_valid(f["ty"])]) + ")")
    invalid.append(" = 5")
    invalid.append("")
    bad = [f for f in r["fields"] if f["addressable"] and f["ty"].invalid]
    if bad:
        f = rng.choice(bad)
        others = [i for i in base if not (i == f["name"] or i.startswith(f["name"] + " ") or i.startswith(f["name"] + "("))]
        invalid.append("(" + ", ".join(others + [f["name"] + rng.choice(f["ty"].invalid)]) + ")")
        # several mistakes at once — a rejected value (itself possibly a nested receiver with several
        # mistakes: bundles inside bundles), an unknown name or a literal, and a repeat
        extra = ["zzz_unknown = 1"] if not (r["allow_unknown"] or r["has_flatten"]) else ["\"lit\""]
        # prefer the deepest nested receiver, and its own several-mistakes sample (always its last one)
        f = max(bad, key=lambda x: x["ty"].depth)
        others = [i for i in base if not (i == f["name"] or i.startswith(f["name"] + " ") or i.startswith(f["name"] + "("))]
        deep = f["ty"].invalid[-1] if f["ty"].depth > 0 else rng.choice(f["ty"].invalid)
        many = others + [f["name"] + deep] + extra
        if single:
            g = rng.choice(single)
            if g["name"] != f["name"]:
                many.append(g["name"] + pick_valid(g["ty"]))
                many.append(g["name"] + pick_valid(g["ty"]))
        rng.shuffle(many)
        invalid.append("(" + ", ".join(many) + ")")
    return valid, invalid


def compose_items(r):
    items = []
    for f in r["fields"]:
        if f["skip"]:
            continue
        if f["flatten"]:
            items += rng.choice(f["ty"].flat_items)
            continue
        if f["multiple"]:
            for _ in range(rng.choice([0, 1, 2, 3])):
                items.append(f["name"] + pick_valid(f["elem"]))
            continue
        if f["required"] or rng.random() < 0.6:
            items.append(f["name"] + pick_valid(f["ty"]))
    rng.shuffle(items)
    return items


def attr_lines(opts, indent):
    """the options in a random order, in one attribute or split over two or three"""
    opts = list(opts)
    rng.shuffle(opts)
    if len(opts) > 1 and rng.random() < 0.35:
        k = rng.randint(1, len(opts) - 1)
        parts = [opts[:k], opts[k:]]
        if len(parts[1]) > 1 and rng.random() < 0.3:
            parts = [parts[0], parts[1][:1], parts[1][1:]]
    else:
        parts = [opts]
    return ["%s#[darling(%s)]" % (indent, ", ".join(p)) for p in parts if p]


def gen_fields(nf, allow_flatten=True):
    fields = []
    used = set()
    has_flatten = False
    depth = 0
    for k in range(nf):
        ident = rng.choice([i for i in IDENTS if i not in used])
        used.add(ident)
        opts = []
        f = dict(ident=ident, skip=False, multiple=False, flatten=False, elem=None, post=None, with_=None, default=None)
        # choose a type
        nested = [t for t in types_by_name.values() if t.depth < 3 and t.valid]
        roll = rng.random()
        if roll < 0.22 and nested:
            ty = rng.choice(nested)
        else:
            ty = rng.choice(LEAVES)
        # flatten?
        if allow_flatten and not has_flatten and rng.random() < 0.15:
            cands = [t for t in types_by_name.values() if t.flattenable and t.depth < 3] + [FLAT_MAP]
            ty = rng.choice(cands)
            f["flatten"] = True
            has_flatten = True
            opts.append("flatten")
        elif rng.random() < 0.4 and ty.rust in ("u8", "String", "i64", "bool", "char"):
            f["multiple"] = True
            f["elem"] = ty
            ty = T("Vec<%s>" % ty.rust, [], [], depth=ty.depth)
            opts.append(rng.choice(["multiple", "multiple = true"]))
        else:
            if rng.random() < 0.12 and ty.has_default:
                f["skip"] = True
                opts.append(rng.choice(["skip", "skip = true"]))
            elif rng.random() < 0.05:
                opts.append("skip = false")
        depth = max(depth, ty.depth)
        f["ty"] = ty
        if not f["flatten"] and not f["skip"]:
            if rng.random() < 0.25:
                # sometimes a rename to the field's own Rust name: the usual way to opt one field out of `rename_all`
                f["rename"] = rng.choice(["Custom%d" % k, "renamed_%d" % k, "Type", "r%d" % k, f["ident"], f["ident"]])
                opts.append('rename = "%s"' % f["rename"])
            base_rust = f["elem"].rust if f["multiple"] else ty.rust
            r2 = rng.random()
            # rare option values must not depend on luck: force each until it has its minimum count
            need = [k for k in ("nonzero", "map_inc", "with_u8_plus1") if FEATURE_COUNT.get(k, 0) < FEATURE_MIN[k]]
            if base_rust == "u8" and need and r2 < 0.7:
                k = need[0]
                FEATURE_COUNT[k] = FEATURE_COUNT.get(k, 0) + 1
                if k == "with_u8_plus1":
                    f["with_"] = "fns::with_u8_plus1"
                    opts.append("with = fns::with_u8_plus1")
                else:
                    f["post"] = ("map", "fns::map_inc") if k == "map_inc" else ("and_then", "fns::nonzero")
                    opts.append("%s = %s" % (f["post"][0], rng.choice(['"%s"' % f["post"][1], f["post"][1]])))
            elif base_rust == "String" and FEATURE_COUNT.get("with_upper", 0) < FEATURE_MIN["with_upper"] and r2 < 0.7:
                FEATURE_COUNT["with_upper"] = FEATURE_COUNT.get("with_upper", 0) + 1
                f["with_"] = rng.choice(["fns::with_upper", "|m| fns::with_upper(m)"])
                opts.append("with = %s" % f["with_"])
            elif not f["multiple"] and FEATURE_COUNT.get("with_fail", 0) < FEATURE_MIN["with_fail"] and r2 > 0.9:
                FEATURE_COUNT["with_fail"] = FEATURE_COUNT.get("with_fail", 0) + 1
                f["with_"] = "fns::with_fail"
                opts.append("with = fns::with_fail")
            elif base_rust == "u8" and r2 < 0.15:
                f["with_"] = "fns::with_u8_plus1"
                opts.append("with = fns::with_u8_plus1")
            elif base_rust == "String" and r2 < 0.15:
                f["with_"] = rng.choice(["fns::with_upper", "|m| fns::with_upper(m)"])
                opts.append("with = %s" % f["with_"])
            elif r2 > 0.97 and not f["multiple"]:
                f["with_"] = "fns::with_fail"
                opts.append("with = fns::with_fail")
            elif base_rust == "u8" and r2 < 0.3:
                f["post"] = rng.choice([("map", "fns::map_inc"), ("and_then", "fns::nonzero")])
                opts.append("%s = %s" % (f["post"][0], rng.choice(['"%s"' % f["post"][1], f["post"][1]])))
        if not f["flatten"]:
            r3 = rng.random()
            if f["multiple"]:
                if r3 < 0.2:
                    f["default"] = "bare"
                    opts.append("default")
            elif r3 < 0.15 and ty.has_default:
                f["default"] = "bare"
                opts.append("default")
            elif r3 < 0.3 and ty.rust in ("u8", "String", "i64"):
                fn = {"u8": "fns::dflt_u8", "String": "fns::dflt_string", "i64": "fns::dflt_i64"}[ty.rust]
                f["default"] = fn
                opts.append('default = "%s"' % fn)
        f["opts"] = opts
        fields.append(f)
    return fields, has_flatten, depth


def finish_fields(fields, rule, container_default):
    """effective names and requiredness; None when effective names collide"""
    for f in fields:
        # raw identifiers keep their `r#`; the case rules of the external crate are not mirrored for them here
        if (f["ident"].startswith("r#") or not f["ident"].isascii()) and rule is not None and not f.get("rename"):
            return False
        f["name"] = f.get("rename") or to_field(rule, f["ident"])
        f["addressable"] = not f["skip"] and not f["flatten"]
        has_dflt = f["default"] is not None or container_default or f["skip"]
        f["required"] = f["addressable"] and not f["multiple"] and not has_dflt and not f["ty"].optional
    names = [f["name"] for f in fields if f["addressable"]]
    return len(set(names)) == len(names)


def gen_struct(idx):
    name = "R%d" % idx
    nf = rng.randint(1, 5)
    rule = rng.choice([None, None, None] + RULES)
    container_default = rng.random() < 0.4
    allow_unknown = rng.random() < 0.2
    container_post = rng.choice([None, None, None, None, ("map", "fns::id"), ("and_then", "fns::ok")])
    fields, has_flatten, depth = gen_fields(nf)
    # container default needs Default for every field type
    if container_default and not all(f["ty"].has_default for f in fields):
        container_default = False
    if not finish_fields(fields, rule, container_default):
        return None
    r = dict(kind="struct", name=name, fields=fields, rule=rule, container_default=container_default,
             allow_unknown=allow_unknown, container_post=container_post, has_flatten=has_flatten, depth=depth + 1)
    return r


def struct_type(r):
    valid, invalid = struct_samples(r)
    flattenable = not r["has_flatten"] and not r["allow_unknown"] and r["container_post"] is None
    flat_items = []
    if flattenable:
        for _ in range(3):
            flat_items.append(compose_items(r))
    t = T(r["name"], valid, invalid, has_default=r["container_default_impl"], optional=False, depth=r["depth"],
          flattenable=flattenable, flat_items=flat_items)
    return t


def emit_struct(r, out):
    cattrs = []
    if r["rule"]:
        cattrs.append('rename_all = "%s"' % r["rule"])
    if r["container_default"]:
        cattrs.append("default")
    if r["allow_unknown"]:
        cattrs.append("allow_unknown_fields")
    if r["container_post"]:
        cattrs.append('%s = "%s"' % r["container_post"])
    out.append("#[derive(Debug, FromMeta)]")
    if cattrs:
        # split across two attributes sometimes
        if len(cattrs) > 1 and rng.random() < 0.4:
            out.append("#[darling(%s)]" % cattrs[0])
            out.append("#[darling(%s)]" % ", ".join(cattrs[1:]))
        else:
            out.append("#[darling(%s)]" % ", ".join(cattrs))
    out.append("pub struct %s {" % r["name"])
    for f in r["fields"]:
        if f["opts"]:
            out.extend(attr_lines(f["opts"], "    "))
        out.append("    pub %s: %s," % (f["ident"], f["ty"].rust))
    out.append("}")
    # Default impl (explicit, non-trivial values where possible) when every field type has Default
    r["container_default_impl"] = all(f["ty"].has_default for f in r["fields"])
    if r["container_default_impl"]:
        out.append("impl Default for %s {" % r["name"])
        out.append("    fn default() -> Self {")
        out.append("        %s {" % r["name"])
        for f in r["fields"]:
            special = {"u8": "11", "i64": "-11", "String": '"container".to_string()', "bool": "true", "char": "'k'",
                       "Vec<u8>": "vec![7, 8]", "Vec<String>": 'vec!["src".to_string(), "tests".to_string()]', "Vec<i64>": "vec![-1]",
                       "Vec<bool>": "vec![true, false]", "Vec<char>": "vec!['z']", "Option<u8>": "Some(3)"}
            out.append("            %s: %s," % (f["ident"], special.get(f["ty"].rust, "Default::default()")))
        out.append("        }")
        out.append("    }")
        out.append("}")
    out.append("impl Canon for %s {" % r["name"])
    out.append("    fn canon(&self) -> Sx {")
    out.append('        tagged("rec", vec![st("%s"), %s])' % (
        r["name"], ", ".join('list(vec![st("%s"), self.%s.canon()])' % (f["ident"], f["ident"]) for f in r["fields"])))
    out.append("    }")
    out.append("}")


def info_struct(r, out):
    out.append("fn info_%s() -> RecvInfo {" % r["name"])
    out.append("    RecvInfo {")
    out.append('        name: "%s", is_enum: false, allow_unknown: %s, has_flatten: %s,' % (
        r["name"], "true" if r["allow_unknown"] else "false", "true" if r["has_flatten"] else "false"))
    out.append("        fields: vec![")
    for f in r["fields"]:
        if not f["addressable"]:
            continue
        ty = f["elem"] if f["multiple"] else f["ty"]
        out.append('            FieldInfo { name: "%s", required: %s, multiple: %s, valid: &[%s], invalid: &[%s] },' % (
            f["name"], "true" if f["required"] else "false", "true" if f["multiple"] else "false",
            ", ".join(rs(v) for v in ty.valid), ", ".join(rs(v) for v in ty.invalid)))
    out.append("        ],")
    flat = [f for f in r["fields"] if f["flatten"]]
    out.append("        flat_items: &[%s]," % (", ".join("&[%s]" % ", ".join(rs(i) for i in items) for items in flat[0]["ty"].flat_items) if flat else ""))
    t = types_by_name[r["name"]]
    out.append("        valid: &[%s]," % ", ".join(rs(v) for v in t.valid))
    out.append("        invalid: &[%s]," % ", ".join(rs(v) for v in t.invalid))
    out.append("    }")
    out.append("}")


def rs(s):
    return '"' + s.replace("\\", "\\\\").replace('"', '\\"') + '"'


# ---------------------------------------------------------------- enums


def gen_enum(idx):
    name = "E%d" % idx
    rule = rng.choice([None, None, "lowercase", "PascalCase", "camelCase", "snake_case", "SCREAMING_SNAKE_CASE", "kebab-case"])
    eff_rule = rule or "snake_case"
    nv = rng.randint(1, 5)
    used = set()
    variants = []
    word_used = False
    allow_unknown = rng.random() < 0.15
    depth = 0
    for k in range(nv):
        ident = rng.choice([i for i in VIDENTS if i not in used and not (i.startswith("r#") and rule not in (None, "snake_case", "lowercase"))])
        used.add(ident)
        v = dict(ident=ident, skip=False, word=False, opts=[])
        kind = rng.choice(["unit", "unit", "newtype", "struct"])
        v["kind"] = kind
        if kind == "newtype":
            nested = [t for t in types_by_name.values() if t.depth < 3 and t.valid and not t.rust.startswith("E")]
            v["ty"] = rng.choice(nested) if nested and rng.random() < 0.3 else rng.choice(LEAVES)
            depth = max(depth, v["ty"].depth)
        elif kind == "struct":
            # the fields of a struct variant take every field option a struct receiver's fields take
            if eff_rule == "kebab-case":
                return None          # kebab-case field names cannot be spelled as identifiers
            # a struct variant without fields (`Idle {}`): it still rejects every item of its list
            if FEATURE_COUNT.get("empty_struct_variant", 0) < FEATURE_MIN["empty_struct_variant"] and rng.random() < 0.3:
                v["fields"] = []
                v["empty_struct"] = True
                if rng.random() < 0.12:
                    v["skip"] = True
                    v["opts"].append("skip")
                v["name"] = to_variant(eff_rule, ident)
                variants.append(v)
                continue
            # guaranteed minimum of struct variants with a flatten field AND a skipped sibling
            want = FEATURE_COUNT.get("vflat_skip", 0) < FEATURE_MIN["vflat_skip"]
            for _attempt in range(400 if want else 1):
                snap = (dict(FEATURE_COUNT), dict(RR))    # a discarded attempt must not use up forced features
                fs, vflat, fdepth = gen_fields(rng.randint(2, 3) if want else rng.randint(1, 3))
                if want and not (vflat and any(not f["flatten"] and not f["multiple"] and f["ty"].has_default for f in fs)):
                    FEATURE_COUNT.clear(); FEATURE_COUNT.update(snap[0]); RR.clear(); RR.update(snap[1])
                if not want or (vflat and any(not f["flatten"] and not f["multiple"] and f["ty"].has_default for f in fs)):
                    break
            if vflat:
                # make a skipped sibling likely next to a flatten field (suggestions must not offer it)
                for f in fs:
                    if not f["flatten"] and not f["skip"] and not f["multiple"] and f["ty"].has_default and (want or rng.random() < 0.4):
                        f["skip"] = True
                        f["opts"] = [o for o in f["opts"] if not o.startswith(("rename", "with", "map", "and_then", "default", "skip"))] + ["skip"]
                        f.pop("rename", None)
            if not finish_fields(fs, eff_rule, False):
                return None
            depth = max(depth, fdepth)
            v["fields"] = fs
        want_sw = kind == "unit" and not word_used and FEATURE_COUNT.get("skip_word", 0) < FEATURE_MIN["skip_word"] and rng.random() < 0.5
        if want_sw or rng.random() < 0.12:
            v["skip"] = True
            v["opts"].append("skip")
        if rng.random() < 0.2:
            v["rename"] = rng.choice(["renamed%d" % k, "Weird-Name", "x%d" % k])
            v["opts"].append('rename = "%s"' % v["rename"])
        if kind == "unit" and not word_used and (want_sw or rng.random() < (0.7 if v["skip"] else 0.3)):
            v["word"] = True
            word_used = True
            v["opts"].append(rng.choice(["word", "word", "word = true"]))
            if v["skip"]:
                # `skip` and `word` on one variant: every textual order, in one attribute and split over two
                v["layout"] = rr("skip_word_layout", ["skip,word", "word,skip", "skip|word", "word|skip"])
        elif kind == "unit" and not word_used and rng.random() < (0.6 if FEATURE_COUNT.get("word_false", 0) < 3 else 0.1):
            FEATURE_COUNT["word_false"] = FEATURE_COUNT.get("word_false", 0) + 1
            # declared, but not a word variant (darling allows `word` on at most one variant, whatever its value)
            word_used = True
            v["opts"].append("word = false")
        v["name"] = v.get("rename") or to_variant(eff_rule, ident)
        variants.append(v)
    # a skipped variant declared before a selectable one with the same effective name (it must stay inert)
    if FEATURE_COUNT.get("skip_collide", 0) < FEATURE_MIN["skip_collide"] and len(variants) >= 2:
        js = [j for j in range(1, len(variants)) if not variants[j]["skip"]]
        if js:
            j = rng.choice(js)
            a = variants[rng.randrange(j)]
            b = variants[j]
            if not (a["word"] and not a["skip"]) and not a.get("layout"):
                if not a["skip"]:
                    a["skip"] = True
                    a["opts"].append("skip")
                a["opts"] = [o for o in a["opts"] if not o.startswith("rename")] + ['rename = "%s"' % b["name"]]
                a["rename"] = b["name"]
                a["name"] = b["name"]
                a["collides"] = True
    names = [v["name"] for v in variants if not v["skip"]]
    if len(set(names)) != len(names) or not names:
        return None
    # kebab-case field names of struct variants cannot be spelled: reject such enums
    for v in variants:
        if v["kind"] == "struct" and any("-" in f["name"] for f in v["fields"]):
            return None
    FEATURE_COUNT["empty_struct_variant"] = FEATURE_COUNT.get("empty_struct_variant", 0) + sum(1 for v in variants if v.get("empty_struct") and not v["skip"])
    FEATURE_COUNT["skip_word"] = FEATURE_COUNT.get("skip_word", 0) + sum(1 for v in variants if v.get("layout"))
    FEATURE_COUNT["skip_collide"] = FEATURE_COUNT.get("skip_collide", 0) + sum(1 for v in variants if v.get("collides"))
    FEATURE_COUNT["vflat_skip"] = FEATURE_COUNT.get("vflat_skip", 0) + sum(
        1 for v in variants if v["kind"] == "struct" and not v["skip"] and any(f["flatten"] for f in v["fields"])
        and any(f["skip"] and not f["flatten"] for f in v["fields"]))
    return dict(kind="enum", name=name, rule=rule, variants=variants, allow_unknown=allow_unknown, depth=depth + 1)


def spellable(n):
    return n.replace("_", "a").isalnum() and not n[0].isdigit()


def enum_type(e):
    valid, invalid = [], []
    for v in e["variants"]:
        if v["skip"]:
            if v["name"] not in [w["name"] for w in e["variants"] if not w["skip"]]:
                invalid.append("(%s)" % v["name"] if spellable(v["name"]) else ' = "%s"' % v["name"])
            continue
        n = v["name"]
        if v["kind"] == "unit":
            valid.append(' = "%s"' % n)
            if spellable(n):
                valid.append("(%s)" % n)
                invalid.append("(%s = 1)" % n)
        elif v["kind"] == "newtype":
            if spellable(n):
                for s in v["ty"].valid[:2]:
                    valid.append("(%s%s)" % (n, s))
                for s in v["ty"].invalid[:2]:
                    invalid.append("(%s%s)" % (n, s))
            (valid if v["ty"].optional else invalid).append(' = "%s"' % n)
        else:
            if spellable(n):
                r = dict(fields=v["fields"], allow_unknown=e["allow_unknown"], has_flatten=any(f["flatten"] for f in v["fields"]))
                for _ in range(2):
                    valid.append("(%s(%s))" % (n, ", ".join(compose_items(r))))
                invalid.append("(%s(zzz_unknown = 1))" % n if not (e["allow_unknown"] or r["has_flatten"]) else "(%s = 5)" % n)
                invalid.append("(%s)" % n)
            invalid.append(' = "%s"' % n)
    invalid += ["()", "(nope)", ' = "nope"', " = 5", "(a, b)"]
    if any(v["word"] and not v["skip"] for v in e["variants"]):
        valid.append("")
    else:
        invalid.append("")
    return T(e["name"], valid, invalid, has_default=False, optional=False, depth=e["depth"])


def emit_enum(e, out):
    cattrs = []
    if e["rule"]:
        cattrs.append('rename_all = "%s"' % e["rule"])
    if e["allow_unknown"]:
        cattrs.append("allow_unknown_fields")
    out.append("#[derive(Debug, FromMeta)]")
    if cattrs:
        out.append("#[darling(%s)]" % ", ".join(cattrs))
    out.append("pub enum %s {" % e["name"])
    for v in e["variants"]:
        if v.get("layout"):
            w = [o for o in v["opts"] if o.startswith("word")][0]
            rest = [o for o in v["opts"] if o != "skip" and o != w]
            lay = v["layout"]
            seq = ["skip", w] if lay.startswith("skip") else [w, "skip"]
            if "|" in lay:
                out.append("    #[darling(%s)]" % ", ".join([seq[0]] + rest))
                out.append("    #[darling(%s)]" % seq[1])
            else:
                out.append("    #[darling(%s)]" % ", ".join(seq + rest))
        elif v["opts"]:
            out.extend(attr_lines(v["opts"], "    "))
        if v["kind"] == "unit":
            out.append("    %s," % v["ident"])
        elif v["kind"] == "newtype":
            out.append("    %s(%s)," % (v["ident"], v["ty"].rust))
        else:
            out.append("    %s {" % v["ident"])
            for f in v["fields"]:
                if f["opts"]:
                    out.extend(attr_lines(f["opts"], "        "))
                out.append("        %s: %s," % (f["ident"], f["ty"].rust))
            out.append("    },")
    out.append("}")
    out.append("impl Canon for %s {" % e["name"])
    out.append("    fn canon(&self) -> Sx {")
    out.append("        match self {")
    for v in e["variants"]:
        if v["kind"] == "unit":
            out.append('            %s::%s => tagged("variant", vec![st("%s"), st("%s"), atom("unit")]),' % (e["name"], v["ident"], e["name"], v["ident"]))
        elif v["kind"] == "newtype":
            out.append('            %s::%s(x) => tagged("variant", vec![st("%s"), st("%s"), x.canon()]),' % (e["name"], v["ident"], e["name"], v["ident"]))
        else:
            out.append('            %s::%s { %s } => tagged("variant", vec![st("%s"), st("%s"), tagged("rec", vec![st("%s"), %s])]),' % (
                e["name"], v["ident"], ", ".join(f["ident"] for f in v["fields"]), e["name"], v["ident"], v["ident"],
                ", ".join('list(vec![st("%s"), %s.canon()])' % (f["ident"], f["ident"]) for f in v["fields"])))
    out.append("        }")
    out.append("    }")
    out.append("}")


def info_enum(e, out):
    t = types_by_name[e["name"]]
    out.append("fn info_%s() -> RecvInfo {" % e["name"])
    out.append('    RecvInfo { name: "%s", is_enum: true, allow_unknown: %s, has_flatten: false, fields: vec![], flat_items: &[],' % (
        e["name"], "true" if e["allow_unknown"] else "false"))
    out.append("        valid: &[%s]," % ", ".join(rs(v) for v in t.valid))
    out.append("        invalid: &[%s] }" % ", ".join(rs(v) for v in t.invalid))
    out.append("}")



# ---------------------------------------------------------------- element-level receivers

ATTR_NAMES = ["my", "conf", "opt", "x_attr", "ns::cfg", "::glob", "r#kind", "tool::r#mod"]
outer = []          # dicts
ff_names, fv_names, ft_names = [], [], []


def gen_outer(idx, kind):
    name = "%s%d" % (kind, idx)
    rule = rng.choice([None, None, None] + RULES)
    nf = rng.randint(0, 3)
    fields, has_flatten, depth = gen_fields(nf)
    # avoid field identifiers that collide with magic names (none of IDENTS do) and container defaults
    if not finish_fields(fields, rule, False):
        return None
    k = rng.randint(1, 3)
    attr_names = rng.sample(ATTR_NAMES, k)
    # raw-identifier attribute names must not depend on luck
    forced = rr("attr_name_forced", [None, None, None, "r#kind", None, None, None, "tool::r#mod"])
    if forced and forced not in attr_names:
        attr_names[rng.randrange(len(attr_names))] = forced
    fwd = rr("fwd", [None, "all", None, "list", "list2", "all", "empty", "list3"])
    magic = []
    pool = {"FD": ["ident", "vis", "generics"], "FF": ["ident", "vis", "ty"], "FV": ["ident", "discriminant"],
            "FT": ["ident", "bounds", "default"], "FA": []}[kind]
    for m in pool:
        if rng.random() < 0.5:
            magic.append(m)
    attrs_field = None
    if fwd is not None and rng.random() < 0.8:
        attrs_field = rr("attrs_field", ["plain", "count", "plain", "fail"])
    body = None
    def wrap(name, syn_ty):
        # an entry receiver plain, or inside the two wrappers that implement the entry traits
        return rr("entry_wrapper", [name, "SpannedValue<%s>" % name, name, "WithOriginal<%s, %s>" % (name, syn_ty)])
    if kind == "FD" and rng.random() < 0.6:
        v = rng.choice(["()", "syn::Ident", "syn::Variant", "Vec<syn::Attribute>"] + [wrap(n, "syn::Variant") for n in fv_names[-3:]])
        f = rng.choice(["()", "syn::Type", "syn::Visibility", "syn::Field", "Vec<syn::Attribute>"] + [wrap(n, "syn::Field") for n in ff_names[-3:]])
        body = ("data", rng.choice(["ast::Data<%s, %s>" % (v, f)] * 4 + ["kind"]))
    if kind == "FV" and rng.random() < 0.6:
        f = rng.choice(["()", "syn::Type", "syn::Field"] + [wrap(n, "syn::Field") for n in ff_names[-3:]])
        body = ("fields", "ast::Fields<%s>" % f)
    supports = None
    if kind == "FD" and rng.random() < 0.35:
        words = ["any", "struct_any", "struct_named", "struct_tuple", "struct_newtype", "struct_unit", "enum_any", "enum_named",
                 "enum_tuple", "enum_newtype", "enum_unit"]
        supports = rng.sample(words, rng.randint(1, 3))
    if kind == "FV" and rng.random() < 0.35:
        supports = rng.sample(["any", "named", "tuple", "newtype", "unit"], rng.randint(1, 2))
    from_ident = kind == "FD" and rng.random() < 0.2 and not has_flatten and all(
        f["ty"].rust in ("u8", "String", "i64", "bool", "Option<u8>", "Option<String>") or f["multiple"] for f in fields) \
        and attrs_field is None and body is None and set(magic) <= {"ident"}
    if from_ident:
        magic = ["ident"]
        for f in fields:
            # `from_ident` behaves like a container default
            f["required"] = False
    allow_unknown = rng.random() < 0.15
    return dict(kind=kind, name=name, rule=rule, fields=fields, attr_names=attr_names, fwd=fwd, magic=magic, attrs_field=attrs_field,
                body=body, supports=supports, from_ident=from_ident, allow_unknown=allow_unknown, has_flatten=has_flatten)


MAGIC_TY = {("FD", "ident"): "syn::Ident", ("FD", "vis"): "syn::Visibility", ("FD", "generics"): "syn::Generics",
            ("FF", "ident"): "Option<syn::Ident>", ("FF", "vis"): "syn::Visibility", ("FF", "ty"): "syn::Type",
            ("FV", "ident"): "syn::Ident", ("FV", "discriminant"): "Option<syn::Expr>",
            ("FT", "ident"): "syn::Ident", ("FT", "bounds"): "Vec<syn::TypeParamBound>", ("FT", "default"): "Option<syn::Type>"}
DERIVE = {"FD": "FromDeriveInput", "FF": "FromField", "FV": "FromVariant", "FT": "FromTypeParam", "FA": "FromAttributes"}


def emit_outer(r, out):
    cattrs = ["attributes(%s)" % ", ".join(r["attr_names"])]
    if r["fwd"] == "all":
        cattrs.append("forward_attrs")
    elif r["fwd"] == "list":
        cattrs.append("forward_attrs(doc, allow)")
    elif r["fwd"] == "list2":
        cattrs.append(rng.choice(["forward_attrs(a::b, doc)", "forward_attrs(::allow, a::b, doc)"]))
    elif r["fwd"] == "empty":
        cattrs.append("forward_attrs()")
    elif r["fwd"] == "list3":
        cattrs.append("forward_attrs(r#ref, tool::r#move, doc)")
    if r["rule"]:
        cattrs.append('rename_all = "%s"' % r["rule"])
    if r["supports"]:
        cattrs.append("supports(%s)" % ", ".join(r["supports"]))
    if r["from_ident"]:
        cattrs.append("from_ident")
    if r["allow_unknown"]:
        cattrs.append("allow_unknown_fields")
    rng.shuffle(cattrs)
    out.append("#[derive(%s)]" % DERIVE[r["kind"]])
    if len(cattrs) > 1 and rng.random() < 0.4:
        out.append("#[darling(%s)]" % cattrs[0])
        out.append("#[darling(%s)]" % ", ".join(cattrs[1:]))
    else:
        out.append("#[darling(%s)]" % ", ".join(cattrs))
    out.append("pub struct %s {" % r["name"])
    members = []
    for m in r["magic"]:
        ty = MAGIC_TY[(r["kind"], m)]
        if m == "generics" and rng.random() < 0.6:
            ty = rng.choice(["ast::Generics<syn::GenericParam>", "ast::Generics<ast::GenericParam<syn::Ident>>",
                             "ast::Generics<ast::GenericParam<syn::TypeParam>>", "ast::Generics<ast::GenericParam<Vec<syn::Attribute>>>"] +
                            ["ast::Generics<ast::GenericParam<%s>>" % n for n in ft_names[-3:]])
            w = rr("generics_wrapper", ["plain", "result", "plain", "withorig", "plain"])
            if w == "result":
                ty = "darling::Result<%s>" % ty
            elif w == "withorig":
                ty = "WithOriginal<%s, syn::Generics>" % ty
        members.append((m, ty, None))
    if r["attrs_field"]:
        if r["attrs_field"] == "plain":
            members.append(("attrs", "Vec<syn::Attribute>", None))
        elif r["attrs_field"] == "count":
            members.append(("attrs", "usize", "with = fns::attrs_count"))
        else:
            members.append(("attrs", "usize", "with = fns::attrs_fail"))
    if r["body"]:
        if r["body"][1] == "kind":
            members.append(("data", "String", "with = fns::data_kind"))
        else:
            members.append((r["body"][0], r["body"][1], None))
    for f in r["fields"]:
        members.append((f["ident"], f["ty"].rust, ", ".join(f["opts"]) if f["opts"] else None))
    rng.shuffle(members)
    for (ident, ty, opt) in members:
        if opt:
            out.append("    #[darling(%s)]" % opt)
        out.append("    pub %s: %s," % (ident, ty))
    out.append("}")
    r["members"] = members
    if r["from_ident"]:
        out.append("impl From<syn::Ident> for %s {" % r["name"])
        out.append("    fn from(i: syn::Ident) -> Self {")
        out.append("        %s {" % r["name"])
        for (ident, ty, _) in members:
            special = {"u8": "99", "i64": "-99", "String": "i.to_string()", "bool": "true", "Option<u8>": "Some(9)",
                       "Option<String>": "Some(i.to_string())", "syn::Ident": "i.clone()", "Vec<u8>": "vec![9]",
                       "Vec<String>": "vec![i.to_string()]", "Vec<i64>": "vec![-9]", "Vec<bool>": "vec![true]", "Vec<char>": "vec!['i']"}
            out.append("            %s: %s," % (ident, special.get(ty, "Default::default()")))
        out.append("        }")
        out.append("    }")
        out.append("}")
    out.append("impl Canon for %s {" % r["name"])
    out.append("    fn canon(&self) -> Sx {")
    srt = sorted(members, key=lambda m: m[0])
    out.append('        tagged("rec", vec![st("%s"), %s])' % (
        r["name"], ", ".join('list(vec![st("%s"), self.%s.canon()])' % (m[0], m[0]) for m in srt)))
    out.append("    }")
    out.append("}")


def info_outer(r, out):
    out.append("fn info_%s() -> OuterInfo {" % r["name"])
    out.append("    OuterInfo {")
    out.append('        base: RecvInfo { name: "%s", is_enum: false, allow_unknown: %s, has_flatten: %s,' % (
        r["name"], "true" if r["allow_unknown"] else "false", "true" if r["has_flatten"] else "false"))
    out.append("            fields: vec![")
    for f in r["fields"]:
        if not f["addressable"]:
            continue
        ty = f["elem"] if f["multiple"] else f["ty"]
        out.append('                FieldInfo { name: "%s", required: %s, multiple: %s, valid: &[%s], invalid: &[%s] },' % (
            f["name"], "true" if f["required"] else "false", "true" if f["multiple"] else "false",
            ", ".join(rs(v) for v in ty.valid), ", ".join(rs(v) for v in ty.invalid)))
    out.append("            ],")
    flat = [f for f in r["fields"] if f["flatten"]]
    out.append("            flat_items: &[%s], valid: &[], invalid: &[] }," % (", ".join("&[%s]" % ", ".join(rs(i) for i in items) for items in flat[0]["ty"].flat_items) if flat else ""))
    out.append('        kind: "%s", attr_names: &[%s], from_ident: %s,' % (r["kind"], ", ".join(rs(a) for a in r["attr_names"]), "true" if r["from_ident"] else "false"))
    out.append("    }")
    out.append("}")


def gen_outers(out, infos):
    global outer
    idx = 0
    counts = {"FF": 0, "FV": 0, "FT": 0, "FD": 0, "FA": 0}
    order = ["FF"] * 18 + ["FV"] * 14 + ["FT"] * 8 + ["FD"] * 30 + ["FA"] * 10
    for kind in order:
        while True:
            idx += 1
            r = gen_outer(idx, kind)
            if r is not None:
                break
        emit_outer(r, out)
        outer.append(r)
        counts[kind] += 1
        if kind == "FF":
            ff_names.append(r["name"])
        if kind == "FV":
            fv_names.append(r["name"])
        if kind == "FT":
            ft_names.append(r["name"])
    for r in outer:
        info_outer(r, infos)
    return counts


def main():
    out = ["//! GENERATED by harness/gen/gen_fm.py — the compiled corpus of `FromMeta` receivers.",
           "#![allow(dead_code, unused_imports, non_snake_case, non_camel_case_types, clippy::all)]",
           "use crate::fns;", "use crate::recv::{FieldInfo, OuterEntry, OuterInfo, OuterRun, RecvInfo};", "use darling::ast;",
           "use darling::{FromAttributes, FromDeriveInput, FromField, FromTypeParam, FromVariant};", "use darling::util::WithOriginal;", "use crate::sx::*;", "use crate::types::{mk, TyEntry};",
           "use crate::vals::Canon;", "use darling::util::{Flag, Override, SpannedValue};", "use darling::FromMeta;",
           "use std::collections::HashMap;", ""]
    body = []
    infos = []
    n_struct = n_enum = 0
    idx = 0
    while n_struct < 110 or n_enum < 50:
        idx += 1
        if (rng.random() < 0.7 and n_struct < 110) or n_enum >= 50:
            r = gen_struct(idx)
            if r is None:
                continue
            emit_struct(r, body)
            t = struct_type(r)
            types_by_name[r["name"]] = t
            n_struct += 1
        else:
            r = gen_enum(idx)
            if r is None:
                continue
            emit_enum(r, body)
            types_by_name[r["name"]] = enum_type(r)
            n_enum += 1
        receivers.append(r)
    for r in receivers:
        (info_struct if r["kind"] == "struct" else info_enum)(r, infos)
    counts = gen_outers(body, infos)
    # fixed receiver for the F16 witness (independent of the random corpus)
    body += ["#[derive(FromAttributes)]", "#[darling(attributes(a))]", "pub struct FAW {", "    pub f: i64,", "    #[darling(default)]",
             "    pub g: i64,", "}", "impl Canon for FAW {", "    fn canon(&self) -> Sx {",
             '        tagged("rec", vec![st("FAW"), list(vec![st("f"), self.f.canon()]), list(vec![st("g"), self.g.canon()])])', "    }", "}"]
    infos += ["fn info_FAW() -> OuterInfo {", "    OuterInfo {",
              '        base: RecvInfo { name: "FAW", is_enum: false, allow_unknown: false, has_flatten: false,', "            fields: vec![",
              '                FieldInfo { name: "f", required: true, multiple: false, valid: &[" = 5", " = 12"], invalid: &[" = true"] },',
              '                FieldInfo { name: "g", required: false, multiple: false, valid: &[" = 7"], invalid: &[" = true"] },',
              "            ],", "            flat_items: &[], valid: &[], invalid: &[] },",
              '        kind: "FA", attr_names: &["a"], from_ident: false,', "    }", "}"]
    # fixed FromMeta receivers (independent of the random corpus): a struct variant with a flatten member
    # that rejects unknown names next to a skipped sibling, and a struct variant without fields
    body += ["#[derive(Debug, FromMeta)]", "pub struct WIN {", "    pub p: Option<u8>,", "    #[darling(default)]", "    pub q: u8,", "}",
             "impl Canon for WIN {", "    fn canon(&self) -> Sx {",
             '        tagged("rec", vec![st("WIN"), list(vec![st("p"), self.p.canon()]), list(vec![st("q"), self.q.canon()])])', "    }", "}",
             "#[derive(Debug, FromMeta)]", "pub enum EVW {", "    Idle {},", "    Cfg {", "        #[darling(flatten)]", "        inner: WIN,",
             "        #[darling(skip)]", "        hidden: Option<u8>,", "        level: u8,", "    },", "}",
             "impl Canon for EVW {", "    fn canon(&self) -> Sx {", "        match self {",
             '            EVW::Idle {} => tagged("variant", vec![st("EVW"), st("Idle"), tagged("rec", vec![st("Idle")])]),',
             '            EVW::Cfg { inner, hidden, level } => tagged("variant", vec![st("EVW"), st("Cfg"), tagged("rec", vec![st("Cfg"), list(vec![st("inner"), inner.canon()]), list(vec![st("hidden"), hidden.canon()]), list(vec![st("level"), level.canon()])])]),',
             "        }", "    }", "}"]
    infos += ["fn info_WIN() -> RecvInfo {", "    RecvInfo {", '        name: "WIN", is_enum: false, allow_unknown: false, has_flatten: false,', "        fields: vec![",
              '            FieldInfo { name: "p", required: false, multiple: false, valid: &[" = 5", " = 0"], invalid: &[" = 300", " = true"] },',
              '            FieldInfo { name: "q", required: false, multiple: false, valid: &[" = 7"], invalid: &[" = \\"x\\""] },',
              "        ],", "        flat_items: &[],", '        valid: &["(p = 5)", "()", "(q = 7, p = 0)"],', '        invalid: &["(p = 5, zzz_unknown = 1)", "(p = 300)", " = 5"],', "    }", "}",
              "fn info_EVW() -> RecvInfo {",
              '    RecvInfo { name: "EVW", is_enum: true, allow_unknown: false, has_flatten: false, fields: vec![], flat_items: &[],',
              '        valid: &["(idle())", "(cfg(level = 1))", "(cfg(level = 2, p = 5))", "(cfg(q = 7, level = 3, p = 0))"],',
              '        invalid: &["(idle(zzz_unknown = 1))", "(idle(\\"lit\\"))", "(cfg(level = 1, zzz_unknown = 1))", "(cfg(p = 5))", "(idle)", " = \\"idle\\"", "(cfg = 1)", "()", "(nope)", " = 5", "(a, b)", ""] }',
              "}"]
    fixed_fm = ["WIN", "EVW"]
    out += body
    out.append("")
    out += infos
    out.append("")
    out.append("pub struct RecvEntry { pub info: fn() -> RecvInfo, pub ty: TyEntry, pub vals: fn() -> Vec<(String, Sx)> }")
    for r in receivers:
        out.append("fn vals_%s() -> Vec<(String, Sx)> {" % r["name"])
        if r["kind"] == "struct" and r.get("container_default_impl"):
            out.append('    vec![("cdefault:%s".to_string(), %s::default().canon())]' % (r["name"], r["name"]))
        else:
            out.append("    vec![]")
        out.append("}")
    for n in fixed_fm:
        out.append("fn vals_%s() -> Vec<(String, Sx)> {" % n)
        out.append("    vec![]")
        out.append("}")
    out.append("pub fn receivers() -> Vec<RecvEntry> {")
    out.append("    vec![")
    for r in receivers:
        out.append('        RecvEntry { info: info_%s, ty: mk::<%s>(tagged("recv", vec![st("%s")]), 0), vals: vals_%s },' % (
            r["name"], r["name"], r["name"], r["name"]))
    for n in fixed_fm:
        out.append('        RecvEntry { info: info_%s, ty: mk::<%s>(tagged("recv", vec![st("%s")]), 0), vals: vals_%s },' % (n, n, n, n))
    out.append("    ]")
    out.append("}")
    for r in outer:
        out.append("fn vals_%s(_ident: &str) -> Vec<(String, Sx)> {" % r["name"])
        if r["from_ident"]:
            out.append('    vec![(format!("fromident:%s:{}", _ident), %s::from(syn::Ident::new(_ident, proc_macro2::Span::call_site())).canon())]' % (r["name"], r["name"]))
        else:
            out.append("    vec![]")
        out.append("}")
    out.append("fn vals_FAW(_ident: &str) -> Vec<(String, Sx)> {")
    out.append("    vec![]")
    out.append("}")
    out.append("pub fn outer_receivers() -> Vec<OuterEntry> {")
    out.append("    vec![")
    runner = {"FD": "Fdi(crate::recv::run_fdi::<%s>)", "FF": "Ff(crate::recv::run_ff::<%s>)", "FV": "Fv(crate::recv::run_fv::<%s>)",
              "FT": "Ft(crate::recv::run_ft::<%s>)", "FA": "Fa(crate::recv::run_fa::<%s>)"}
    for r in outer:
        out.append("        OuterEntry { info: info_%s, run: OuterRun::%s, vals: vals_%s }," % (r["name"], runner[r["kind"]] % r["name"], r["name"]))
    out.append("        OuterEntry { info: info_FAW, run: OuterRun::Fa(crate::recv::run_fa::<FAW>), vals: vals_FAW },")
    out.append("    ]")
    out.append("}")
    text = "\n".join(out) + "\n"
    # the corpus is random but must cover every option and shape the properties quantify over:
    # refuse to write a corpus that lost one of them
    REQUIRED = ["fns::nonzero", "fns::map_inc", "with = fns::with_fail", "with = fns::with_upper", "with = |m|", "with = fns::with_u8_plus1",
                "#[darling(flatten)]", "multiple", "#[darling(skip)]", "skip = true", "skip = false", 'default = "fns::', "#[darling(default)]",
                "rename_all", 'rename = "', "allow_unknown_fields", "from_ident", "supports(", "forward_attrs", "forward_attrs()", "forward_attrs(doc",
                "attributes(", "ns::cfg", "::glob", "r#kind", "tool::r#mod", "forward_attrs(r#ref", "word", "skip", "word = false", "r#type", "r#move", "na\u00efve", "SpannedValue<F", "WithOriginal<F",
                "ast::Generics<", "darling::Result<", "and_then = ", "map = ", "ast::Data<", "ast::Fields<", "Vec<syn::Attribute>",
                "with = fns::attrs_count", "with = fns::attrs_fail", "with = fns::data_kind", "derive(FromTypeParam)", "derive(FromAttributes)",
                "derive(FromVariant)", "derive(FromField)", "derive(FromDeriveInput)", "HashMap<", "Option<", "Override<", "Flag", "syn::Path", "syn::Expr"]
    missing = [k for k in REQUIRED if k not in text]
    missing += [k for k in ("vflat_skip", "skip_word", "skip_collide", "empty_struct_variant") if FEATURE_COUNT.get(k, 0) < FEATURE_MIN[k]]
    if missing:
        raise SystemExit("corpus lost coverage of: %s — adjust the generator (FEATURE_MIN) and regenerate" % missing)
    open(OUT, "w").write(text)
    print("structs", n_struct, "enums", n_enum, "outer", counts)


if __name__ == "__main__":
    main()
