#![allow(dead_code)]
//! Correspondence harness: runs the real darling (path dependency on /repo) on generated cases
//! and writes, per property, `<out>/<prop>.cases` (input lines for the Lean model driver),
//! `<out>/<prop>.impl` (the implementation's canonical answers) and `<out>/<prop>.stats`.
mod canon;
mod corpus_c18;
mod corpus_fm;
mod fns;
mod recv;
mod probes;
mod props;
mod rng;
mod ser;
mod sx;
mod types;
mod vals;

use std::collections::BTreeMap;
use std::io::Write;

pub struct Out {
    cases: std::io::BufWriter<std::fs::File>,
    answers: std::io::BufWriter<std::fs::File>,
    stats: BTreeMap<String, u64>,
    notes: BTreeMap<String, String>,
}

impl Out {
    fn new(dir: &str, prop: &str) -> Out {
        std::fs::create_dir_all(dir).unwrap();
        let f = |ext: &str| {
            std::io::BufWriter::new(std::fs::File::create(format!("{}/{}.{}", dir, prop, ext)).unwrap())
        };
        Out { cases: f("cases"), answers: f("impl"), stats: BTreeMap::new(), notes: BTreeMap::new() }
    }
    pub fn case(&mut self, prop: &str, id: usize, case: &sx::Sx, answer: &str) {
        self.case_id(prop, &id.to_string(), case, answer)
    }
    pub fn case_id(&mut self, prop: &str, id: &str, case: &sx::Sx, answer: &str) {
        writeln!(self.cases, "{} {} {}", prop, id, case.render()).unwrap();
        writeln!(self.answers, "{} {}", id, answer).unwrap();
    }
    pub fn raw(&mut self, line: &str) {
        writeln!(self.cases, "{}", line).unwrap();
    }
    pub fn param(&mut self, key: &str, val: &str) {
        writeln!(self.cases, "param {} {}", key, val).unwrap();
    }
    pub fn stat(&mut self, key: &str, v: u64) {
        *self.stats.entry(key.to_string()).or_insert(0) += v;
    }
    pub fn note(&mut self, key: &str, v: &str) {
        self.notes.insert(key.to_string(), v.to_string());
    }
    fn finish(mut self, dir: &str, prop: &str) {
        self.cases.flush().unwrap();
        self.answers.flush().unwrap();
        let mut s = String::from("{");
        let mut first = true;
        for (k, v) in &self.stats {
            if !first {
                s.push(',');
            }
            first = false;
            s.push_str(&format!("{}:{}", sx::quote(k), v));
        }
        for (k, v) in &self.notes {
            if !first {
                s.push(',');
            }
            first = false;
            s.push_str(&format!("{}:{}", sx::quote(k), sx::quote(v)));
        }
        s.push('}');
        std::fs::write(format!("{}/{}.stats", dir, prop), s).unwrap();
    }
}

fn main() {
    let args: Vec<String> = std::env::args().collect();
    if args.len() < 2 {
        eprintln!("usage: harness <prop> --seed N --n N --out DIR");
        std::process::exit(2);
    }
    let prop = args[1].clone();
    if prop == "c05-child" {
        std::panic::set_hook(Box::new(|_| {}));
        props::c05::child_drop_during_unwind(args[2].parse().unwrap());
    }
    let mut seed = 1u64;
    let mut n = 1000usize;
    let mut out_dir = String::from("out");
    let mut exhaustive: Option<i64> = None;
    let mut i = 2;
    while i < args.len() {
        match args[i].as_str() {
            "--seed" => {
                seed = args[i + 1].parse().unwrap();
                i += 2;
            }
            "--n" => {
                n = args[i + 1].parse().unwrap();
                i += 2;
            }
            "--exhaustive" => {
                exhaustive = Some(args[i + 1].parse().unwrap());
                i += 2;
            }
            "--out" => {
                out_dir = args[i + 1].clone();
                i += 2;
            }
            _ => i += 1,
        }
    }
    // the implementation's panics are caught per case; keep stderr quiet
    std::panic::set_hook(Box::new(|_| {}));
    let mut out = Out::new(&out_dir, &prop);
    match prop.as_str() {
        "c04" => props::c04::run(seed, n, &mut out),
        "c05" => props::c05::run(seed, n, &mut out),
        "c11" => props::fm::run_c11(seed, n, &mut out, exhaustive),
        "c12" => props::fm::run_c12(seed, n, &mut out),
        "c18api" => props::c18::run_api(seed, n, &mut out),
        "c18recv" => props::c18::run_recv(seed, n, &mut out, if n >= 100000 { 4 } else { 3 }),
        "c19a" => props::c19::run_a(seed, n, &mut out),
        "c19b" => props::c19::run_b(seed, n, &mut out),
        "c01" => props::recvfm::run(seed, n, &mut out, false),
        "c02" => props::recvfm::run(seed, n, &mut out, true),
        "c07m" => props::recvfm::run_malformed(seed, n, &mut out),
        "c09" => props::recvfm::run_enums(seed, n, &mut out),
        "c10" => props::derive::run_c10(seed, n, &mut out),
        "c06" => props::derive::run_c06(seed, n, &mut out),
        "c17" => props::recvfm::run_suggest(seed, n, &mut out),
        "c08" => props::outer::run_partitions(seed, n, &mut out),
        "c16" => props::outer::run(seed, n, &mut out, props::outer::Mode::Valid, 0xC16),
        "c16p" => props::outer::run_print(seed, n, &mut out),
        "c16m" => props::outer::run(seed, n, &mut out, props::outer::Mode::Mistakes, 0xC16A),
        "c07o" => props::outer::run(seed, n, &mut out, props::outer::Mode::Malformed, 0xC07),
        "c13" => props::fm::run_c13(seed, n, &mut out),
        "c14" => props::fm::run_c14(seed, n, &mut out),
        "c15a" => props::c15a::run(seed, n, &mut out),
        "c15b" => props::fm::run_c15b(seed, n, &mut out),
        _ => {
            eprintln!("unknown property {}", prop);
            std::process::exit(2);
        }
    }
    out.finish(&out_dir, &prop);
}
