//! SplitMix64: every random choice of a run derives from one state.
#[derive(Clone)]
pub struct Rng(pub u64);

impl Rng {
    pub fn new(seed: u64) -> Self {
        Rng(seed.wrapping_mul(0x9E3779B97F4A7C15).wrapping_add(0x1234_5678_9ABC_DEF1))
    }
    pub fn next(&mut self) -> u64 {
        self.0 = self.0.wrapping_add(0x9E3779B97F4A7C15);
        let mut z = self.0;
        z = (z ^ (z >> 30)).wrapping_mul(0xBF58476D1CE4E5B9);
        z = (z ^ (z >> 27)).wrapping_mul(0x94D049BB133111EB);
        z ^ (z >> 31)
    }
    /// uniform in 0..n (n > 0)
    pub fn below(&mut self, n: usize) -> usize {
        (self.next() % (n as u64)) as usize
    }
    pub fn range(&mut self, lo: usize, hi_incl: usize) -> usize {
        lo + self.below(hi_incl - lo + 1)
    }
    pub fn chance(&mut self, num: usize, den: usize) -> bool {
        self.below(den) < num
    }
    pub fn pick<'a, T>(&mut self, xs: &'a [T]) -> &'a T {
        &xs[self.below(xs.len())]
    }
    /// independent stream for case `i`
    pub fn fork(&self, i: u64) -> Rng {
        let mut r = Rng(self.0 ^ i.wrapping_mul(0xD6E8FEB86659FD93));
        r.next();
        r
    }
    pub fn shuffle<T>(&mut self, xs: &mut Vec<T>) {
        for i in (1..xs.len()).rev() {
            let j = self.below(i + 1);
            xs.swap(i, j);
        }
    }
}
