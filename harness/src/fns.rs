//! The library of user callables the receiver corpus refers to (`with`, `map`, `and_then`,
//! `default = "..."`). The Lean driver has twins of the non-nullary ones (Derive/Env.lean); the
//! values of the nullary ones are shipped as oracle rows.
use darling::{Error, FromMeta, Result};
use syn::Meta;

pub fn with_u8_plus1(m: &Meta) -> Result<u8> {
    u8::from_meta(m).map(|v| v.saturating_add(1))
}
pub fn with_upper(m: &Meta) -> Result<String> {
    String::from_meta(m).map(|s| s.to_ascii_uppercase())
}
pub fn with_fail<T>(_m: &Meta) -> Result<T> {
    Err(Error::custom("with_fail"))
}
pub fn map_inc(v: u8) -> u8 {
    v.saturating_add(1)
}
pub fn map_len(s: String) -> usize {
    s.len()
}
pub fn nonzero(v: u8) -> Result<u8> {
    if v == 0 {
        Err(Error::custom("zero not allowed"))
    } else {
        Ok(v)
    }
}
pub fn dflt_u8() -> u8 {
    42
}
pub fn dflt_string() -> String {
    "dflt".to_string()
}
pub fn dflt_i64() -> i64 {
    -7
}
pub fn id<T>(t: T) -> T {
    t
}
pub fn ok<T>(t: T) -> Result<T> {
    Ok(t)
}

pub fn attrs_count(attrs: Vec<syn::Attribute>) -> Result<usize> {
    Ok(attrs.len())
}
pub fn attrs_fail(_attrs: Vec<syn::Attribute>) -> Result<usize> {
    Err(Error::custom("attrs_fail"))
}
pub fn data_kind(d: &syn::Data) -> Result<String> {
    Ok(match d {
        syn::Data::Struct(_) => "struct",
        syn::Data::Enum(_) => "enum",
        syn::Data::Union(_) => "union",
    }
    .to_string())
}
