//! Canonical rendering of converted values (same shape as `Val.toSexp` in the Lean model).
use crate::canon::{obs_err, span_sx};
use crate::ser::toks;
use crate::sx::*;
use darling::util::{Flag, Override, SpannedValue, WithOriginal};
use std::cell::RefCell;
use std::rc::Rc;
use std::sync::atomic::{AtomicBool, Ordering};
use std::sync::Arc;

pub trait Canon {
    fn canon(&self) -> Sx;
}

impl Canon for () {
    fn canon(&self) -> Sx {
        atom("unit")
    }
}
impl Canon for bool {
    fn canon(&self) -> Sx {
        tagged("bool", vec![boolean(*self)])
    }
}
impl Canon for AtomicBool {
    fn canon(&self) -> Sx {
        tagged("bool", vec![boolean(self.load(Ordering::SeqCst))])
    }
}
impl Canon for char {
    fn canon(&self) -> Sx {
        tagged("char", vec![nat(*self as u128)])
    }
}
impl Canon for String {
    fn canon(&self) -> Sx {
        tagged("str", vec![st(self.clone())])
    }
}
impl Canon for std::path::PathBuf {
    fn canon(&self) -> Sx {
        tagged("str", vec![st(self.to_string_lossy().to_string())])
    }
}
macro_rules! canon_int {
    ($($t:ty),*) => {$(
        impl Canon for $t { fn canon(&self) -> Sx { tagged("int", vec![int(*self as i128)]) } }
    )*};
}
canon_int!(u8, u16, u32, u64, i8, i16, i32, i64, i128, isize);
impl Canon for u128 {
    fn canon(&self) -> Sx {
        tagged("int", vec![atom(self.to_string())])
    }
}
macro_rules! canon_nz {
    ($($t:ty),*) => {$(
        impl Canon for $t { fn canon(&self) -> Sx { self.get().canon() } }
    )*};
}
canon_nz!(
    std::num::NonZeroU8, std::num::NonZeroU16, std::num::NonZeroU32, std::num::NonZeroU64, std::num::NonZeroU128,
    std::num::NonZeroUsize, std::num::NonZeroI8, std::num::NonZeroI16, std::num::NonZeroI32, std::num::NonZeroI64,
    std::num::NonZeroI128, std::num::NonZeroIsize
);
impl Canon for f64 {
    fn canon(&self) -> Sx {
        tagged("float", vec![nat(self.to_bits() as u128)])
    }
}
impl Canon for f32 {
    fn canon(&self) -> Sx {
        tagged("float", vec![nat(self.to_bits() as u128)])
    }
}
impl<T: Canon> Canon for Option<T> {
    fn canon(&self) -> Sx {
        match self {
            Some(v) => tagged("some", vec![v.canon()]),
            None => none(),
        }
    }
}
impl<T: Canon> Canon for Box<T> {
    fn canon(&self) -> Sx {
        tagged("ptr", vec![(**self).canon()])
    }
}
impl<T: Canon> Canon for Rc<T> {
    fn canon(&self) -> Sx {
        tagged("ptr", vec![(**self).canon()])
    }
}
impl<T: Canon> Canon for Arc<T> {
    fn canon(&self) -> Sx {
        tagged("ptr", vec![(**self).canon()])
    }
}
impl<T: Canon> Canon for RefCell<T> {
    fn canon(&self) -> Sx {
        tagged("ptr", vec![self.borrow().canon()])
    }
}
impl<T: Canon> Canon for darling_core::Result<T> {
    fn canon(&self) -> Sx {
        match self {
            Ok(v) => tagged("okv", vec![v.canon()]),
            Err(e) => tagged("errv", vec![obs_err(e)]),
        }
    }
}
impl<T: Canon> Canon for Result<T, syn::Meta> {
    fn canon(&self) -> Sx {
        match self {
            Ok(v) => tagged("okm", vec![v.canon()]),
            Err(m) => tagged("errm", vec![st(toks(m))]),
        }
    }
}
impl<T: Canon> Canon for Override<T> {
    fn canon(&self) -> Sx {
        match self {
            Override::Inherit => atom("inherit"),
            Override::Explicit(v) => tagged("explicit", vec![v.canon()]),
        }
    }
}
impl<T: Canon> Canon for SpannedValue<T> {
    fn canon(&self) -> Sx {
        tagged("spanned", vec![(**self).canon(), span_sx(Some(self.span()))])
    }
}
impl<T: Canon> Canon for WithOriginal<T, syn::Meta> {
    fn canon(&self) -> Sx {
        tagged("withorig", vec![self.parsed.canon(), st(toks(&self.original))])
    }
}
impl Canon for Flag {
    fn canon(&self) -> Sx {
        if self.is_present() {
            tagged("flag", vec![span_sx(Some(self.span()))])
        } else {
            tagged("flag", vec![none()])
        }
    }
}
impl<T: Canon> Canon for Vec<T> {
    fn canon(&self) -> Sx {
        tagged("list", self.iter().map(|v| v.canon()).collect())
    }
}

pub fn answer<T: Canon>(r: std::thread::Result<darling_core::Result<T>>) -> String {
    match r {
        Ok(Ok(v)) => tagged("ok", vec![v.canon()]).render(),
        Ok(Err(e)) => tagged("err", vec![obs_err(&e)]).render(),
        Err(_) => "(panic)".to_string(),
    }
}

macro_rules! canon_toks {
    ($($t:ty),* $(,)?) => {$(
        impl Canon for $t { fn canon(&self) -> Sx { tagged("toks", vec![st(toks(self))]) } }
    )*};
}
canon_toks!(
    syn::Expr, syn::Path, syn::ExprArray, syn::ExprPath, syn::ExprRange, syn::Type, syn::TypeArray, syn::TypeBareFn,
    syn::TypeGroup, syn::TypeImplTrait, syn::TypeInfer, syn::TypeMacro, syn::TypeNever, syn::TypeParam, syn::TypeParen,
    syn::TypePath, syn::TypePtr, syn::TypeReference, syn::TypeSlice, syn::TypeTraitObject, syn::TypeTuple,
    syn::Visibility, syn::WhereClause, syn::Lit, syn::LitInt, syn::LitFloat, syn::LitStr, syn::LitByte, syn::LitByteStr,
    syn::LitChar, syn::LitBool, proc_macro2::Literal, syn::Meta, darling::util::Callable,
    syn::punctuated::Punctuated<syn::Path, syn::Token![,]>,
);
impl Canon for syn::Ident {
    fn canon(&self) -> Sx {
        tagged("toks", vec![st(self.to_string())])
    }
}
impl Canon for darling::util::IdentString {
    fn canon(&self) -> Sx {
        tagged("toks", vec![st(self.as_str().to_string())])
    }
}
impl Canon for Vec<syn::WherePredicate> {
    fn canon(&self) -> Sx {
        tagged("toks", vec![st(where_preds_toks(self))])
    }
}
pub fn where_preds_toks(ps: &[syn::WherePredicate]) -> String {
    ps.iter().map(|p| toks(p)).collect::<Vec<_>>().join(" , ")
}
impl Canon for darling::util::PathList {
    fn canon(&self) -> Sx {
        tagged("list", self.iter().map(|p| tagged("toks", vec![st(toks(p))])).collect())
    }
}
impl Canon for darling::util::Ignored {
    fn canon(&self) -> Sx {
        atom("unit")
    }
}
impl Canon for ident_case::RenameRule {
    fn canon(&self) -> Sx {
        use ident_case::RenameRule::*;
        let n = match self {
            None => "none",
            LowerCase => "lowercase",
            PascalCase => "PascalCase",
            CamelCase => "camelCase",
            SnakeCase => "snake_case",
            ScreamingSnakeCase => "SCREAMING_SNAKE_CASE",
            KebabCase => "kebab-case",
        };
        tagged("str", vec![st(n)])
    }
}
fn map_rows<'a, V: Canon + 'a>(it: impl Iterator<Item = (String, &'a V)>) -> Sx {
    let mut rows: Vec<(String, Sx)> = it.map(|(k, v)| (k, v.canon())).collect();
    rows.sort_by(|a, b| a.0.cmp(&b.0));
    tagged("map", rows.into_iter().map(|(k, v)| list(vec![st(k), v])).collect())
}
impl<V: Canon> Canon for std::collections::HashMap<String, V> {
    fn canon(&self) -> Sx {
        map_rows(self.iter().map(|(k, v)| (k.clone(), v)))
    }
}
impl<V: Canon> Canon for std::collections::BTreeMap<String, V> {
    fn canon(&self) -> Sx {
        map_rows(self.iter().map(|(k, v)| (k.clone(), v)))
    }
}
impl<V: Canon> Canon for std::collections::HashMap<syn::Ident, V> {
    fn canon(&self) -> Sx {
        map_rows(self.iter().map(|(k, v)| (k.to_string(), v)))
    }
}
impl<V: Canon> Canon for std::collections::BTreeMap<syn::Ident, V> {
    fn canon(&self) -> Sx {
        map_rows(self.iter().map(|(k, v)| (k.to_string(), v)))
    }
}
impl<V: Canon> Canon for std::collections::HashMap<syn::Path, V> {
    fn canon(&self) -> Sx {
        map_rows(self.iter().map(|(k, v)| (toks(k), v)))
    }
}

impl Canon for syn::Generics {
    fn canon(&self) -> Sx {
        tagged("toks", vec![st(format!("{} | {}", toks(self), self.where_clause.as_ref().map(toks).unwrap_or_default()))])
    }
}
impl Canon for syn::Attribute {
    fn canon(&self) -> Sx {
        tagged("toks", vec![st(toks(self))])
    }
}
impl Canon for syn::TypeParamBound {
    fn canon(&self) -> Sx {
        tagged("toks", vec![st(toks(self))])
    }
}
impl Canon for usize {
    fn canon(&self) -> Sx {
        tagged("int", vec![nat(*self as u128)])
    }
}
fn style_name(s: darling::ast::Style) -> &'static str {
    match s {
        darling::ast::Style::Struct => "named",
        darling::ast::Style::Tuple => "tuple",
        darling::ast::Style::Unit => "unit",
    }
}
impl<F: Canon> Canon for darling::ast::Fields<F> {
    fn canon(&self) -> Sx {
        tagged("rec", vec![st(style_name(self.style)), list(vec![st("entries"), tagged("list", self.fields.iter().map(|f| f.canon()).collect())])])
    }
}
impl<V: Canon, F: Canon> Canon for darling::ast::Data<V, F> {
    fn canon(&self) -> Sx {
        match self {
            darling::ast::Data::Struct(f) => tagged("variant", vec![st("Data"), st("Struct"), f.canon()]),
            darling::ast::Data::Enum(vs) => tagged("variant", vec![st("Data"), st("Enum"), tagged("list", vs.iter().map(|v| v.canon()).collect())]),
        }
    }
}

impl Canon for syn::GenericParam {
    fn canon(&self) -> Sx {
        tagged("toks", vec![st(toks(self))])
    }
}
impl<T: Canon> Canon for darling::ast::GenericParam<T> {
    fn canon(&self) -> Sx {
        match self {
            darling::ast::GenericParam::Type(t) => tagged("variant", vec![st("GenericParam"), st("Type"), t.canon()]),
            darling::ast::GenericParam::Lifetime(l) => tagged("variant", vec![st("GenericParam"), st("Lifetime"), tagged("toks", vec![st(toks(l))])]),
            darling::ast::GenericParam::Const(c) => tagged("variant", vec![st("GenericParam"), st("Const"), tagged("toks", vec![st(toks(c))])]),
        }
    }
}
impl<P: Canon> Canon for darling::ast::Generics<P> {
    fn canon(&self) -> Sx {
        tagged(
            "rec",
            vec![
                st("Generics"),
                list(vec![st("params"), tagged("list", self.params.iter().map(|p| p.canon()).collect())]),
                list(vec![st("where_clause"), match &self.where_clause {
                    Some(w) => tagged("some", vec![tagged("toks", vec![st(toks(w))])]),
                    None => atom("none"),
                }]),
            ],
        )
    }
}

macro_rules! canon_withorig {
    ($($o:ty),*) => {$(
        impl<T: Canon> Canon for WithOriginal<T, $o> {
            fn canon(&self) -> Sx {
                tagged("withorig", vec![self.parsed.canon(), st(toks(&self.original))])
            }
        }
    )*};
}
canon_withorig!(syn::Field, syn::Variant, syn::Generics, syn::TypeParam);
impl Canon for syn::Field {
    fn canon(&self) -> Sx {
        tagged("toks", vec![st(toks(self))])
    }
}
impl Canon for syn::Variant {
    fn canon(&self) -> Sx {
        tagged("toks", vec![st(toks(self))])
    }
}
