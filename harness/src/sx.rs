//! S-expression builder; quoting identical to `Sexp.quote` in /verif/lean/Darling/Sexp.lean.
use std::fmt::Write;

#[derive(Clone, Debug, PartialEq)]
pub enum Sx {
    Atom(String),
    Str(String),
    List(Vec<Sx>),
}

pub fn atom<S: Into<String>>(s: S) -> Sx {
    Sx::Atom(s.into())
}
pub fn st<S: Into<String>>(s: S) -> Sx {
    Sx::Str(s.into())
}
pub fn nat(n: u128) -> Sx {
    Sx::Atom(n.to_string())
}
pub fn int(n: i128) -> Sx {
    Sx::Atom(n.to_string())
}
pub fn boolean(b: bool) -> Sx {
    Sx::Atom(if b { "true" } else { "false" }.into())
}
pub fn list(xs: Vec<Sx>) -> Sx {
    Sx::List(xs)
}
pub fn tagged(t: &str, mut xs: Vec<Sx>) -> Sx {
    let mut v = vec![atom(t)];
    v.append(&mut xs);
    Sx::List(v)
}
pub fn none() -> Sx {
    atom("none")
}

pub fn quote(s: &str) -> String {
    let mut o = String::with_capacity(s.len() + 2);
    o.push('"');
    for c in s.chars() {
        match c {
            '\\' => o.push_str("\\\\"),
            '"' => o.push_str("\\\""),
            '\n' => o.push_str("\\n"),
            '\t' => o.push_str("\\t"),
            '\r' => o.push_str("\\r"),
            c if (c as u32) < 32 || (c as u32) >= 127 => {
                write!(o, "\\u{{{:x}}}", c as u32).unwrap();
            }
            c => o.push(c),
        }
    }
    o.push('"');
    o
}

impl Sx {
    pub fn render_into(&self, o: &mut String) {
        match self {
            Sx::Atom(s) => o.push_str(s),
            Sx::Str(s) => o.push_str(&quote(s)),
            Sx::List(xs) => {
                o.push('(');
                for (i, x) in xs.iter().enumerate() {
                    if i > 0 {
                        o.push(' ');
                    }
                    x.render_into(o);
                }
                o.push(')');
            }
        }
    }
    pub fn render(&self) -> String {
        let mut o = String::new();
        self.render_into(&mut o);
        o
    }
}
