//! C19: usage analysis on a grammar of types; impl bounds read off `darling_core::derive::*` output.
use crate::rng::Rng;
use crate::sx::*;
use crate::Out;
use darling_core::usage::{IdentSet, LifetimeSet, Purpose, UsesLifetimes, UsesTypeParams};
use syn::Type;

fn opt_ty(t: Option<&Type>) -> Sx {
    t.map(ty).unwrap_or_else(none)
}

fn bound(b: &syn::TypeParamBound) -> Sx {
    match b {
        syn::TypeParamBound::Trait(t) => {
            let binder: Vec<Sx> = t
                .lifetimes
                .as_ref()
                .map(|bl| {
                    bl.lifetimes
                        .iter()
                        .filter_map(|gp| match gp {
                            syn::GenericParam::Lifetime(lp) => Some(tagged(
                                "lt",
                                vec![st(lp.lifetime.to_string()), list(lp.bounds.iter().map(|b| st(b.to_string())).collect())],
                            )),
                            _ => None,
                        })
                        .collect()
                })
                .unwrap_or_default();
            tagged("trait", vec![list(binder), path(&t.path)])
        }
        syn::TypeParamBound::Lifetime(l) => tagged("lt", vec![st(l.to_string())]),
        _ => atom("unsupported-bound"),
    }
}

fn garg(a: &syn::GenericArgument) -> Sx {
    match a {
        syn::GenericArgument::Type(t) => tagged("ty", vec![ty(t)]),
        syn::GenericArgument::AssocType(a) => tagged("assoc", vec![ty(&a.ty)]),
        syn::GenericArgument::Constraint(c) => tagged("constraint", c.bounds.iter().map(bound).collect()),
        syn::GenericArgument::Lifetime(l) => tagged("lt", vec![st(l.to_string())]),
        _ => atom("other"),
    }
}

fn args(a: &syn::PathArguments) -> Sx {
    match a {
        syn::PathArguments::None => none(),
        syn::PathArguments::AngleBracketed(ab) => tagged("angle", ab.args.iter().map(garg).collect()),
        syn::PathArguments::Parenthesized(p) => {
            let out = match &p.output {
                syn::ReturnType::Default => none(),
                syn::ReturnType::Type(_, t) => ty(t),
            };
            tagged("paren", vec![list(p.inputs.iter().map(ty).collect()), out])
        }
    }
}

pub fn path(p: &syn::Path) -> Sx {
    let mut v = vec![boolean(p.leading_colon.is_some())];
    for s in &p.segments {
        v.push(tagged("seg", vec![st(s.ident.to_string()), args(&s.arguments)]));
    }
    tagged("p", v)
}

/// mirror of `syn::Type` for the model (own traversal, independent of darling's)
pub fn ty(t: &Type) -> Sx {
    match t {
        Type::Path(p) => tagged("tpath", vec![opt_ty(p.qself.as_ref().map(|q| &*q.ty)), path(&p.path)]),
        Type::Reference(r) => tagged(
            "tref",
            vec![r.lifetime.as_ref().map(|l| st(l.to_string())).unwrap_or_else(none), ty(&r.elem)],
        ),
        Type::Ptr(p) => tagged("tptr", vec![ty(&p.elem)]),
        Type::Slice(s) => tagged("tslice", vec![ty(&s.elem)]),
        Type::Array(a) => tagged("tarray", vec![ty(&a.elem)]),
        Type::Tuple(tp) => tagged("ttuple", tp.elems.iter().map(ty).collect()),
        Type::BareFn(f) => {
            let out = match &f.output {
                syn::ReturnType::Default => none(),
                syn::ReturnType::Type(_, t) => ty(t),
            };
            tagged("tfn", vec![list(f.inputs.iter().map(|a| ty(&a.ty)).collect()), out])
        }
        Type::Paren(p) => tagged("tparen", vec![ty(&p.elem)]),
        Type::Group(g) => tagged("tgroup", vec![ty(&g.elem)]),
        Type::TraitObject(o) => tagged("tobj", o.bounds.iter().map(bound).collect()),
        Type::ImplTrait(o) => tagged("timpl", o.bounds.iter().map(bound).collect()),
        Type::Macro(_) | Type::Verbatim(_) | Type::Infer(_) | Type::Never(_) => atom("opaque"),
        _ => atom("unsupported-type"),
    }
}

const PARAMS: &[&str] = &["T", "U", "V", "A", "X", "u8", "String", "Self", "r#T", "r#V"];
const LTS: &[&str] = &["'a", "'b", "'c", "'static", "'_"];

pub fn gen_type(r: &mut Rng, depth: usize) -> String {
    if depth == 0 || r.chance(1, 4) {
        return match r.below(10) {
            0 => format!("::{}", r.pick(PARAMS)),
            1 => format!("a::{}", r.pick(PARAMS)),
            2 => format!("{}::Assoc", r.pick(PARAMS)),
            3 => "_".into(),
            4 => "!".into(),
            5 => format!("m!({})", r.pick(PARAMS)),
            _ => (*r.pick(PARAMS)).to_string(),
        };
    }
    let d = depth - 1;
    match r.below(27) {
        // a qualified path without `as Trait`
        24 => format!("<{}>::Out", gen_type(r, d)),
        25 => format!("<Bar<{}, {}>>::Item<{}>", r.pick(LTS), gen_type(r, d), r.pick(LTS)),
        26 => format!("{}::Assoc<{}>", r.pick(PARAMS), gen_type(r, d)),
        0 => format!("Vec<{}>", gen_type(r, d)),
        1 => format!("HashMap<{}, {}>", gen_type(r, d), gen_type(r, d)),
        2 => format!("&{} {}", r.pick(LTS), gen_type(r, d)),
        3 => format!("&mut [{}]", gen_type(r, d)),
        4 => format!("[{}; 4]", gen_type(r, d)),
        5 => format!("[u8; {}::LEN]", r.pick(PARAMS)),
        6 => format!("({}, {})", gen_type(r, d), gen_type(r, d)),
        7 => format!("({},)", gen_type(r, d)),
        8 => format!("*const {}", gen_type(r, d)),
        9 => format!("fn({}) -> {}", gen_type(r, d), gen_type(r, d)),
        10 => format!("Box<dyn Fn({}) -> {}>", gen_type(r, d), gen_type(r, d)),
        11 => format!("Box<dyn Iterator<Item = {}> + {}>", gen_type(r, d), r.pick(LTS)),
        12 => format!("impl Iterator<Item = {}>", gen_type(r, d)),
        13 => format!("<{} as Tr>::Out", gen_type(r, d)),
        14 => format!("<{} as Tr<{}>>::Out", gen_type(r, d), gen_type(r, d)),
        15 => format!("({})", gen_type(r, d)),
        16 => format!("Cow<{}, {}>", r.pick(LTS), gen_type(r, d)),
        17 => format!("Arr<{}, 3>", gen_type(r, d)),
        18 => format!("Arr<{{ {}::N }}>", r.pick(PARAMS)),
        19 => format!("for<'x> fn(&'x {})", gen_type(r, d)),
        20 => format!("Box<dyn for<'x: {}> Fn(&'x {}) + Send>", r.pick(&["'a", "'b"]), gen_type(r, d)),
        21 => format!("It<Item: Into<{}> + {}>", gen_type(r, d), r.pick(LTS)),
        22 => format!("a::B<{}>::C<{}>", gen_type(r, d), gen_type(r, d)),
        _ => format!("::std::Option<{}>", gen_type(r, d)),
    }
}

fn sorted(mut v: Vec<String>) -> Sx {
    v.sort();
    v.dedup();
    list(v.into_iter().map(st).collect())
}

pub fn run_a(seed: u64, n: usize, out: &mut Out) {
    let base = Rng::new(seed ^ 0xC19);
    let mut id = 0usize;
    let mut skipped = 0u64;
    for i in 0..n {
        let mut r = base.fork(i as u64);
        let depth = r.range(0, 5);
        let src = gen_type(&mut r, depth);
        let t: Type = match syn::parse_str(&src) {
            Ok(t) => t,
            Err(_) => {
                skipped += 1;
                continue;
            }
        };
        let tsx = ty(&t);
        // query sets: any subset of the planted names (and names that never occur)
        let mut set_names: Vec<&str> = vec![];
        for p in ["T", "U", "V", "A", "Z", "Out", "Item", "Assoc", "Vec", "a", "r#U", "r#X"] {
            if r.chance(1, 2) {
                set_names.push(p);
            }
        }
        let mut lt_names: Vec<&str> = vec![];
        for l in ["'a", "'b", "'c", "'z"] {
            if r.chance(1, 2) {
                lt_names.push(l);
            }
        }
        let iset: IdentSet = set_names
            .iter()
            .map(|s| match s.strip_prefix("r#") {
                Some(raw) => syn::Ident::new_raw(raw, proc_macro2::Span::call_site()),
                None => syn::Ident::new(s, proc_macro2::Span::call_site()),
            })
            .collect();
        let lset: LifetimeSet = lt_names.iter().map(|s| syn::Lifetime::new(s, proc_macro2::Span::call_site())).collect();
        for (declare, purpose) in [(false, Purpose::BoundImpl), (true, Purpose::Declare)] {
            let res = std::panic::catch_unwind(|| {
                let tp: Vec<String> = t.uses_type_params_cloned(&purpose.into(), &iset).iter().map(|i| i.to_string()).collect();
                let lt: Vec<String> = t.uses_lifetimes_cloned(&purpose.into(), &lset).iter().map(|l| l.to_string()).collect();
                (tp, lt)
            });
            let ans = match res {
                Ok((tp, lt)) => {
                    if !tp.is_empty() || !lt.is_empty() {
                        out.stat("answers_non_empty", 1);
                    }
                    tagged("uses", vec![sorted(tp), sorted(lt)]).render()
                }
                Err(_) => "(panic)".to_string(),
            };
            let case = tagged(
                "c19a",
                vec![
                    boolean(declare),
                    list(set_names.iter().map(|s| st(*s)).collect()),
                    list(lt_names.iter().map(|s| st(*s)).collect()),
                    tsx.clone(),
                ],
            );
            out.case("c19", id, &case, &ans);
            id += 1;
        }
        out.stat(&format!("depth_{}", depth), 1);
    }
    out.stat("generator_types_not_parseable", skipped);
}

// ---------------------------------------------------------------- bounds

fn has_skip(attrs: &[syn::Attribute]) -> bool {
    for it in crate::recv::darling_items(attrs) {
        if let darling_core::ast::NestedMeta::Meta(m) = it {
            if m.path().is_ident("skip") {
                return match &m {
                    syn::Meta::Path(_) => true,
                    syn::Meta::NameValue(nv) => matches!(&nv.value, syn::Expr::Lit(syn::ExprLit { lit: syn::Lit::Bool(b), .. }) if b.value),
                    _ => false,
                };
            }
        }
    }
    false
}

/// the type parameters of the emitted impl that carry `bound` as their last bound
fn bounded_in_impl(tokens: proc_macro2::TokenStream, trait_bound: &str) -> Result<(Vec<String>, String, String), String> {
    let file: syn::File = syn::parse2(tokens).map_err(|e| format!("emitted tokens do not parse: {}", e))?;
    for item in file.items {
        if let syn::Item::Impl(imp) = item {
            let mut out = vec![];
            for p in imp.generics.type_params() {
                if p.bounds.iter().any(|b| crate::ser::toks(b).replace(' ', "") == trait_bound) {
                    out.push(p.ident.to_string());
                }
            }
            let wc = imp.generics.where_clause.as_ref().map(crate::ser::toks).unwrap_or_default();
            let params: Vec<String> = imp
                .generics
                .params
                .iter()
                .map(|p| match p {
                    syn::GenericParam::Type(t) => t.ident.to_string(),
                    syn::GenericParam::Lifetime(l) => l.lifetime.to_string(),
                    syn::GenericParam::Const(c) => c.ident.to_string(),
                })
                .collect();
            return Ok((out, wc, params.join(",")));
        }
    }
    Err("no impl block in the emitted tokens".into())
}

pub fn run_b(seed: u64, n: usize, out: &mut Out) {
    let base = Rng::new(seed ^ 0xC19B);
    let mut id = 0usize;
    for i in 0..n {
        let mut r = base.fork(i as u64);
        let is_enum = r.chance(1, 3);
        let nparams = r.range(1, 3);
        let params: Vec<&str> = ["T", "U", "V"][..nparams].to_vec();
        let with_lt = r.chance(1, 3);
        let with_const = r.chance(1, 4);
        let mut gen_list: Vec<String> = vec![];
        if with_lt {
            gen_list.push("'a".into());
        }
        for p in &params {
            gen_list.push(if r.chance(1, 4) { format!("{}: Clone", p) } else { (*p).to_string() });
        }
        if with_const {
            gen_list.push("const N: usize".into());
        }
        let where_clause = if r.chance(1, 3) { format!(" where {}: Default", params[0]) } else { String::new() };
        // at most one `flatten` field per declaration (more is a derive-time error); a flatten field is
        // parsed, so its type counts for the bounds
        let flat_at = if r.chance(1, 3) { Some(r.below(3)) } else { None };
        let field = |r: &mut Rng, k: usize| -> String {
            let t = gen_type(r, 2);
            let skip = if flat_at == Some(k) {
                "#[darling(flatten)] "
            } else {
                match r.below(5) {
                    0 => "#[darling(skip)] ",
                    1 => "#[darling(skip = true)] ",
                    2 => "#[darling(skip = false)] ",
                    _ => "",
                }
            };
            format!("{}f{}: {}", skip, k, t)
        };
        let src = if is_enum {
            let nv = r.range(1, 3);
            let mut vs = vec![];
            for v in 0..nv {
                let skip = if r.chance(1, 4) { "#[darling(skip)] " } else { "" };
                match r.below(3) {
                    0 => vs.push(format!("{}V{}", skip, v)),
                    1 => vs.push(format!("{}V{}({})", skip, v, gen_type(&mut r, 2))),
                    _ => vs.push(format!("{}V{} {{ {} }}", skip, v, (0..r.range(1, 2)).map(|k| field(&mut r, k)).collect::<Vec<_>>().join(", "))),
                }
            }
            format!("enum R<{}>{} {{ {} }}", gen_list.join(", "), where_clause, vs.join(", "))
        } else {
            let nf = r.range(0, 4);
            format!(
                "struct R<{}>{} {{ {} }}",
                gen_list.join(", "),
                where_clause,
                (0..nf).map(|k| field(&mut r, k)).collect::<Vec<_>>().join(", ")
            )
        };
        let di: syn::DeriveInput = match syn::parse_str(&src) {
            Ok(d) => d,
            Err(_) => {
                out.stat("generator_decls_not_parseable", 1);
                continue;
            }
        };
        let declared: Vec<Sx> = di.generics.type_params().map(|p| st(p.ident.to_string())).collect();
        let fsx = |f: &syn::Field| tagged("field", vec![ty(&f.ty), boolean(has_skip(&f.attrs))]);
        let case = match &di.data {
            syn::Data::Struct(s) => tagged("c19b", vec![list(declared.clone()), list(s.fields.iter().map(fsx).collect())]),
            syn::Data::Enum(e) => tagged(
                "c19b-enum",
                vec![
                    list(declared.clone()),
                    list(
                        e.variants
                            .iter()
                            .map(|v| tagged("variant", vec![boolean(has_skip(&v.attrs)), list(v.fields.iter().map(fsx).collect())]))
                            .collect(),
                    ),
                ],
            ),
            _ => continue,
        };
        // FromMeta handles structs and enums; the element-level derives only structs
        let mut derives: Vec<(&str, fn(&syn::DeriveInput) -> proc_macro2::TokenStream, &str)> =
            vec![("FromMeta", darling_core::derive::from_meta, "::darling::FromMeta")];
        if !is_enum {
            derives.push(("FromDeriveInput", darling_core::derive::from_derive_input, "::darling::FromMeta"));
            derives.push(("FromField", darling_core::derive::from_field, "::darling::FromMeta"));
            derives.push(("FromVariant", darling_core::derive::from_variant, "::darling::FromMeta"));
            derives.push(("FromTypeParam", darling_core::derive::from_type_param, "::darling::FromMeta"));
        }
        for (name, f, tb) in derives {
            let toks = std::panic::catch_unwind(|| f(&di));
            let ans = match toks {
                Err(_) => "(panic)".to_string(),
                Ok(t) => match bounded_in_impl(t, tb) {
                    Ok((b, wc, params)) => {
                        // generics repeated unchanged: same parameter list, same where-clause
                        let orig_params: Vec<String> = di
                            .generics
                            .params
                            .iter()
                            .map(|p| match p {
                                syn::GenericParam::Type(t) => t.ident.to_string(),
                                syn::GenericParam::Lifetime(l) => l.lifetime.to_string(),
                                syn::GenericParam::Const(c) => c.ident.to_string(),
                            })
                            .collect();
                        let orig_wc = di.generics.where_clause.as_ref().map(crate::ser::toks).unwrap_or_default();
                        if params != orig_params.join(",") || wc != orig_wc {
                            format!("(generics-changed {} {})", crate::sx::quote(&params), crate::sx::quote(&wc))
                        } else {
                            if !b.is_empty() {
                                out.stat("impls_with_added_bounds", 1);
                            }
                            tagged("bounded", b.into_iter().map(st).collect()).render()
                        }
                    }
                    Err(e) => format!("(no-impl {})", crate::sx::quote(&e)),
                },
            };
            out.stat(&format!("derive_{}", name), 1);
            out.case("c19", id, &case, &ans);
            id += 1;
        }
    }
}
