//! C10 / C06: derive-time behaviour through `darling_core::derive::*` (no compilation).
use crate::props::recvfm::decl_oracle_rows;
use crate::rng::Rng;
use crate::ser;
use crate::sx::*;
use crate::Out;
use proc_macro2::{TokenStream, TokenTree};
use std::panic::catch_unwind;

pub const DERIVES: &[(&str, fn(&syn::DeriveInput) -> TokenStream)] = &[
    ("FromMeta", darling_core::derive::from_meta),
    ("FromDeriveInput", darling_core::derive::from_derive_input),
    ("FromField", darling_core::derive::from_field),
    ("FromVariant", darling_core::derive::from_variant),
    ("FromTypeParam", darling_core::derive::from_type_param),
    ("FromAttributes", darling_core::derive::from_attributes),
];

/// what a derive returned: `(impl)` for exactly one impl block of the trait, or the
/// `compile_error!` rows (message, span), or a description of anything else
pub fn observe(name: &str, toks: TokenStream) -> String {
    if let Ok(file) = syn::parse2::<syn::File>(toks.clone()) {
        let impls: Vec<&syn::ItemImpl> = file.items.iter().filter_map(|i| if let syn::Item::Impl(im) = i { Some(im) } else { None }).collect();
        let macros: Vec<&syn::ItemMacro> = file.items.iter().filter_map(|i| if let syn::Item::Macro(m) = i { Some(m) } else { None }).collect();
        if impls.len() == 1 && macros.is_empty() && file.items.len() == 1 {
            let tr = impls[0].trait_.as_ref().map(|t| ser::toks(&t.1).replace(' ', "")).unwrap_or_default();
            return if tr == format!("::darling::{}", name) { "(impl)".to_string() } else { format!("(impl-of {})", quote(&tr)) };
        }
        if impls.is_empty() && !macros.is_empty() && macros.len() == file.items.len() {
            let mut rows = vec![];
            for m in macros {
                let is_ce = ser::toks(&m.mac.path).replace(' ', "").ends_with("compile_error");
                if !is_ce {
                    return format!("(other-macro {})", quote(&ser::toks(&m.mac.path)));
                }
                let mut msg = String::new();
                let mut span = None;
                for t in m.mac.tokens.clone() {
                    if let TokenTree::Literal(l) = t {
                        if let Ok(syn::Lit::Str(s)) = syn::parse_str::<syn::Lit>(&l.to_string()) {
                            msg = s.value();
                        }
                        span = Some(l.span());
                    }
                }
                rows.push(tagged("s", vec![st(msg), crate::canon::span_sx(span)]));
            }
            return tagged("errors", rows).render();
        }
        if file.items.is_empty() {
            return "(nothing)".to_string();
        }
        return "(mixed-impl-and-errors)".to_string();
    }
    "(unparseable-output)".to_string()
}

pub fn case_for(name: &str, f: fn(&syn::DeriveInput) -> TokenStream, di: &syn::DeriveInput) -> (Sx, String) {
    let ans = match catch_unwind(|| f(di)) {
        Ok(t) => observe(name, t),
        Err(_) => "(panic)".to_string(),
    };
    let mut orc = decl_oracle_rows(di);
    // scores of unknown option names against the one candidate `ForwardedField` knows
    for a in all_attrs(di) {
        for it in crate::recv::darling_items(std::slice::from_ref(a)) {
            if let darling_core::ast::NestedMeta::Meta(m) = it {
                let n = darling_core::util::path_to_string(m.path());
                orc.push(tagged("sim", vec![st(n.clone()), st("with"), nat(strsim::jaro_winkler(&n, "with").to_bits() as u128)]));
            }
        }
    }
    let mut o = vec![atom("oracle")];
    o.extend(orc);
    (tagged("derive", vec![atom(name), ser::derive_input(di), Sx::List(o)]), ans)
}

fn all_attrs(di: &syn::DeriveInput) -> Vec<&syn::Attribute> {
    let mut v: Vec<&syn::Attribute> = di.attrs.iter().collect();
    match &di.data {
        syn::Data::Struct(s) => s.fields.iter().for_each(|f| v.extend(f.attrs.iter())),
        syn::Data::Enum(e) => e.variants.iter().for_each(|x| {
            v.extend(x.attrs.iter());
            x.fields.iter().for_each(|f| v.extend(f.attrs.iter()));
        }),
        syn::Data::Union(u) => u.fields.named.iter().for_each(|f| v.extend(f.attrs.iter())),
    }
    v
}

pub const FIELD_OPTS: &[&str] = &[
    "rename = \"x\"", "default", "default = \"fns::d\"", "with = fns::w", "skip", "skip = true", "skip = false",
    "map = \"fns::m\"", "and_then = fns::a", "multiple", "multiple = false", "flatten",
];
pub const FIELD_BAD: &[&str] = &[
    "foo", "rename", "rename = 5", "flatten = true", "skip = \"maybe\"", "\"lit\"", "with = \"fns::w\"", "default(x)", "flaten",
    "multiple = 1", "map = 5", "rename(x)", "5",
    // option names that are paths: `::`-rooted and multi-segment spellings of real options
    "::skip", "::map = \"fns::m\"", "::and_then = fns::a", "darling::rename = \"x\"", "::flatten", "a::multiple", "::default", "::with = fns::w",
];
const CONTAINER_OPTS: &[&str] = &[
    "default", "default = \"fns::d\"", "rename_all = \"camelCase\"", "rename_all = \"snake_case\"", "map = \"fns::m\"", "and_then = \"fns::a\"",
    "allow_unknown_fields", "allow_unknown_fields = false", "bound = \"T: Clone\"", "attributes(a)", "attributes(a, b::c)", "forward_attrs",
    "forward_attrs(doc, cfg)", "forward_attrs()", "from_ident", "supports(struct_named)", "supports(enum_unit, struct_any)", "supports(any)",
    "from_word = fns::fw", "from_none = fns::fnone", "from_word = || Ok(Self::default())",
];
const CONTAINER_BAD: &[&str] = &[
    "foo", "rename_all = \"Title Case\"", "rename_all", "default(x)", "supports(struct_struct_named)", "supports(struct_named::x)",
    "supports(strukt_named)", "supports(\"lit\")", "attributes(\"x\")", "attributes = 1", "forward_attrs = 1", "\"lit\"", "map", "bound = 5",
    "supports(enum_bogus)", "supports", "allow_unknown_fields = 2", "default = 5", "supports(named)", "supports(a::any)",
    "::map = \"fns::m\"", "::and_then = fns::a", "darling::map = \"fns::m\"", "::default", "::rename_all = \"camelCase\"", "::attributes(a)",
    "::supports(any)", "::from_word = fns::fw", "::allow_unknown_fields", "::bound = \"T: Clone\"", "::forward_attrs", "::from_ident",
    // a bad shape word after / between good ones (order matters to a parser that stops early)
    "supports(any, struct_nmaed)", "supports(struct_nmaed, any)", "supports(enum_unit, any, everything)", "supports(any, \"lit\")",
    "supports(any, any::x)", "supports(struct_any, bogus, enum_any)",
];
const VARIANT_OPTS: &[&str] = &["rename = \"v\"", "skip", "skip = false", "word", "word = true", "word = false"];
const VARIANT_BAD: &[&str] = &["foo", "rename", "skip = 1", "\"lit\"", "default", "::skip", "::word", "a::rename = \"v\"", "::rename = \"v\""];
const MALFORMED_ATTRS: &[&str] = &[
    "#[darling]", "#[darling = \"x\"]", "#[darling(\"lit\")]", "#[darling(foo bar)]", "#[darling(,)]", "#[darling{skip}]", "#[darling[skip]]",
    "#[darling(skip,)]", "#[darling()]", "#[darling(=)]", "#[darling(a = )]", "#[darling(::skip)]", "#[darling(skip = true = false)]", "#[darling(5)]",
];

/// every syntactic form of a field type the type walks of code generation have to cross
const FIELD_TYPES: &[&str] = &[
    "Buffer<16>", "Option<Vec<Buffer<{ 4 * 4 }>>>", "Buffer<N>", "[u8; 16]", "[T; N]", "[T]", "&'a T", "&'static mut Vec<T>", "*const T", "*mut u8",
    "(T, u8)", "()", "(T,)", "fn(T) -> U", "for<'x> fn(&'x T) -> &'x U", "unsafe extern \"C\" fn(u8, ...)", "Box<dyn Fn(T) -> U + Send + 'a>",
    "dyn Iterator<Item = T>", "impl Iterator<Item = T>", "<T as Iterator>::Item", "<Vec<T>>::Output", "::std::vec::Vec<T>", "T::Assoc", "!", "_",
    "m!(T)", "(T)", "std::collections::HashMap<String, Vec<T>>", "Foo<'a, T, 3, { N + 1 }, Item = U>", "Foo<T: Clone>", "Option<fn() -> T>", "[[T; 2]; 3]",
    "Self", "crate::x::Y<T>", "Cow<'a, str>", "PhantomData<T>", "Wrapper<-1>", "Wrapper<true>", "Wrapper<'x'>", "Wrapper<\"s\">",
];

fn attr_lines(r: &mut Rng, opts: &[String]) -> String {
    if opts.is_empty() {
        return String::new();
    }
    // any split of the options over one or more attributes, order kept
    let mut out = String::new();
    let mut cur: Vec<&String> = vec![];
    for o in opts {
        cur.push(o);
        if r.chance(1, 3) {
            out.push_str(&format!("#[darling({})] ", cur.iter().map(|s| s.as_str()).collect::<Vec<_>>().join(", ")));
            cur.clear();
        }
    }
    if !cur.is_empty() {
        out.push_str(&format!("#[darling({})] ", cur.iter().map(|s| s.as_str()).collect::<Vec<_>>().join(", ")));
    }
    out
}

/// C10: exhaustive ordered pairs (and, in the thorough tier, triples) of field options in every
/// attribute split, for each derive
pub fn run_c10(seed: u64, n: usize, out: &mut Out) {
    let mut id = 0usize;
    let triples = n >= 200_000;
    let mut emit = |out: &mut Out, src: &str, id: &mut usize| {
        if let Ok(di) = syn::parse_str::<syn::DeriveInput>(src) {
            for (name, f) in DERIVES {
                let (case, ans) = case_for(name, *f, &di);
                out.stat(if ans == "(impl)" { "accepted" } else if ans.starts_with("(errors") { "rejected" } else if ans == "(panic)" { "panicked" } else { "other" }, 1);
                out.case_id("recv", &format!("d-{}", *id), &case, &ans);
                *id += 1;
            }
        } else {
            out.stat("generator_decls_not_parseable", 1);
        }
    };
    let ty = |opts: &[&str]| if opts.iter().any(|o| o.starts_with("multiple")) { "Vec<u8>" } else { "u8" };
    for a in FIELD_OPTS {
        emit(out, &format!("struct R {{ #[darling({})] f: {}, g: String }}", a, ty(&[a])), &mut id);
        for b in FIELD_OPTS {
            for split in 0..2 {
                let attrs = if split == 0 { format!("#[darling({}, {})]", a, b) } else { format!("#[darling({})] #[darling({})]", a, b) };
                emit(out, &format!("struct R {{ {} f: {}, g: String }}", attrs, ty(&[a, b])), &mut id);
            }
            if triples {
                for c in FIELD_OPTS {
                    for split in 0..4 {
                        let attrs = match split {
                            0 => format!("#[darling({}, {}, {})]", a, b, c),
                            1 => format!("#[darling({})] #[darling({}, {})]", a, b, c),
                            2 => format!("#[darling({}, {})] #[darling({})]", a, b, c),
                            _ => format!("#[darling({})] #[darling({})] #[darling({})]", a, b, c),
                        };
                        emit(out, &format!("struct R {{ {} f: {}, g: String }}", attrs, ty(&[a, b, c])), &mut id);
                    }
                }
            }
        }
    }
    // every ordered pair of variant options on one variant, next to a `word` variant / a container from_word
    for a in VARIANT_OPTS {
        for b in VARIANT_OPTS {
            for split in 0..2 {
                let attrs = if split == 0 { format!("#[darling({}, {})]", a, b) } else { format!("#[darling({})] #[darling({})]", a, b) };
                emit(out, &format!("enum E {{ {} A, #[darling(word)] B, C }}", attrs), &mut id);
                emit(out, &format!("#[darling(from_word = fns::fw)] enum E {{ {} A, B }}", attrs), &mut id);
            }
        }
        emit(out, &format!("enum E {{ #[darling({})] A, B }}", a), &mut id);
    }
    // two fields both flatten; word rules; from_word rules; attrs without forward_attrs; bodies
    for src in [
        "struct R { #[darling(flatten)] a: A, #[darling(flatten)] b: B }",
        "struct R { #[darling(flatten)] a: A, b: B, #[darling(flatten)] c: C, #[darling(flatten)] d: D }",
        // the one-flatten rule holds for every field list: the fields of a struct variant too
        "enum E { A, V { #[darling(flatten)] a: A, #[darling(flatten)] b: B, c: u8 } }",
        "enum E { V { #[darling(flatten)] a: A }, W { #[darling(flatten)] b: B, #[darling(flatten)] c: C, #[darling(flatten)] d: D } }",
        "enum E { V { #[darling(flatten)] a: A }, W { #[darling(flatten)] b: B } }",
        "enum E { #[darling(skip)] V { #[darling(flatten)] a: A, #[darling(flatten)] b: B } , W }",
        "enum E { #[darling(word)] A, #[darling(word)] B, C }",
        "enum E { #[darling(word)] A, B(u8), #[darling(word)] C { x: u8 } }",
        "enum E { #[darling(word)] A(u8) }",
        "#[darling(from_word = fns::fw)] enum E { #[darling(word)] A, B }",
        "#[darling(from_word = fns::fw)] struct R;",
        "#[darling(from_word = fns::fw)] struct R(u8);",
        "#[darling(from_word = fns::fw)] struct R { a: u8 }",
        "struct R { attrs: Vec<syn::Attribute>, a: u8 }",
        "#[darling(forward_attrs)] struct R { attrs: Vec<syn::Attribute>, a: u8 }",
        "#[darling(forward_attrs())] struct R { attrs: Vec<syn::Attribute>, a: u8 }",
        "#[darling(attributes(a))] struct R { a: u8 }",
        "struct R { a: u8 }",
        "struct R(u8, u8);",
        "struct R(u8);",
        "struct R;",
        "struct R();",
        "enum E { A(u8, u8) }",
        "enum E { A, B(u8), C { x: u8 } }",
        "enum E {}",
        "union U { a: u8, b: u16 }",
        "#[darling(attributes(a))] enum E {}",
        "#[darling(attributes(a))] enum E { A }",
        "#[darling(attributes(a))] struct R(u8, u16);",
        "#[darling(attributes(a))] struct R(u8);",
        "#[darling(attributes(a), supports(struct_struct_named))] struct R { a: u8 }",
        "#[darling(attributes(a), supports(struct_named::x))] struct R { a: u8 }",
        "#[darling(attributes(a), supports(enum_enum_unit, any))] struct R { a: u8 }",
        "#[darling(attributes(a), supports(any, struct_nmaed))] struct R { a: u8 }",
        "#[darling(attributes(a), supports(struct_nmaed, any))] struct R { a: u8 }",
        "#[darling(attributes(a), supports(enum_unit, any, everything))] struct R { a: u8 }",
        "#[darling(attributes(a), supports(any, \"lit\"))] struct R { a: u8 }",
        "#[darling(attributes(a), supports(unit, bogus, named))] struct R { a: u8 }",
        "#[darling(attributes(a), supports(any, unit::x))] struct R { a: u8 }",
        "#[darling(::map = \"fns::m\")] struct R { a: u8 }",
        "#[darling(::and_then = fns::a)] enum E { A, B }",
        "struct R { #[darling(::map = \"fns::m\")] a: u8 }",
        "struct R { #[darling(::skip)] a: u8 }",
        "enum E { #[darling(::skip)] A, B }",
        "enum E { A, #[darling(skip = false)] Pair(u8, u8) }",
        "enum E { A, #[darling(skip)] Pair(u8, u8) }",
        "enum E { A, #[darling(skip = true)] Zero() }",
        "struct R { #[darling(skip, flatten)] a: A, b: u8 }",
        "struct R { #[darling(skip = true)] #[darling(flatten)] a: A, b: u8 }",
        "struct R { #[darling(flatten, skip = false)] a: A, b: u8 }",
        "enum E { #[darling(word)] B {} }",
        "enum E { #[darling(word)] A() }",
        "enum E { #[darling(word)] A, B {} , C() }",
        "#[darling(attributes(a))] struct R { #[darling(with = fns::w)] attrs: Vec<syn::Attribute>, #[darling(with = \"fns::w2\")] data: X }",
        "#[darling(attributes(a), forward_attrs)] struct R { #[darling(wiht = fns::w)] attrs: Vec<syn::Attribute> }",
        "#[darling(attributes(a), forward_attrs)] struct R { #[darling(with = fns::w, with = fns::w)] attrs: Vec<syn::Attribute> }",
        "#[darling(attributes(a))] struct R { ident: syn::Ident, vis: syn::Visibility, generics: syn::Generics, data: D, ty: syn::Type, discriminant: X, fields: F, bounds: B, default: Dd }",
    ] {
        emit(out, src, &mut id);
    }
    // every unordered pair of container options in both orders and both attribute splits, on a struct
    // and on an enum body: the members of a group `o-<pair>_<body>_<derive>-<k>` differ in order and
    // split only, so the derive must accept all of them or none (judged on the implementation's
    // answers by the check, besides the comparison of every member with the model)
    let mut pair = 0usize;
    for (i, a) in CONTAINER_OPTS.iter().enumerate() {
        for b in CONTAINER_OPTS.iter().skip(i + 1) {
            for (bi, body) in ["struct R { f: u8, g: String }", "enum E { A, B(u8) }", "struct R { ident: syn::Ident, f: u8 }"].iter().enumerate() {
                let variants = [
                    format!("#[darling({}, {})] {}", a, b, body),
                    format!("#[darling({}, {})] {}", b, a, body),
                    format!("#[darling({})] #[darling({})] {}", a, b, body),
                    format!("#[darling({})] #[darling({})] {}", b, a, body),
                ];
                for (k, src) in variants.iter().enumerate() {
                    if let Ok(di) = syn::parse_str::<syn::DeriveInput>(src) {
                        for (name, f) in DERIVES {
                            let (case, ans) = case_for(name, *f, &di);
                            out.stat(if ans == "(impl)" { "accepted" } else if ans.starts_with("(errors") { "rejected" } else if ans == "(panic)" { "panicked" } else { "other" }, 1);
                            out.stat("container_pair_order_members", 1);
                            out.case_id("recv", &format!("o-{}_{}_{}-{}", pair, bi, name, k), &case, &ans);
                        }
                    }
                }
            }
            pair += 1;
        }
    }
    let _ = seed;
}

/// C06: random declarations over every data shape with options in any order / split, malformed
/// attribute bodies, unknown and conflicting options, on container, variant and field positions
pub fn run_c06(seed: u64, n: usize, out: &mut Out) {
    let base = Rng::new(seed ^ 0xC06);
    let mut id = 0usize;
    // corpus of minimised past failures and known-finding witnesses: runs first, on every run
    for src in [
        "#[darling(rename_all = \"camelCase\")] enum R { Émile }",
        "#[darling(rename_all = \"camelCase\")] struct R { __: u8 }",
        "#[darling(rename_all = \"camelCase\")] struct R { é1: u8 }",
        "#[darling] struct R { x: u8 }",
        "#[darling = \"x\"] struct R { x: u8 }",
        "#[darling(\"lit\")] struct R { x: u8 }",
        "#[darling(foo bar)] struct R { x: u8 }",
        "struct R { #[darling(foo bar)] x: u8 }",
        "struct R { #[darling] x: u8 }",
        "enum R { #[darling(skip skip)] A }",
        "struct R(u8, u8);",
        "struct R();",
        "enum R { B(u8, u8) }",
        "enum R { B() }",
        "enum R {}",
        "#[darling(supports(struct_struct_named))] struct R { x: u8 }",
        "#[darling(forward_attrs())] struct R { attrs: Vec<syn::Attribute> }",
    ] {
        let di = syn::parse_str::<syn::DeriveInput>(src).expect("corpus declaration parses");
        for (name, f) in DERIVES {
            let (case, ans) = case_for(name, *f, &di);
            out.stat(if ans == "(impl)" { "accepted" } else if ans.starts_with("(errors") { "rejected" } else if ans == "(panic)" { "panicked" } else { "other" }, 1);
            out.case_id("recv", &format!("corpus-{}", id), &case, &ans);
            id += 1;
        }
    }
    for i in 0..n {
        let mut r = base.fork(i as u64);
        let pick_opts = |r: &mut Rng, good: &[&str], bad: &[&str], max: usize| -> Vec<String> {
            let k = r.below(max + 1);
            (0..k).map(|_| if r.chance(1, 5) { (*r.pick(bad)).to_string() } else { (*r.pick(good)).to_string() }).collect()
        };
        let maybe_malformed = |r: &mut Rng| -> String { if r.chance(1, 12) { format!("{} ", r.pick(MALFORMED_ATTRS)) } else { String::new() } };
        let field = |r: &mut Rng, k: usize, named: bool| -> String {
            let opts = pick_opts(r, FIELD_OPTS, FIELD_BAD, 3);
            let magic = ["ident", "attrs", "vis", "data", "generics", "ty", "discriminant", "fields", "bounds", "default"];
            let name = if named {
                if r.chance(1, 8) {
                    (*r.pick(&magic)).to_string()
                } else if r.chance(1, 40) {
                    // identifiers on which ident_case's byte slicing is fragile
                    if k == 0 && r.chance(1, 2) { "__".to_string() } else { format!("{}{}", r.pick(&["__", "_a", "a__b", "é"]), k) }
                } else {
                    format!("f{}", k)
                }
            } else {
                String::new()
            };
            let ty = if r.chance(3, 4) { *r.pick(&["u8", "String", "Vec<u8>", "Option<String>", "T", "Inner"]) } else { *r.pick(FIELD_TYPES) };
            let doc = if r.chance(1, 10) { "#[doc = \"x\"] " } else { "" };
            format!("{}{}{}{}{}{}", doc, maybe_malformed(r), attr_lines(r, &opts), if named { &name } else { "" }, if named { ": " } else { "" }, ty)
        };
        let copts = pick_opts(&mut r, CONTAINER_OPTS, CONTAINER_BAD, 4);
        let generics = if r.chance(1, 4) { "<T>" } else { "" };
        let head = format!("{}{}", maybe_malformed(&mut r), attr_lines(&mut r, &copts));
        let src = match r.below(9) {
            0 => format!("{}struct R{};", head, generics),
            1 => format!("{}struct R{}({});", head, generics, field(&mut r, 0, false)),
            2 => format!("{}struct R{}({}, {});", head, generics, field(&mut r, 0, false), field(&mut r, 1, false)),
            3 | 4 | 5 => {
                let nf = r.below(5);
                format!("{}struct R{} {{ {} }}", head, generics, (0..nf).map(|k| field(&mut r, k, true)).collect::<Vec<_>>().join(", "))
            }
            6 | 7 => {
                let nv = r.below(5);
                let vs: Vec<String> = (0..nv)
                    .map(|k| {
                        let vopts = pick_opts(&mut r, VARIANT_OPTS, VARIANT_BAD, 2);
                        let body = match r.below(6) {
                            0 => String::new(),
                            4 => "()".to_string(),
                            5 => " {}".to_string(),
                            1 => format!("({})", field(&mut r, 0, false)),
                            2 => format!("({}, {})", field(&mut r, 0, false), field(&mut r, 1, false)),
                            _ => format!(" {{ {} }}", (0..r.range(1, 2)).map(|j| field(&mut r, j, true)).collect::<Vec<_>>().join(", ")),
                        };
                        let vname = if r.chance(1, 40) { "Émile" } else { "V" };
                        format!("{}{}{}{}{}", maybe_malformed(&mut r), attr_lines(&mut r, &vopts), vname, k, body)
                    })
                    .collect();
                format!("{}enum R{} {{ {} }}", head, generics, vs.join(", "))
            }
            _ => format!("{}union R{} {{ {} }}", head, generics, (0..r.range(1, 2)).map(|k| field(&mut r, k, true)).collect::<Vec<_>>().join(", ")),
        };
        let di = match syn::parse_str::<syn::DeriveInput>(&src) {
            Ok(d) => d,
            Err(_) => {
                out.stat("generator_decls_not_parseable", 1);
                continue;
            }
        };
        for (name, f) in DERIVES {
            let (case, ans) = case_for(name, *f, &di);
            out.stat(if ans == "(impl)" { "accepted" } else if ans.starts_with("(errors") { "rejected" } else if ans == "(panic)" { "panicked" } else { "other" }, 1);
            out.case_id("recv", &format!("k-{}", id), &case, &ans);
            id += 1;
        }
    }
}
