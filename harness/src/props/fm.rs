//! Streams through the FromMeta family: c11 (scalars), c12 (wrappers), c15b (hook routing).
use crate::rng::Rng;
use crate::ser;
use crate::sx::*;
use crate::types::*;
use crate::Out;
use syn::visit::Visit;
use syn::Meta;

/// oracle rows for the external parsers, for every string / float literal occurring in `m`
struct LitCollector {
    strs: Vec<String>,
    floats: Vec<String>,
}
impl<'ast> Visit<'ast> for LitCollector {
    fn visit_lit(&mut self, l: &'ast syn::Lit) {
        match l {
            syn::Lit::Str(s) => self.strs.push(s.value()),
            syn::Lit::Float(f) => self.floats.push(f.base10_digits().to_string()),
            // a float target reads an integer literal's digits through the float parser as well
            syn::Lit::Int(i) => self.floats.push(i.base10_digits().to_string()),
            _ => {}
        }
    }
}

pub fn collect_lits(m: &Meta) -> (Vec<String>, Vec<String>) {
    let mut c = LitCollector { strs: vec![], floats: vec![] };
    c.visit_meta(m);
    if let Meta::List(l) = m {
        // literals inside the (unparsed) token stream of a list
        if let Ok(items) = darling_core::ast::NestedMeta::parse_meta_list(l.tokens.clone()) {
            for it in &items {
                match it {
                    darling_core::ast::NestedMeta::Meta(inner) => {
                        let (s, f) = collect_lits(inner);
                        c.strs.extend(s);
                        c.floats.extend(f);
                    }
                    darling_core::ast::NestedMeta::Lit(l) => c.visit_lit(l),
                }
            }
        }
    }
    (c.strs, c.floats)
}

/// verdict of an external (syn) grammar parser on a string, as printed tokens
pub fn parse_kind(kind: &str, s: &str) -> Option<String> {
    use crate::ser::toks;
    macro_rules! p {
        ($t:ty) => {
            syn::parse_str::<$t>(s).ok().map(|v| toks(&v))
        };
    }
    match kind {
        "Expr" => p!(syn::Expr),
        "Path" => p!(syn::Path),
        "Ident" => syn::parse_str::<syn::Ident>(s).ok().map(|v| v.to_string()),
        "ExprArray" => p!(syn::ExprArray),
        "ExprPath" => p!(syn::ExprPath),
        "ExprRange" => p!(syn::ExprRange),
        "Type" => p!(syn::Type),
        "TypeArray" => p!(syn::TypeArray),
        "TypeBareFn" => p!(syn::TypeBareFn),
        "TypeGroup" => p!(syn::TypeGroup),
        "TypeImplTrait" => p!(syn::TypeImplTrait),
        "TypeInfer" => p!(syn::TypeInfer),
        "TypeMacro" => p!(syn::TypeMacro),
        "TypeNever" => p!(syn::TypeNever),
        "TypeParam" => p!(syn::TypeParam),
        "TypeParen" => p!(syn::TypeParen),
        "TypePath" => p!(syn::TypePath),
        "TypePtr" => p!(syn::TypePtr),
        "TypeReference" => p!(syn::TypeReference),
        "TypeSlice" => p!(syn::TypeSlice),
        "TypeTraitObject" => p!(syn::TypeTraitObject),
        "TypeTuple" => p!(syn::TypeTuple),
        "Visibility" => p!(syn::Visibility),
        "WhereClause" => p!(syn::WhereClause),
        "WherePreds" => syn::parse_str::<syn::WhereClause>(s)
            .ok()
            .map(|c| crate::vals::where_preds_toks(&c.predicates.into_iter().collect::<Vec<_>>())),
        "PunctPathComma" => {
            use syn::parse::Parser;
            syn::punctuated::Punctuated::<syn::Path, syn::Token![,]>::parse_terminated
                .parse_str(s)
                .ok()
                .map(|v| toks(&v))
        }
        _ => None,
    }
}

struct StrLitCollector {
    lits: Vec<syn::LitStr>,
}
impl<'ast> Visit<'ast> for StrLitCollector {
    fn visit_lit_str(&mut self, l: &'ast syn::LitStr) {
        self.lits.push(l.clone());
    }
}

fn collect_str_lits(m: &Meta, out: &mut Vec<syn::LitStr>) {
    let mut c = StrLitCollector { lits: vec![] };
    c.visit_meta(m);
    out.extend(c.lits);
    if let Meta::List(l) = m {
        if let Ok(items) = darling_core::ast::NestedMeta::parse_meta_list(l.tokens.clone()) {
            for it in &items {
                match it {
                    darling_core::ast::NestedMeta::Meta(inner) => collect_str_lits(inner, out),
                    darling_core::ast::NestedMeta::Lit(syn::Lit::Str(s)) => out.push(s.clone()),
                    _ => {}
                }
            }
        }
    }
}

pub fn oracle_with(m: &Meta, kinds: &[&'static str]) -> Sx {
    let mut rows = match oracle_for(m) {
        Sx::List(mut v) => {
            v.remove(0);
            v
        }
        _ => vec![],
    };
    if !kinds.is_empty() {
        let mut lits = vec![];
        collect_str_lits(m, &mut lits);
        let mut seen = std::collections::HashSet::new();
        for l in &lits {
            let s = l.value();
            if !seen.insert(s.clone()) {
                continue;
            }
            for k in kinds {
                match *k {
                    "Arr" => {
                        let r = l.parse::<syn::ExprArray>().ok().map(|a| ser::expr(&syn::Expr::Array(a))).unwrap_or_else(none);
                        rows.push(tagged("arr", vec![st(s.clone()), r]));
                    }
                    "WherePreds" => {
                        let input = format!("where {}", s);
                        let r = parse_kind(k, &input).map(st).unwrap_or_else(none);
                        rows.push(tagged("syn", vec![st(*k), st(input), r]));
                    }
                    _ => {
                        let r = parse_kind(k, &s).map(st).unwrap_or_else(none);
                        rows.push(tagged("syn", vec![st(*k), st(s.clone()), r]));
                    }
                }
            }
        }
    }
    tagged("oracle", rows)
}

pub fn oracle_for(m: &Meta) -> Sx {
    let (strs, floats) = collect_lits(m);
    let mut rows = vec![];
    let mut all: Vec<String> = strs;
    all.extend(floats);
    all.sort();
    all.dedup();
    for s in &all {
        let f64r = s.parse::<f64>().ok().map(|v| nat(v.to_bits() as u128)).unwrap_or_else(none);
        let f32r = s.parse::<f32>().ok().map(|v| nat(v.to_bits() as u128)).unwrap_or_else(none);
        rows.push(tagged("f", vec![nat(64), st(s.clone()), f64r]));
        rows.push(tagged("f", vec![nat(32), st(s.clone()), f32r]));
    }
    tagged("oracle", rows)
}

pub fn meta_case(te: &TyEntry, m: &Meta) -> (Sx, String) {
    let case = tagged("fm", vec![te.ty.clone(), tagged("meta", vec![ser::meta(m)]), oracle_with(m, &te.kinds)]);
    (case, (te.meta)(m))
}

pub fn none_case(te: &TyEntry) -> (Sx, String) {
    let case = tagged("fm", vec![te.ty.clone(), tagged("none", vec![]), tagged("oracle", vec![])]);
    (case, (te.none)())
}

pub fn parse_meta_pub(src: &str) -> Option<Meta> {
    parse_meta(src)
}

/// a case for the `recv` driver: `(recv "Name" (meta M) oracle)`
pub fn meta_case_with(te: &TyEntry, m: &Meta, _driver: &str, extra_oracle: Vec<Sx>) -> (Sx, String) {
    let name = match &te.ty {
        Sx::List(v) => v[1].clone(),
        x => x.clone(),
    };
    let mut orc = match oracle_with(m, &te.kinds) {
        Sx::List(v) => v,
        _ => vec![atom("oracle")],
    };
    orc.extend(extra_oracle);
    let case = tagged("recv", vec![name, tagged("meta", vec![ser::meta(m)]), Sx::List(orc)]);
    (case, (te.meta)(m))
}

fn parse_meta(src: &str) -> Option<Meta> {
    syn::parse_str::<Meta>(src).ok()
}

// ---------------------------------------------------------------- C11

struct IntInfo {
    signed: bool,
    bits: u32,
}

fn info(name: &str) -> IntInfo {
    let lower = name.to_lowercase();
    let signed = lower.contains('i') && !lower.contains("u") || lower.starts_with('i') || lower.starts_with("nonzeroi");
    let bits = if lower.ends_with("size") { usize::BITS } else {
        lower.trim_start_matches("nonzero").trim_start_matches(|c| c == 'u' || c == 'i').parse().unwrap()
    };
    IntInfo { signed, bits }
}

/// decimal string of 2^k as big number (k <= 129)
fn pow2(k: u32) -> String {
    let mut digits = vec![1u8];
    for _ in 0..k {
        let mut carry = 0;
        for d in digits.iter_mut() {
            let x = *d * 2 + carry;
            *d = x % 10;
            carry = x / 10;
        }
        if carry > 0 {
            digits.push(carry);
        }
    }
    digits.iter().rev().map(|d| (b'0' + d) as char).collect()
}

fn dec_add(s: &str, delta: i32) -> String {
    // s is a non-negative decimal; returns s + delta (may be negative ⇒ leading '-')
    let v: Vec<i32> = s.bytes().rev().map(|b| (b - b'0') as i32).collect();
    let mut v = v;
    v.push(0);
    v[0] += delta;
    for i in 0..v.len() - 1 {
        while v[i] < 0 {
            v[i] += 10;
            v[i + 1] -= 1;
        }
        while v[i] > 9 {
            v[i] -= 10;
            v[i + 1] += 1;
        }
    }
    if *v.last().unwrap() < 0 {
        // tiny values only: fall back to i128
        let n: i128 = s.parse::<i128>().unwrap() + delta as i128;
        return n.to_string();
    }
    let mut out: String = v.iter().rev().map(|d| (b'0' + *d as u8) as char).collect();
    while out.len() > 1 && out.starts_with('0') {
        out.remove(0);
    }
    out
}

fn boundary_values(name: &str) -> Vec<String> {
    let i = info(name);
    let mut v = vec![];
    let hi_plus1 = if i.signed { pow2(i.bits - 1) } else { pow2(i.bits) };
    for d in -3..=2 {
        v.push(dec_add(&hi_plus1, d));
    }
    for d in -2..=3 {
        let lo = if i.signed { pow2(i.bits - 1) } else { "0".to_string() };
        // lo + d, negated for signed
        let mag = dec_add(&lo, -d);
        if i.signed {
            if mag.starts_with('-') {
                v.push(mag[1..].to_string());
            } else {
                v.push(format!("-{}", mag));
            }
        } else {
            v.push(dec_add("0", d));
        }
    }
    for s in ["0", "-0", "1", "-1", "2", "-2", "255", "256", "65535", "65536"] {
        v.push(s.to_string());
    }
    v
}

fn to_radix(mut n: u128, radix: u32, r: &mut Rng) -> String {
    let mut ds = vec![];
    if n == 0 {
        ds.push('0');
    }
    while n > 0 {
        ds.push(std::char::from_digit((n % radix as u128) as u32, radix).unwrap());
        n /= radix as u128;
    }
    let mut s = String::new();
    for (k, c) in ds.iter().rev().enumerate() {
        if k > 0 && r.chance(1, 6) {
            s.push('_');
        }
        s.push(*c);
    }
    s
}

const SUFFIXES: &[&str] = &["", "", "", "u8", "i8", "u16", "i32", "u64", "i128", "usize"];

/// unquoted spellings of a decimal value (value may be wider than u128 ⇒ decimal only)
fn unquoted_spellings(dec: &str, r: &mut Rng) -> Vec<String> {
    let (neg, mag) = if let Some(m) = dec.strip_prefix('-') { (true, m) } else { (false, dec) };
    let mut out = vec![format!("{}{}", if neg { "-" } else { "" }, mag)];
    if let Ok(n) = mag.parse::<u128>() {
        let sign = if neg { "-" } else { "" };
        out.push(format!("{}0x{}{}", sign, to_radix(n, 16, r), r.pick(&["", "", "u8", "i64"])));
        out.push(format!("{}0b{}", sign, to_radix(n, 2, r)));
        out.push(format!("{}0o{}", sign, to_radix(n, 8, r)));
        out.push(format!("{}{}{}", sign, to_radix(n, 10, r), r.pick(SUFFIXES)));
    }
    out
}

fn quoted_spellings(dec: &str, r: &mut Rng) -> Vec<String> {
    let mut out = vec![dec.to_string()];
    match r.below(8) {
        0 => out.push(format!("+{}", dec.trim_start_matches('-'))),
        1 => out.push(format!(" {}", dec)),
        2 => out.push(format!("{} ", dec)),
        3 => out.push(format!("00{}", dec.trim_start_matches('-'))),
        4 => out.push(format!("{}_0", dec)),
        5 => out.push(format!("0x{}", dec.trim_start_matches('-'))),
        6 => out.push(format!("{}u8", dec)),
        _ => out.push(format!("-{}", dec)),
    }
    out
}

fn random_dec(r: &mut Rng) -> String {
    let len = match r.below(10) {
        0..=4 => r.range(1, 5),
        5..=7 => r.range(6, 20),
        8 => r.range(21, 39),
        _ => r.range(40, 45),
    };
    let mut s = String::new();
    if r.chance(1, 3) {
        s.push('-');
    }
    for k in 0..len {
        let d = if k == 0 { r.range(1, 9) } else { r.below(10) };
        s.push((b'0' + d as u8) as char);
    }
    s
}

pub fn run_c11(seed: u64, n: usize, out: &mut Out, exhaustive: Option<i64>) {
    let base = Rng::new(seed ^ 0xC11);
    let ints = int_types();
    let scalars = scalar_types();
    direct_cases(out, &scalars, "c11");
    let id = std::cell::Cell::new(0usize);
    let skipped = std::cell::Cell::new(0u64);
    let emit = |out: &mut Out, te: &TyEntry, src: &str| {
        match parse_meta(src) {
            Some(m) => {
                let (case, ans) = meta_case(te, &m);
                let key = if ans.starts_with("(ok") { "answers_ok" } else if ans.starts_with("(err") { "answers_err" } else { "answers_panic" };
                out.stat(key, 1);
                out.case_id("fm", &format!("c11-{}", id.get()), &case, &ans);
                id.set(id.get() + 1);
            }
            None => skipped.set(skipped.get() + 1),
        }
    };
    // 1. boundaries: every integer target, every boundary ± 2, every spelling, both forms
    let mut r = base.fork(1);
    for te in &ints {
        let name = match &te.ty { Sx::List(v) => match &v[1] { Sx::Str(s) => s.clone(), _ => unreachable!() }, _ => unreachable!() };
        for dec in boundary_values(&name) {
            for sp in unquoted_spellings(&dec, &mut r) {
                emit(out, te, &format!("x = {}", sp));
            }
            for sp in quoted_spellings(&dec, &mut r) {
                emit(out, te, &format!("x = \"{}\"", sp));
            }
        }
    }
    // 1b. sign forms of the quoted spelling: accepted exactly when `str::parse` accepts the string as it stands
    for te in &ints {
        for q in ["++5", "+-5", "-+5", "--5", "+", "-", "+ 5", "+-128", "+0", "-0", "+00", "+-0", "++0", "+5+", "5-"] {
            emit(out, te, &format!("x = \"{}\"", q));
        }
    }
    // 1c. the value inside one, two and three invisible groups (an `$e:expr` fragment forwarded through
    //     nested macros): groups are transparent at any depth
    for te in ints.iter().chain(scalars.iter()) {
        for src in ["x = 5", "x = \"5\"", "x = 300", "x = true", "x = 'c'", "x = 1.5", "x = \"s\"", "x = 0", "x = foo"] {
            if let Some(m) = parse_meta(src) {
                for depth in 1..=3 {
                    let g = group_value(&m, depth);
                    let (case, ans) = meta_case(te, &g);
                    out.stat("grouped_values", 1);
                    out.case_id("fm", &format!("c11-{}", id.get()), &case, &ans);
                    id.set(id.get() + 1);
                }
            }
        }
    }
    // 2. exhaustive small range (thorough) — plain decimal, quoted and unquoted
    if let Some(bound) = exhaustive {
        for te in &ints {
            for v in -bound..=bound {
                emit(out, te, &format!("x = {}", v));
                emit(out, te, &format!("x = \"{}\"", v));
            }
        }
        out.stat("exhaustive_range_bound", bound as u64);
    }
    // 3. random digit strings, all targets
    for i in 0..n {
        let mut r = base.fork(100 + i as u64);
        let te = r.pick(&ints).clone();
        let dec = random_dec(&mut r);
        if r.chance(1, 2) {
            let sps = unquoted_spellings(&dec, &mut r);
            let sp = r.pick(&sps).clone();
            emit(out, &te, &format!("x = {}", sp));
        } else {
            let sps = quoted_spellings(&dec, &mut r);
            let sp = r.pick(&sps).clone();
            emit(out, &te, &format!("x = \"{}\"", sp));
        }
    }
    // 4. every scalar target × every literal kind / meta form
    const FORMS: &[&str] = &[
        "x", "x = true", "x = false", "x = \"true\"", "x = \"false\"", "x = \"True\"", "x = \"\"", "x = 'c'", "x = \"c\"",
        "x = \"cc\"", "x = \"é\"", "x = 'é'", "x = \"hello world\"", "x = r#\"raw \"q\"\"#", "x = 5", "x = \"5\"", "x = 0",
        "x = \"0\"", "x = 1.5", "x = \"1.5\"", "x = 2.", "x = 1e3", "x = \"1e3\"", "x = 1.4e10", "x = \"inf\"", "x = \"NaN\"",
        "x = \"-0.0\"", "x = 1e999", "x = \"1e-999\"", "x = 3f32", "x = \".5\"", "x = \"5.\"", "x = \"+1.5\"", "x = \"1_0.0\"",
        "x = b\"bytes\"", "x = b'b'", "x = c\"cstr\"", "x()", "x(a)", "x(a = 1, b)", "x(\"lit\")", "x(a b)", "x = a::b", "x = foo",
        "x = 1 + 2", "x = [1, 2]", "x = -5", "x = \"-5\"", "x = -1.5", "x = (5)", "x = \"a/b.txt\"", "x = 0.1", "x = \"0.1\"",
        "x = 16777217.0", "x = \"16777217\"", "x = 9007199254740993.0", "x = \"  1\"",
        // a suffix that disagrees with the target type: only the digits count
        "x = 0.1f32", "x = 0.1f64", "x = 16777217.0f32", "x = 1e39f32", "x = 1e39f64", "x = 3.0e-46f32", "x = 0.30000000000000004f32",
        "x = 5u8", "x = 300u8", "x = 5i64", "x = -5i8", "x = 1_000usize", "x = 0x10u16", "x = 7f32", "x = 7f64",
    ];
    for te in &scalars {
        for f in FORMS {
            emit(out, te, f);
        }
        let (case, ans) = none_case(te);
        out.case_id("fm", &format!("c11-{}", id.get()), &case, &ans);
        id.set(id.get() + 1);
    }
    // 5. floats: decimals next to the midpoint of two adjacent f32 values (where rounding twice,
    //    or through a wider type, differs from `str::parse::<f32>`), and of two adjacent f64 values
    let f32e = scalars.iter().find(|t| t.ty.render() == "(float 32)").unwrap().clone();
    let f64e = scalars.iter().find(|t| t.ty.render() == "(float 64)").unwrap().clone();
    for i in 0..(n / 8).max(50) {
        let mut r = base.fork(900_000 + i as u64);
        let exp = r.range(100, 160) as u32; // moderate magnitudes: exact decimal expansions stay short
        let bits = (exp << 23) | (r.next() as u32 & 0x7f_ffff);
        let a = f32::from_bits(bits);
        let b = f32::from_bits(bits + 1);
        let mid = (a as f64 + b as f64) / 2.0;
        let exact = format!("{:.80}", mid);
        let exact = exact.trim_end_matches('0').to_string();
        let exact = if exact.ends_with('.') { format!("{}0", exact) } else { exact };
        let above = format!("{}0000000001", exact);
        for sp in [exact.clone(), above.clone()] {
            for te in [&f32e, &f64e] {
                emit(out, te, &format!("x = \"{}\"", sp));
                emit(out, te, &format!("x = {}", sp));
                emit(out, te, &format!("x = {}f32", sp));
                emit(out, te, &format!("x = {}f64", sp));
            }
        }
        out.stat("float_midpoint_probes", 1);
    }
    out.stat("generator_inputs_not_parseable_as_meta", skipped.get());
    out.stat("usize_bits", usize::BITS as u64);
}

// ---------------------------------------------------------------- C12

pub const LITS: &[&str] = &[
    "true", "false", "\"true\"", "\"5\"", "5", "300", "-5", "\"-5\"", "'c'", "\"c\"", "\"hello\"", "1.5", "\"1.5\"", "b\"x\"",
    "b'x'", "0x10", "1_000", "5u8", "\"\"", "\"a::b\"", "\"foo\"", "9223372036854775808", "\"x y\"",
];
pub const EXPRS: &[&str] = &["a::b", "foo", "1 + 2", "[1, 2]", "f(x)", "|a| a", "..", "(1)", "&x", "::std::x", "a::b::<u8>", "if a { b } else { c }"];
pub const LIST_BODIES: &[&str] = &[
    "", "a", "a, b", "a = 1", "a = 1, b = \"s\"", "\"lit\"", "a b", ",", "a(b(c))", "a, a", "1, 2", "a = ", "true", "x = true, y",
];

pub fn random_meta_src(r: &mut Rng) -> String {
    match r.below(10) {
        0 | 1 => "x".to_string(),
        2 | 3 | 4 => format!("x = {}", r.pick(LITS)),
        5 | 6 => format!("x = {}", r.pick(EXPRS)),
        _ => format!("x({})", r.pick(LIST_BODIES)),
    }
}

/// every given type × the individual trait methods called directly (the routes `flatten`,
/// `multiple` and hand-written code take around `from_meta`)
pub fn direct_cases(out: &mut Out, types: &[TyEntry], prefix: &str) {
    let mut id = 0usize;

        use crate::types::Direct;
        let lists: Vec<Vec<NestedMeta>> = ["", "a", "a = 1, b", "\"lit\"", "5", "a(b)", "true", "a = \"s\", a = \"t\""]
            .iter()
            .filter_map(|b| NestedMeta::parse_meta_list(b.parse().ok()?).ok())
            .collect();
        // (entry, call, a meta item carrying the same literals: source of the oracle rows)
        let word_meta = parse_meta("x").unwrap();
        let mut directs: Vec<(Sx, Direct, Meta)> = vec![(tagged("word", vec![]), Direct::Word, word_meta.clone())];
        for (b, l) in ["", "a", "a = 1, b", "\"lit\"", "5", "a(b)", "true", "a = \"s\", a = \"t\""].iter().zip(lists.iter()) {
            let m = parse_meta(&format!("x({})", b)).unwrap_or(word_meta.clone());
            directs.push((tagged("list", l.iter().map(ser::nested).collect()), Direct::List(l.clone()), m));
        }
        for s in ["", "5", "true", "c", "hello", "-3", "1.5", "a::b"] {
            let m = parse_meta(&format!("x = {:?}", s)).unwrap_or(word_meta.clone());
            directs.push((tagged("string", vec![st(s)]), Direct::Str(s.to_string()), m));
        }
        for b in [true, false] {
            directs.push((tagged("boolv", vec![boolean(b)]), Direct::Bool(b), word_meta.clone()));
        }
        for c in ['c', '5', 'é'] {
            directs.push((tagged("charv", vec![nat(c as u128)]), Direct::Char(c), word_meta.clone()));
        }
        for l in ["5", "\"s\"", "true", "'c'", "1.5", "b\"x\"", "300", "-5"] {
            if let Ok(lit) = syn::parse_str::<syn::Lit>(l) {
                let m = parse_meta(&format!("x = {}", l)).unwrap_or(word_meta.clone());
                directs.push((tagged("value", vec![ser::lit(&lit)]), Direct::Value(lit), m));
            }
        }
        for e in ["5", "\"s\"", "a::b", "1 + 2", "[1, 2]", "-5", "(5)", "foo"] {
            if let Ok(ex) = syn::parse_str::<syn::Expr>(e) {
                let m = parse_meta(&format!("x = {}", e)).unwrap_or(word_meta.clone());
                directs.push((tagged("expr", vec![ser::expr(&ex)]), Direct::Expr(ex), m));
            }
        }
        out.stat("direct_entry_forms", directs.len() as u64);
        for te in types {
            for (sx, d, om) in &directs {
                let case = tagged("fm", vec![te.ty.clone(), sx.clone(), oracle_with(om, &te.kinds)]);
                let ans = (te.direct)(d);
                out.case_id("fm", &format!("{}-d{}", prefix, id), &case, &ans);
                id += 1;
            }
        }
    }

pub fn run_c12(seed: u64, n: usize, out: &mut Out) {
    let base = Rng::new(seed ^ 0xC12);
    let grid = wrapper_grid();
    out.stat("grid_types", grid.len() as u64);
    let mut id = 0usize;
    // every type × from_none
    for te in &grid {
        let (case, ans) = none_case(te);
        out.case_id("fm", &format!("c12-{}", id), &case, &ans);
        id += 1;
    }
    // every type × a fixed covering set of forms
    let mut fixed: Vec<String> = vec!["x".into()];
    for l in LITS {
        fixed.push(format!("x = {}", l));
    }
    for e in EXPRS {
        fixed.push(format!("x = {}", e));
    }
    for b in LIST_BODIES {
        fixed.push(format!("x({})", b));
    }
    let metas: Vec<Meta> = fixed.iter().filter_map(|s| parse_meta(s)).collect();
    out.stat("fixed_forms", metas.len() as u64);
    direct_cases(out, &grid, "c12");
    let per_type = (n / grid.len().max(1)).max(1);
    for (k, te) in grid.iter().enumerate() {
        let mut r = base.fork(k as u64);
        for _ in 0..per_type {
            let m = r.pick(&metas);
            let (case, ans) = meta_case(te, m);
            out.stat(&format!("depth{}_{}", te.depth, if ans.starts_with("(ok") { "ok" } else if ans.starts_with("(err") { "err" } else { "panic" }), 1);
            out.case_id("fm", &format!("c12-{}", id), &case, &ans);
            id += 1;
        }
    }
}

// ---------------------------------------------------------------- C15(b)

use crate::probes::{probes, FAILING};
use darling_core::ast::NestedMeta;

/// wrap the value of a name-value item in `depth` invisible groups
fn group_value(m: &Meta, depth: usize) -> Meta {
    match m {
        Meta::NameValue(nv) => {
            let mut e = nv.value.clone();
            for _ in 0..depth {
                let span = syn::spanned::Spanned::span(&e);
                e = syn::Expr::Group(syn::ExprGroup {
                    attrs: vec![],
                    group_token: syn::token::Group { span },
                    expr: Box::new(e),
                });
            }
            Meta::NameValue(syn::MetaNameValue { path: nv.path.clone(), eq_token: nv.eq_token, value: e })
        }
        m => m.clone(),
    }
}

pub fn run_c15b(seed: u64, n: usize, out: &mut Out) {
    let base = Rng::new(seed ^ 0xC15B);
    let ps = probes();
    let mut srcs: Vec<String> = vec!["x".into(), "a::b".into(), "::x".into(), "r#type".into()];
    for l in LITS {
        srcs.push(format!("x = {}", l));
    }
    for e in EXPRS {
        srcs.push(format!("x = {}", e));
    }
    for b in LIST_BODIES {
        srcs.push(format!("x({})", b));
    }
    srcs.push("x[a, b]".into());
    srcs.push("x{a = 1}".into());
    let mut metas: Vec<Meta> = vec![];
    for s in &srcs {
        if let Some(m) = parse_meta(s) {
            metas.push(group_value(&m, 1));
            metas.push(group_value(&m, 2));
            metas.push(m);
        }
    }
    // nested-literal position
    let lits: Vec<syn::Lit> = LITS.iter().filter(|l| !l.starts_with('-')).filter_map(|l| syn::parse_str::<syn::Lit>(l).ok()).collect();
    out.stat("probe_types", ps.len() as u64);
    out.stat("item_forms", metas.len() as u64);
    let mut id = 0usize;
    // exhaustive: every probe × every item form × {ok, failing}; n caps the random remainder
    let exhaustive = n >= ps.len() * metas.len() * 3;
    for (mask, te) in &ps {
        let mut r = base.fork(*mask as u64);
        for failing in [0u8, 1, 2] {
            FAILING.with(|f| f.set(failing));
            let ty = tagged("probe", vec![nat(*mask as u128), atom(["false", "true", "bundle"][failing as usize])]);
            let te = TyEntry { ty, ..te.clone() };
            let k = if exhaustive { metas.len() } else { (n / (ps.len() * 3)).max(1) };
            for j in 0..k {
                let m = if exhaustive { &metas[j] } else { r.pick(&metas) };
                let (case, ans) = meta_case(&te, m);
                out.stat(if ans.contains("probe:") || ans.starts_with("(ok") { "reached_overridden_hook" } else { "reached_default" }, 1);
                out.case_id("fm", &format!("c15b-{}", id), &case, &ans);
                id += 1;
            }
            for l in &lits {
                let nm = NestedMeta::Lit(l.clone());
                let case = tagged("fm", vec![te.ty.clone(), tagged("nested", vec![ser::nested(&nm)]), tagged("oracle", vec![])]);
                let ans = (te.nested)(&nm);
                out.case_id("fm", &format!("c15b-{}", id), &case, &ans);
                id += 1;
            }
        }
    }
    FAILING.with(|f| f.set(0));
}

// ---------------------------------------------------------------- C13

pub const SYN_VALUES: &[&str] = &[
    // paths / identifiers
    "a", "a::b", "::a::b", "a::b::<u8>", "Vec<u8>", "::a", "foo::<T>", "foo<T>", "::r#type", "::crate", "::Self", "<T as X>::y", "<T>::x", "foo", "r#type", "self", "fn", "crate::x", "Self",
    // expressions
    "1 + 2", "f(x)", "|a| a + 1", "{ 1 }", "[1, 2, 3]", "[a, \"b\"]", "0..5", "..", "a..=b", "(1)", "x.y", "-1", "'c'", "1.0", "5",
    "true", "m!(x)", "&x", "x as u8", "if a { b } else { c }", "a = b", "[1, 2, 3,]", "[[1], [2]]",
    // types
    "u8", "[u8; 4]", "fn(u8) -> u8", "impl Clone", "_", "!", "(u8)", "a::B", "*const u8", "&'a u8", "[u8]", "dyn Tr + Send",
    "(u8, u16)", "T: Clone", "T",
    // visibility, where
    "pub", "pub(crate)", "pub(in a::b)", "T: Clone, U: Copy", "where T: X", "T: 'a + Clone, 'a: 'b",
    // arrays of literals
    "[1u8, 300]", "[\"a\", \"b\"]", "[b'a']", "[true, false]", "[1.0, 2.0]", "[1, x]", "[]", "[b\"x\"]", "['a', 'b']", "[1, -2]",
    "[256]", "[70000]", "[\"1\", \"2\"]",
    // rename rules and junk
    "snake_case", "camelCase", "PascalCase", "SCREAMING_SNAKE_CASE", "kebab-case", "lowercase", "Title Case", "", " ", "a b", "a,",
    "a::b, c", "a, b::c,",
    // expressions that are themselves string literals: quoting them must un-quote exactly once
    "\"a + b\"", "\"[1, 2]\"", "\"a::b\"", "\"0..5\"", "\"hello, world\"", "r#\"x\"#",
    // nesting to a practical depth: 48 parentheses, 48 nested calls, 48 nested arrays
    "((((((((((((((((((((((((((((((((((((((((((((((((5))))))))))))))))))))))))))))))))))))))))))))))))",
    "f(f(f(f(f(f(f(f(f(f(f(f(f(f(f(f(f(f(f(f(f(f(f(f(f(f(f(f(f(f(f(f(f(f(f(f(f(f(f(f(f(f(f(f(f(f(f(f(x))))))))))))))))))))))))))))))))))))))))))))))))",
    "[[[[[[[[[[[[[[[[[[[[[[[[[[[[[[[[[[[[[[[[[[[[[[[[1]]]]]]]]]]]]]]]]]]]]]]]]]]]]]]]]]]]]]]]]]]]]]]]]",
];

pub const LIT_SPELLINGS: &[&str] = &["5", "5u8", "0x1f", "1.5", "1e3f32", "\"s\"", "r\"raw\"", "b'x'", "b\"bs\"", "'c'", "true", "false", "c\"cs\""];

pub fn run_c13(seed: u64, n: usize, out: &mut Out) {
    let base = Rng::new(seed ^ 0xC13);
    let tys = syn_types();
    direct_cases(out, &tys, "c13");
    let mut srcs: Vec<String> = vec!["x".into(), "x()".into(), "x(a, b::c)".into(), "x(a, \"s\")".into(), "x(a = 1)".into(), "x(::a, r#b)".into(),
        "x(a, b, a)".into(), "x(a::b, a::b)".into(), "x(a, a, a, b)".into(), "x(1, 1)".into(), "x(\"s\", \"s\")".into()];
    for v in SYN_VALUES {
        srcs.push(format!("x = {}", v));
        srcs.push(format!("x = \"{}\"", v.replace('\\', "\\\\").replace('"', "\\\"")));
        srcs.push(format!("x({})", v));
    }
    for l in LIT_SPELLINGS {
        srcs.push(format!("x = {}", l));
        srcs.push(format!("x({}, {})", l, l));
    }
    let mut metas: Vec<Meta> = vec![];
    for s in &srcs {
        if let Some(m) = parse_meta(s) {
            metas.push(group_value(&m, 1));
            // two layers of invisible groups (a value forwarded through two macro_rules! layers): only for
            // a subset, to keep the exhaustive product small
            if metas.len() % 7 == 0 {
                metas.push(group_value(&m, 2));
            }
            // array values: invisible groups around the *elements*
            if let Meta::NameValue(nv) = &m {
                if let syn::Expr::Array(arr) = &nv.value {
                    if !arr.elems.is_empty() {
                        for depth in [1usize, 2] {
                            let mut arr2 = arr.clone();
                            for (i, e) in arr2.elems.iter_mut().enumerate() {
                                if i % 2 == 0 {
                                    let mut g = e.clone();
                                    for _ in 0..depth {
                                        let span = syn::spanned::Spanned::span(&g);
                                        g = syn::Expr::Group(syn::ExprGroup { attrs: vec![], group_token: syn::token::Group { span }, expr: Box::new(g) });
                                    }
                                    *e = g;
                                }
                            }
                            let mut nv2 = nv.clone();
                            nv2.value = syn::Expr::Array(arr2);
                            metas.push(Meta::NameValue(nv2));
                        }
                    }
                }
            }
            metas.push(m);
        }
    }
    out.stat("syntax_typed_targets", tys.len() as u64);
    out.stat("item_forms", metas.len() as u64);
    let total = tys.len() * metas.len();
    let exhaustive = n >= total;
    let mut id = 0usize;
    for (k, te) in tys.iter().enumerate() {
        let mut r = base.fork(k as u64);
        let cnt = if exhaustive { metas.len() } else { (n / tys.len()).max(1) };
        for j in 0..cnt {
            let m = if exhaustive { &metas[j] } else { r.pick(&metas) };
            let (case, ans) = meta_case(te, m);
            out.stat(if ans.starts_with("(ok") { "answers_ok" } else if ans.starts_with("(err") { "answers_err" } else { "answers_panic" }, 1);
            out.case_id("fm", &format!("c13-{}", id), &case, &ans);
            id += 1;
        }
        let (case, ans) = none_case(te);
        out.case_id("fm", &format!("c13-{}", id), &case, &ans);
        id += 1;
    }
    // the two `with` helpers of util::parse_expr, on every item form (they are not FromMeta impls)
    use crate::vals::Canon;
    for m in &metas {
        for (which, f) in [
            ("preserve", darling::util::parse_expr::preserve_str_literal as fn(&Meta) -> darling::Result<syn::Expr>),
            ("parse", darling::util::parse_expr::parse_str_literal as fn(&Meta) -> darling::Result<syn::Expr>),
        ] {
            // an invisible group around the whole value is not part of the printed expression
            // (the mirror's `Expr.toks` of a group is its contents' tokens)
            fn peel(e: syn::Expr) -> syn::Expr {
                match e {
                    syn::Expr::Group(g) => peel(*g.expr),
                    e => e,
                }
            }
            let ans = crate::vals::answer(std::panic::catch_unwind(|| f(m).map(peel)));
            let case = tagged("helper", vec![atom(which), tagged("meta", vec![ser::meta(m)]), oracle_with(m, &["Expr"])]);
            out.stat("helper_cases", 1);
            out.case_id("fm", &format!("c13-{}", id), &case, &ans);
            id += 1;
        }
    }
    let _ = <syn::Expr as Canon>::canon;
}

// ---------------------------------------------------------------- C14

const KEYS: &[&str] = &["a", "b", "c", "a::b", "::a", "r#a", "b::c", "a::<u8>", "a :: b", "d"];
const MAP_VALUES: &[&str] = &[" = true", " = 5", " = \"s\"", "", "(x = 1)", " = 1 + 2", " = 300", " = \"true\"", "(y = 5, z = 300)", " = false",
    // nested maps whose inner key repeats an outer key (the location path then repeats a segment)
    "(a = 300)", "(a = \"big\", b = 1)", "(a(a = 300))", "(b = true, b = 5)"];

pub fn run_c14(seed: u64, n: usize, out: &mut Out) {
    let base = Rng::new(seed ^ 0xC14);
    let tys = map_types();
    out.stat("map_types", tys.len() as u64);
    let mut id = 0usize;
    let per = (n / tys.len()).max(1);
    for (k, te) in tys.iter().enumerate() {
        for j in 0..per {
            let mut r = base.fork((k * 1_000_003 + j) as u64);
            let len = r.below(13);
            // repetition pattern: small key pool most of the time
            let pool = r.range(1, KEYS.len());
            let mut items = vec![];
            // half of the lists are built to be valid for this map type (distinct keys the key
            // type accepts, values the value type accepts) with at most one injected mistake
            let valid_mode = r.chance(1, 2);
            if valid_mode {
                let tyr = te.ty.render();
                let vals: &[&str] = if tyr.ends_with("bool)") { &[" = true", "", " = false", " = \"true\""] }
                    else if tyr.contains("(option") { &[" = 5", " = \"7\""] }
                    else if tyr.ends_with("(int \"u8\")))") { &["(y = 5)", "(y = 5, z = 6)", "()"] }
                    else if tyr.ends_with("(int \"u8\"))") { &[" = 5", " = \"7\"", " = 255"] }
                    else if tyr.ends_with("string)") { &[" = \"s\"", " = \"\""] }
                    else { &[" = 1 + 2", " = 5", " = \"a + b\"", " = f(x)"] };
                let keys: &[&str] = if tyr.contains("syn::Ident") { &["a", "b", "c", "d", "r#a", "e", "f", "g", "h", "i", "j", "k", "l"] } else { &["a", "b", "c", "a::b", "::a", "r#a", "b::c", "d", "e", "f", "g", "h", "i"] };
                let mut ks: Vec<&str> = keys.to_vec();
                r.shuffle(&mut ks);
                for k in ks.iter().take(len) {
                    items.push(format!("{}{}", k, r.pick(vals)));
                }
                if len > 0 && r.chance(1, 4) {
                    let pos = r.below(len);
                    match r.below(4) {
                        0 => items[pos] = "\"lit\"".to_string(),
                        1 => { let dup = items[r.below(len)].clone(); items.insert(pos, dup); }
                        2 => items[pos] = format!("{} = b\"bad\"", ks[pos]),
                        _ => items[pos] = format!("x::y::<u8>{}", r.pick(vals)),
                    }
                }
            }
            for _ in 0..(if valid_mode { 0 } else { len }) {
                if r.chance(1, 10) {
                    items.push((*r.pick(&["\"lit\"", "5", "true"])).to_string());
                } else {
                    let key = KEYS[r.below(pool)];
                    let val = if r.chance(1, 2) { MAP_VALUES[r.below(3)] } else { *r.pick(MAP_VALUES) };
                    items.push(format!("{}{}", key, val));
                }
            }
            let src = format!("m({})", items.join(", "));
            if let Some(m) = parse_meta(&src) {
                let (case, ans) = meta_case(te, &m);
                out.stat(if ans.starts_with("(ok") { "answers_ok" } else { "answers_err" }, 1);
                out.stat(&format!("len_{}", len), 1);
                out.case_id("fm", &format!("c14-{}", id), &case, &ans);
                id += 1;
            } else {
                out.stat("generator_inputs_not_parseable_as_meta", 1);
            }
        }
    }
}
