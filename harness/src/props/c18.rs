//! C18: the run-time shape-set API (exhaustive) and derived `supports(..)` receivers.
use crate::corpus_c18;
use crate::recv;
use crate::rng::Rng;
use crate::ser;
use crate::sx::*;
use crate::Out;
use darling::util::{Shape, ShapeSet};

const SHAPES: [(Shape, &str); 4] = [(Shape::Named, "named"), (Shape::Tuple, "tuple"), (Shape::Unit, "unit"), (Shape::Newtype, "newtype")];

fn fields_src(shape: &str) -> &'static str {
    match shape {
        "tuple0" => "()",
        "named0" => "{}",
        "named" => "{ a: u8, b: String }",
        "tuple" => "(u8, u16)",
        "newtype" => "(u8)",
        _ => "",
    }
}

/// all bodies: four struct styles, enums of 0..=max_variants variants over all style
/// combinations, a union
fn bodies(max_variants: usize) -> Vec<(String, Sx)> {
    let mut v = vec![];
    for (_, s) in SHAPES.iter() {
        let semi = if *s == "named" { "" } else { ";" };
        v.push((format!("struct B {}{}", fields_src(s), semi), tagged("struct", vec![atom(*s)])));
    }
    v.push(("union B { a: u8, b: u16 }".to_string(), atom("union")));
    // zero-field tuple and named bodies: still "tuple" / "named"
    v.push(("struct B();".to_string(), tagged("struct", vec![atom("tuple")])));
    v.push(("struct B {}".to_string(), tagged("struct", vec![atom("named")])));
    v.push(("enum B { V0(), V1 {} }".to_string(), tagged("enum", vec![atom("tuple"), atom("named")])));
    v.push(("enum B { V0, V1(), V2(u8) }".to_string(), tagged("enum", vec![atom("unit"), atom("tuple"), atom("newtype")])));
    // explicit discriminants do not change a variant's shape
    v.push(("enum B { V0 = 1, V1(u8) = 2, V2 { x: i8 } = 3, V3(u8, u8) = 4 }".to_string(), tagged("enum", vec![atom("unit"), atom("newtype"), atom("named"), atom("tuple")])));
    v.push(("enum B { V0(u8) = 1 }".to_string(), tagged("enum", vec![atom("newtype")])));
    v.push(("enum B { V0 { x: i8 } = 2, V1 = 5 }".to_string(), tagged("enum", vec![atom("named"), atom("unit")])));
    let mut combos: Vec<Vec<&str>> = vec![vec![]];
    let mut frontier: Vec<Vec<&str>> = vec![vec![]];
    for _ in 0..max_variants {
        let mut next = vec![];
        for c in &frontier {
            for (_, s) in SHAPES.iter() {
                let mut d = c.clone();
                d.push(*s);
                next.push(d);
            }
        }
        combos.extend(next.clone());
        frontier = next;
    }
    for c in combos {
        let vs: Vec<String> = c.iter().enumerate().map(|(i, s)| format!("V{} {}", i, fields_src(s))).collect();
        v.push((format!("enum B {{ {} }}", vs.join(", ")), tagged("enum", c.iter().map(|s| atom(*s)).collect())));
    }
    v
}

pub fn run_api(_seed: u64, _n: usize, out: &mut Out) {
    // exhaustive: 2^4 shape sets (as insertion lists, incl. repeated insertions) × 4 shapes
    let mut id = 0usize;
    for mask in 0..16u32 {
        let members: Vec<(Shape, &str)> = SHAPES.iter().enumerate().filter(|(i, _)| mask >> i & 1 == 1).map(|(_, s)| *s).collect();
        for rep in 0..5 {
            let mut list: Vec<(Shape, &str)> = members.clone();
            if rep == 1 {
                list.extend(members.iter().rev().cloned());
            }
            // every public way of building a set: `new`, `insert` one by one on the default set,
            // `insert_all`, and `new` of a first member widened by `insert`
            let set = match rep {
                0 | 1 => ShapeSet::new(list.iter().map(|s| s.0)),
                2 => {
                    let mut s = ShapeSet::default();
                    for m in &list {
                        s.insert(m.0);
                    }
                    s
                }
                3 => {
                    let mut s = ShapeSet::default();
                    if members.len() == SHAPES.len() {
                        s.insert_all();
                    } else {
                        for m in list.iter().rev() {
                            s.insert(m.0);
                        }
                    }
                    s
                }
                _ => {
                    let mut s = ShapeSet::new(list.iter().take(1).map(|m| m.0));
                    for m in list.iter().skip(1) {
                        s.insert(m.0);
                    }
                    s
                }
            };
            for (sh, name) in SHAPES.iter() {
                let contains = set.contains(sh);
                let check = match set.check(sh) {
                    Ok(()) => atom("ok"),
                    Err(e) => tagged("err", vec![crate::canon::obs_err(&e)]),
                };
                let ans = tagged("api", vec![boolean(contains), check, st(set.to_string()), boolean(set.is_empty())]).render();
                let case = tagged("c18api", vec![list_sx(&list), atom(*name)]);
                out.case("c18", id, &case, &ans);
                id += 1;
            }
        }
    }
    out.stat("shape_sets", 16);
    out.note("exhaustive", "all 16 shape sets (each built five ways: new, new with repeats, insert, insert_all, new + insert) x 4 shapes");
    // every `AsShape` implementor on every body form (with and without an explicit discriminant):
    // they must all name the shape the same way
    use darling::util::AsShape;
    let name_of = |s: Shape| SHAPES.iter().find(|x| x.0 == s).map(|x| x.1).unwrap_or("?");
    for (body, style, nf) in [("", "unit", 0usize), ("()", "tuple", 0), ("(u8)", "tuple", 1), ("(u8, u16)", "tuple", 2), ("(u8, u16, u32)", "tuple", 3),
                              ("{}", "named", 0), ("{ a: u8 }", "named", 1), ("{ a: u8, b: u16 }", "named", 2)] {
        for disc in ["", " = 3"] {
            let di: syn::DeriveInput = syn::parse_str(&format!("enum E {{ V{}{} }}", body, disc)).unwrap();
            let variant = match &di.data {
                syn::Data::Enum(e) => e.variants[0].clone(),
                _ => unreachable!(),
            };
            let mut answers: Vec<(&str, String)> = vec![];
            answers.push(("syn::Variant", name_of(variant.as_shape()).to_string()));
            answers.push(("syn::Fields", name_of(variant.fields.as_shape()).to_string()));
            if let Ok(f) = darling::ast::Fields::<()>::try_from(&variant.fields) {
                answers.push(("ast::Fields", name_of(f.as_shape()).to_string()));
            }
            match &variant.fields {
                syn::Fields::Named(n) => answers.push(("syn::FieldsNamed", name_of(n.as_shape()).to_string())),
                syn::Fields::Unnamed(u) => answers.push(("syn::FieldsUnnamed", name_of(u.as_shape()).to_string())),
                syn::Fields::Unit => {}
            }
            if disc.is_empty() {
                let semi = if style == "named" { "" } else { ";" };
                let ds: syn::DeriveInput = syn::parse_str(&format!("struct S{}{}", body, semi)).unwrap();
                if let syn::Data::Struct(d) = &ds.data {
                    answers.push(("syn::DataStruct", name_of(d.as_shape()).to_string()));
                }
            }
            for (who, a) in answers {
                let case = tagged("c18shape", vec![atom(style), nat(nf as u128), st(who)]);
                out.case("c18", id, &case, &tagged("shape", vec![atom(a)]).render());
                id += 1;
            }
        }
    }
}

fn list_sx(l: &[(Shape, &str)]) -> Sx {
    list(l.iter().map(|s| atom(s.1)).collect())
}

pub fn run_recv(seed: u64, n: usize, out: &mut Out, max_variants: usize) {
    let decls = recv::declarations(include_str!("../corpus_c18.rs"));
    let bodies = bodies(max_variants);
    let mut id = 0usize;
    let fdi = corpus_c18::fdi_receivers();
    let total = fdi.len() * bodies.len();
    let base = Rng::new(seed ^ 0xC18);
    for (k, (name, f)) in fdi.iter().enumerate() {
        let decl = &decls[*name];
        let supports = recv::find_option(&decl.attrs, "supports").expect("supports option");
        let mut r = base.fork(k as u64);
        for (j, (src, shape)) in bodies.iter().enumerate() {
            // quick tier: every receiver × (all structs, union, all enums up to 2 variants, a sample beyond)
            if n < total && j > 4 + 1 + 4 + 4 + 16 && !r.chance(n, total) {
                continue;
            }
            let di: syn::DeriveInput = syn::parse_str(src).unwrap();
            let ans = f(&di);
            let case = tagged("c18recv", vec![atom("fdi"), ser::meta(&supports), shape.clone()]);
            out.stat(if ans.starts_with("(ok") { "accepted" } else if ans.starts_with("(err") { "rejected" } else { "panicked" }, 1);
            out.case("c18", id, &case, &ans);
            id += 1;
        }
    }
    // variant-level `supports(..)`
    let fv = corpus_c18::fv_receivers();
    for (name, f) in fv.iter() {
        let decl = &decls[*name];
        let supports = recv::find_option(&decl.attrs, "supports").expect("supports option");
        for (_, s) in SHAPES.iter().chain([(Shape::Tuple, "tuple0"), (Shape::Named, "named0")].iter()) {
            let src = format!("enum E {{ V {} }}", fields_src(s));
            let di: syn::DeriveInput = syn::parse_str(&src).unwrap();
            let variant = match &di.data {
                syn::Data::Enum(e) => e.variants[0].clone(),
                _ => unreachable!(),
            };
            let ans = f(&variant);
            let case = tagged("c18recv", vec![atom("fv"), ser::meta(&supports), tagged("struct", vec![atom(s.trim_end_matches('0'))])]);
            out.stat(if ans.starts_with("(ok") { "accepted" } else { "rejected" }, 1);
            out.case("c18", id, &case, &ans);
            id += 1;
        }
    }
    out.stat("fdi_receivers", fdi.len() as u64);
    out.stat("fv_receivers", fv.len() as u64);
    out.stat("bodies", bodies.len() as u64);
}
