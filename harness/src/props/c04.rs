//! C04: histories of public-API calls on `darling::Error`.
use crate::canon::*;
use crate::rng::Rng;
use crate::sx::*;
use crate::Out;
use darling_core::Error;
use std::panic::{catch_unwind, AssertUnwindSafe};

const NAMES: &[&str] = &[
    "foo", "bar", "baz", "foo_bar", "fooo", "name", "nmae", "skip", "a", "b", "x::y", "it`s", "q\"t", "émile",
    "hello world", "default", "defualt", "rename", "renmae", "",
];

pub fn score(a: &str, b: &str) -> u64 {
    strsim::jaro_winkler(a, b).to_bits()
}

fn alts_sx(name: &str, alts: &[&str]) -> Sx {
    list(alts.iter().map(|a| list(vec![st(*a), nat(score(name, a) as u128)])).collect())
}

fn gen_leaf(r: &mut Rng, unknown_names: &mut Vec<String>) -> (Error, Sx) {
    let n = *r.pick(NAMES);
    match r.below(12) {
        0 | 1 => (Error::custom(n), tagged("leaf", vec![tagged("custom", vec![st(n)])])),
        2 => (Error::duplicate_field(n), tagged("leaf", vec![tagged("dup", vec![st(n)])])),
        3 => (Error::missing_field(n), tagged("leaf", vec![tagged("missing", vec![st(n)])])),
        4 => {
            if r.chance(1, 2) {
                (Error::unsupported_shape(n), tagged("leaf", vec![tagged("shape", vec![st(n), none()])]))
            } else {
                let e = *r.pick(NAMES);
                (
                    Error::unsupported_shape_with_expected(n, &e),
                    tagged("leaf", vec![tagged("shape", vec![st(n), st(e)])]),
                )
            }
        }
        5 => {
            unknown_names.push(n.to_string());
            (Error::unknown_field(n), tagged("leaf", vec![tagged("unknown", vec![st(n), none()])]))
        }
        6 => {
            unknown_names.push(n.to_string());
            let k = r.below(5);
            let alts: Vec<&str> = (0..k).map(|_| *r.pick(NAMES)).collect();
            (
                Error::unknown_field_with_alts(n, &alts),
                tagged("unknown_alts", vec![st(n), alts_sx(n, &alts)]),
            )
        }
        7 => (Error::unsupported_format(n), tagged("leaf", vec![tagged("format", vec![st(n)])])),
        8 => (Error::unexpected_type(n), tagged("leaf", vec![tagged("type", vec![st(n)])])),
        9 => (Error::unknown_value(n), tagged("leaf", vec![tagged("value", vec![st(n)])])),
        10 => {
            let k = r.below(5);
            (Error::too_few_items(k), tagged("leaf", vec![tagged("toofew", vec![nat(k as u128)])]))
        }
        _ => {
            let k = r.below(5);
            (Error::too_many_items(k), tagged("leaf", vec![tagged("toomany", vec![nat(k as u128)])]))
        }
    }
}

pub struct Case {
    pub prog: Sx,
    pub answer: String,
    pub ops: usize,
    pub max_len: usize,
    pub depth_ops: usize,
}

const CLUSTERS: &[&[&str]] = &[
    &["timeout", "timeot", "timer", "time", "timeo", "tiemout", "timeouts"],
    &["rename", "renmae", "rename_all", "renam", "renames", "rname"],
    &["default", "defualt", "defaults", "defalt", "defaul"],
];

/// a "suggestion chain": an unknown name close to several candidate sets offered one after the
/// other (what a flatten chain of depth 2..4 does through add_sibling_alts)
fn gen_chain_case(r: &mut Rng) -> Case {
    let cl = *r.pick(CLUSTERS);
    let name = *r.pick(cl);
    let mut prog = vec![];
    let k0 = r.below(3);
    let first: Vec<&str> = (0..k0).map(|_| *r.pick(cl)).collect();
    let mut e = Error::unknown_field_with_alts(name, &first);
    prog.push(tagged("unknown_alts", vec![st(name), alts_sx(name, &first)]));
    let levels = r.range(1, 4);
    for _ in 0..levels {
        let k = r.range(1, 2);
        let alts: Vec<&str> = (0..k).map(|_| *r.pick(cl)).collect();
        e = e.add_sibling_alts_for_unknown_field(&alts);
        prog.push(tagged("sibling_alts", vec![list(vec![list(vec![st(name), alts_sx(name, &alts)])])]));
        if r.chance(1, 6) {
            e = e.at("inner");
            prog.push(tagged("at", vec![st("inner")]));
        }
    }
    let answer = tagged("stack", vec![obs_err(&e)]).render();
    Case { prog: tagged("prog", prog), answer, ops: levels + 1, max_len: 1, depth_ops: 0 }
}

pub fn gen_case(r: &mut Rng, pool: &SpanPool, max_ops: usize) -> Case {
    if r.chance(1, 8) {
        return gen_chain_case(r);
    }
    let mut stack: Vec<Error> = Vec::new();
    let mut prog: Vec<Sx> = Vec::new();
    let mut unknown_names: Vec<String> = Vec::new();
    let n_ops = r.range(1, max_ops);
    let mut panicked = false;
    let mut depth_ops = 0;
    for _ in 0..n_ops {
        let w = r.below(100);
        if stack.is_empty() || w < 30 {
            let (e, sx) = gen_leaf(r, &mut unknown_names);
            stack.push(e);
            prog.push(sx);
        } else if w < 45 {
            let l = *r.pick(NAMES);
            let e = stack.pop().unwrap();
            stack.push(e.at(l));
            prog.push(tagged("at", vec![st(l)]));
        } else if w < 57 {
            let i = r.below(pool.spans.len());
            let e = stack.pop().unwrap();
            stack.push(e.with_span(&pool.spans[i]));
            let (lo, hi) = pool.range(i);
            prog.push(tagged("span", vec![nat(lo as u128), nat(hi as u128)]));
        } else if w < 77 {
            // multiple(k): mostly 2..4, sometimes 1, rarely 0
            let k = match r.below(20) {
                0 => 0,
                1 | 2 => 1,
                _ => r.range(2, 4),
            };
            let k = k.min(stack.len());
            let taken: Vec<Error> = stack.split_off(stack.len() - k);
            prog.push(tagged("multiple", vec![nat(k as u128)]));
            depth_ops += 1;
            match catch_unwind(AssertUnwindSafe(|| Error::multiple(taken))) {
                Ok(e) => stack.push(e),
                Err(_) => {
                    panicked = true;
                    break;
                }
            }
        } else if w < 84 {
            let e = stack.pop().unwrap();
            prog.push(tagged("flatten", vec![]));
            stack.push(e.flatten());
        } else if w < 89 {
            let e = stack.last().unwrap().clone();
            stack.push(e);
            prog.push(tagged("dup", vec![]));
        } else if w < 93 {
            let e = stack.pop().unwrap();
            for c in e {
                stack.push(c);
            }
            prog.push(tagged("iter", vec![]));
        } else if w < 96 {
            if stack.len() >= 2 {
                let n = stack.len();
                stack.swap(n - 1, n - 2);
            }
            prog.push(tagged("swap", vec![]));
        } else {
            let k = r.range(1, 4);
            let alts: Vec<&str> = (0..k).map(|_| *r.pick(NAMES)).collect();
            let mut names = unknown_names.clone();
            names.sort();
            names.dedup();
            let tbl: Vec<Sx> = names.iter().map(|n| list(vec![st(n.clone()), alts_sx(n, &alts)])).collect();
            let e = stack.pop().unwrap();
            stack.push(e.add_sibling_alts_for_unknown_field(&alts));
            prog.push(tagged("sibling_alts", vec![list(tbl)]));
        }
    }
    let answer = if panicked {
        "panic".to_string()
    } else {
        // model stack is top-first
        tagged("stack", stack.iter().rev().map(obs_err).collect()).render()
    };
    let max_len = stack.iter().map(|e| e.len()).max().unwrap_or(0);
    Case { prog: tagged("prog", prog), answer, ops: n_ops, max_len, depth_ops }
}

pub fn run(seed: u64, n: usize, out: &mut Out) {
    let pool = SpanPool::new(64);
    let base = Rng::new(seed ^ 0xC04);
    let max_ops = 28;
    let mut multi = 0usize;
    let mut panics = 0usize;
    let mut len_hist = std::collections::BTreeMap::<usize, usize>::new();
    for i in 0..n {
        let mut r = base.fork(i as u64);
        let c = gen_case(&mut r, &pool, max_ops);
        if c.max_len >= 2 {
            multi += 1;
        }
        if c.answer == "panic" {
            panics += 1;
        }
        *len_hist.entry(c.max_len.min(12)).or_insert(0) += 1;
        out.case("c04", i, &c.prog, &c.answer);
    }
    out.stat("cases", n as u64);
    out.stat("cases_with_bundle_len_ge_2", multi as u64);
    out.stat("cases_ending_in_documented_panic", panics as u64);
    for (k, v) in len_hist {
        out.stat(&format!("max_len_{}", k), v as u64);
    }
}
