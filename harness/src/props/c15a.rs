//! C15(a): darling's own token-level parser `NestedMeta::parse_meta_list` on token streams from a
//! grammar of valid lists and their mutations.  syn's `Lit` / `Meta` parsers are oracle
//! parameters of the model: for every top-level token position the harness records what they do
//! when started there.
use crate::rng::Rng;
use crate::ser::toks;
use crate::sx::*;
use crate::Out;
use darling::ast::NestedMeta;
use proc_macro2::{Spacing, TokenStream, TokenTree};
use syn::parse::{ParseStream, Parser};

const ITEMS: &[&str] = &[
    "\"s\"", "5", "-5", "1.5", "-1.5", "'c'", "b\"x\"", "true", "false", "0xFF", "1u8", "b'x'",
    "a", "a::b", "::a", "::a::b", "crate::x", "::crate::x", "self", "::self::y", "super::z", "::super::z", "Self", "::Self", "r#type", "::r#type",
    "a = 1", "a = \"s\"", "a = -1", "a = b + c", "a = [1, 2]", "a = f(x, y)", "a = Vec::<u8>::new()", "a = (1, 2)", "a = x.y", "a = |z| z",
    "true = 1", "false = \"x\"", "a = true", "true == 1", "a::b = c::d", "::a = 1", "crate = 1", "::crate::x = 1",
    "a(b, c)", "a(b = 1, \"x\")", "a()", "a{b}", "a[b]", "a::b(c)", "::a(b)", "a(b(c(d(e = 1))))", "a(b c)", "self(x)", "::self::y(x)",
];
const DUBIOUS: &[&str] = &[
    "type", "fn", "mod", "::type", "type = 1", "=", "= 1", "#", "!", "(x)", "[x]", "::", ":: 5", ": a", "'a", "a b", "a =", "&a", "*", "a = ;", "- a", "-", "true false",
    "a::", "::a::", "a::5", "a::<u8>", "5 = 5", "\"s\" = 1", "a = 1 = 2", "a(b) = 1", "a = 1(b)", ":::a", "a : : b", ": : a",
];

fn count(ts: &TokenStream) -> usize {
    ts.clone().into_iter().count()
}

fn at_index<R>(ts: &TokenStream, i: usize, f: impl FnOnce(ParseStream) -> R) -> Option<R> {
    let mut out = None;
    let parser = |input: ParseStream| -> syn::Result<()> {
        for _ in 0..i {
            input.parse::<TokenTree>()?;
        }
        out = Some(f(input));
        input.parse::<TokenStream>()?;
        Ok(())
    };
    let _ = parser.parse2(ts.clone());
    out
}

fn remaining(input: ParseStream) -> usize {
    input.cursor().token_stream().into_iter().count()
}

fn sp(s: proc_macro2::Span) -> (Sx, Sx) {
    let r = s.byte_range();
    (nat(r.start as u128), nat(r.end as u128))
}

fn span_opt(s: proc_macro2::Span) -> Sx {
    let r = s.byte_range();
    if r.start == 0 && r.end == 0 {
        none()
    } else {
        tagged("sp", vec![nat(r.start as u128), nat(r.end as u128)])
    }
}

pub fn case_for(ts: &TokenStream) -> (Sx, String) {
    let n = count(ts);
    let mut toks_sx = vec![];
    for t in ts.clone() {
        // an error "at" a group is reported at its opening delimiter (syn's `Cursor::span`)
        let (lo, hi) = sp(match &t {
            TokenTree::Group(g) => g.span_open(),
            other => other.span(),
        });
        toks_sx.push(match &t {
            TokenTree::Ident(i) => tagged("id", vec![st(i.to_string()), lo, hi]),
            TokenTree::Punct(p) => tagged("p", vec![st(p.as_char().to_string()), boolean(p.spacing() == Spacing::Joint), lo, hi]),
            TokenTree::Literal(_) => tagged("l", vec![lo, hi]),
            TokenTree::Group(_) => tagged("g", vec![lo, hi]),
        });
    }
    let mut lits = vec![];
    let mut metas = vec![];
    for i in 0..n {
        let l = at_index(ts, i, |input| {
            let fork = input.fork();
            let before = remaining(&fork);
            fork.parse::<syn::Lit>().ok().map(|l| (before - remaining(&fork), toks(&l)))
        })
        .flatten();
        if let Some((len, s)) = l {
            lits.push(list(vec![nat(i as u128), nat(len as u128), st(s)]));
        }
        let m = at_index(ts, i, |input| {
            let fork = input.fork();
            let before = remaining(&fork);
            match fork.parse::<syn::Meta>() {
                Ok(m) => Ok((before - remaining(&fork), toks(&m))),
                Err(e) => Err((e.to_string(), e.span())),
            }
        });
        match m {
            Some(Ok((len, s))) => metas.push(list(vec![nat(i as u128), atom("ok"), nat(len as u128), st(s)])),
            Some(Err((msg, span))) => {
                let (lo, hi) = sp(span);
                metas.push(list(vec![nat(i as u128), atom("err"), st(msg), lo, hi]))
            }
            None => {}
        }
    }
    let case = tagged("c15a", vec![tagged("toks", toks_sx), tagged("lits", lits), tagged("metas", metas)]);
    let res = std::panic::catch_unwind(std::panic::AssertUnwindSafe(|| NestedMeta::parse_meta_list(ts.clone())));
    let ans = match res {
        Err(_) => "(panic)".to_string(),
        Ok(Err(e)) => tagged("err", vec![st(e.to_string()), span_opt(e.span())]).render(),
        Ok(Ok(items)) => {
            // print and re-parse: must be the identity on the item list
            let printed = quote::quote!(#(#items),*);
            // compared structurally (syn's `PartialEq`: the same tokens may parse to another tree) and as printed
            let reparsed = NestedMeta::parse_meta_list(printed).ok();
            let again = reparsed.as_ref().map(|v| v.iter().map(|i| toks(i)).collect::<Vec<_>>());
            let orig: Vec<String> = items.iter().map(|i| toks(i)).collect();
            let same_tree = |a: &NestedMeta, b: &NestedMeta| match (a, b) {
                (NestedMeta::Lit(x), NestedMeta::Lit(y)) => x == y,
                (NestedMeta::Meta(x), NestedMeta::Meta(y)) => x == y,
                _ => false,
            };
            let same = reparsed.as_ref().map_or(false, |v| v.len() == items.len() && v.iter().zip(items.iter()).all(|(a, b)| same_tree(a, b)));
            if again.as_ref() != Some(&orig) || !same {
                "(roundtrip-differs)".to_string()
            } else {
                tagged(
                    "ok",
                    items
                        .iter()
                        .map(|i| match i {
                            NestedMeta::Lit(l) => tagged("lit", vec![st(toks(l))]),
                            NestedMeta::Meta(m) => tagged("item", vec![st(toks(m))]),
                        })
                        .collect(),
                )
                .render()
            }
        }
    };
    (case, ans)
}

pub fn run(seed: u64, n: usize, out: &mut Out) {
    let base = Rng::new(seed ^ 0xC15A);
    let mut id = 0usize;
    let mut emit = |out: &mut Out, src: &str, id: &mut usize| {
        let ts: TokenStream = match src.parse() {
            Ok(t) => t,
            Err(_) => {
                out.stat("not_lexable", 1);
                return;
            }
        };
        let (case, ans) = case_for(&ts);
        out.stat(if ans.starts_with("(ok") { "accepted" } else if ans.starts_with("(err") { "rejected" } else { "other" }, 1);
        out.case_id("c15a", &format!("t-{}", *id), &case, &ans);
        *id += 1;
    };
    // exhaustive: every single entry alone, with a trailing comma, doubled, and in every ordered pair
    let all: Vec<&str> = ITEMS.iter().chain(DUBIOUS.iter()).cloned().collect();
    emit(out, "", &mut id);
    emit(out, ",", &mut id);
    for a in &all {
        emit(out, a, &mut id);
        emit(out, &format!("{},", a), &mut id);
        emit(out, &format!("{},,", a), &mut id);
        emit(out, &format!(",{}", a), &mut id);
    }
    for a in &all {
        for b in &all {
            emit(out, &format!("{}, {}", a, b), &mut id);
            emit(out, &format!("{} {}", a, b), &mut id);
        }
    }
    // random lists with mutations
    for i in 0..n {
        let mut r = base.fork(i as u64);
        let k = r.below(6);
        let mut items: Vec<String> = (0..k).map(|_| if r.chance(1, 6) { (*r.pick(DUBIOUS)).to_string() } else { (*r.pick(ITEMS)).to_string() }).collect();
        // nest some lists deeper (depth up to 4)
        for it in items.iter_mut() {
            if r.chance(1, 6) {
                let d = r.range(1, 3);
                let mut s = it.clone();
                for _ in 0..d {
                    s = format!("w({}, {})", s, r.pick(ITEMS));
                }
                *it = s;
            }
        }
        let mut src = String::new();
        for (j, it) in items.iter().enumerate() {
            if j > 0 {
                src.push_str(match r.below(20) {
                    0 => " ",
                    1 => ", ,",
                    2 => ";",
                    3 => ",,",
                    _ => ", ",
                });
            }
            src.push_str(it);
        }
        if r.chance(1, 4) {
            src.push(',');
        }
        emit(out, &src, &mut id);
    }
}
