//! C01 / C02 (FromMeta receivers): compiled corpus × composed inputs, valid and with mistakes.
use crate::corpus_fm;
use crate::props::fm::{meta_case_with, parse_meta_pub};
use crate::recv::{self, RecvInfo};
use crate::rng::Rng;
use crate::ser;
use crate::sx::*;
use crate::Out;
use std::collections::{BTreeSet, HashMap};

fn transforms(id: &str) -> Vec<String> {
    use ident_case::RenameRule::*;
    let mut v = vec![id.to_string()];
    for r in [LowerCase, PascalCase, CamelCase, SnakeCase, ScreamingSnakeCase, KebabCase] {
        // the rename functions slice by byte; only ASCII identifiers occur in the corpus
        v.push(r.apply_to_field(id));
        v.push(r.apply_to_variant(id));
    }
    v
}

fn collect_names(di: &syn::DeriveInput, decls: &HashMap<String, syn::DeriveInput>, seen: &mut BTreeSet<String>, out: &mut BTreeSet<String>) {
    if !seen.insert(di.ident.to_string()) {
        return;
    }
    let mut visit_fields = |fields: &syn::Fields, out: &mut BTreeSet<String>, seen: &mut BTreeSet<String>| {
        for f in fields {
            if let Some(id) = &f.ident {
                out.extend(transforms(&id.to_string()));
            }
            for it in recv::darling_items(&f.attrs) {
                if let darling_core::ast::NestedMeta::Meta(syn::Meta::NameValue(nv)) = it {
                    if nv.path.is_ident("rename") {
                        if let syn::Expr::Lit(syn::ExprLit { lit: syn::Lit::Str(s), .. }) = &nv.value {
                            out.insert(s.value());
                        }
                    }
                }
            }
            // nested receivers, through wrappers
            let t = ser::toks(&f.ty);
            for word in t.split(|c: char| !(c.is_alphanumeric() || c == '_')) {
                if let Some(inner) = decls.get(word) {
                    collect_names(inner, decls, seen, out);
                }
            }
        }
    };
    match &di.data {
        syn::Data::Struct(s) => visit_fields(&s.fields, out, seen),
        syn::Data::Enum(e) => {
            for v in &e.variants {
                out.extend(transforms(&v.ident.to_string()));
                for it in recv::darling_items(&v.attrs) {
                    if let darling_core::ast::NestedMeta::Meta(syn::Meta::NameValue(nv)) = it {
                        if nv.path.is_ident("rename") {
                            if let syn::Expr::Lit(syn::ExprLit { lit: syn::Lit::Str(s), .. }) = &nv.value {
                                out.insert(s.value());
                            }
                        }
                    }
                }
                visit_fields(&v.fields, out, seen);
            }
        }
        _ => {}
    }
}

pub fn collect_names_pub(di: &syn::DeriveInput, decls: &HashMap<String, syn::DeriveInput>, out: &mut BTreeSet<String>) {
    collect_names(di, decls, &mut BTreeSet::new(), out)
}
pub fn compose_pub(r: &mut Rng, info: &RecvInfo, mistakes: usize) -> (Vec<String>, usize) {
    compose(r, info, mistakes)
}

/// syn's verdict on the string literals inside a declaration's `#[darling(..)]` options
/// (paths of `default = "..."`, `map = "..."`, …; predicates of `bound = "..."`)
pub fn decl_oracle_rows(di: &syn::DeriveInput) -> Vec<Sx> {
    use syn::visit::Visit;
    struct C(Vec<String>);
    impl<'a> Visit<'a> for C {
        fn visit_lit_str(&mut self, l: &'a syn::LitStr) {
            self.0.push(l.value());
        }
    }
    let mut c = C(vec![]);
    let mut all_attrs: Vec<&syn::Attribute> = di.attrs.iter().collect();
    match &di.data {
        syn::Data::Struct(s) => s.fields.iter().for_each(|f| all_attrs.extend(f.attrs.iter())),
        syn::Data::Enum(e) => e.variants.iter().for_each(|v| {
            all_attrs.extend(v.attrs.iter());
            v.fields.iter().for_each(|f| all_attrs.extend(f.attrs.iter()));
        }),
        syn::Data::Union(u) => u.fields.named.iter().for_each(|f| all_attrs.extend(f.attrs.iter())),
    }
    for a in all_attrs {
        for it in recv::darling_items(std::slice::from_ref(a)) {
            if let darling_core::ast::NestedMeta::Meta(m) = it {
                c.visit_meta(&m);
                if let syn::Meta::List(l) = &m {
                    if let Ok(ts) = l.tokens.clone().to_string().parse::<proc_macro2::TokenStream>() {
                        for t in ts {
                            if let proc_macro2::TokenTree::Literal(lit) = t {
                                if let Ok(syn::Lit::Str(s)) = syn::parse_str::<syn::Lit>(&lit.to_string()) {
                                    c.0.push(s.value());
                                }
                            }
                        }
                    }
                }
            }
        }
    }
    let mut rows = vec![];
    c.0.sort();
    c.0.dedup();
    for s in c.0 {
        let r = crate::props::fm::parse_kind("Path", &s).map(st).unwrap_or_else(none);
        rows.push(tagged("syn", vec![st("Path"), st(s.clone()), r]));
        let w = format!("where {}", s);
        let r = crate::props::fm::parse_kind("WherePreds", &w).map(st).unwrap_or_else(none);
        rows.push(tagged("syn", vec![st("WherePreds"), st(w), r]));
    }
    rows
}

fn input_names(m: &syn::Meta, out: &mut BTreeSet<String>) {
    out.insert(darling_core::util::path_to_string(m.path()));
    if let syn::Meta::List(l) = m {
        if let Ok(items) = darling_core::ast::NestedMeta::parse_meta_list(l.tokens.clone()) {
            for it in items {
                if let darling_core::ast::NestedMeta::Meta(inner) = it {
                    input_names(&inner, out);
                }
            }
        }
    }
}

pub fn score_rows(m: &syn::Meta, candidates: &BTreeSet<String>) -> Vec<Sx> {
    let mut names = BTreeSet::new();
    input_names(m, &mut names);
    let mut rows = vec![];
    for n in &names {
        for c in candidates {
            let s = strsim::jaro_winkler(n, c);
            // only scores above the threshold region matter; ship everything >= 0.5 to keep lines short
            if s >= 0.5 {
                rows.push(tagged("sim", vec![st(n.clone()), st(c.clone()), nat(s.to_bits() as u128)]));
            }
        }
    }
    rows
}

fn mutate_name(r: &mut Rng, n: &str) -> String {
    let mut cs: Vec<char> = n.chars().collect();
    match r.below(4) {
        0 if cs.len() > 1 => {
            let i = r.below(cs.len() - 1);
            cs.swap(i, i + 1);
        }
        1 if cs.len() > 2 => {
            cs.remove(r.below(cs.len()));
        }
        2 => {
            let i = r.below(cs.len() + 1);
            cs.insert(i, *r.pick(&['a', 'e', 'x', '_']));
        }
        _ => {
            let i = r.below(cs.len());
            cs[i] = *r.pick(&['a', 'o', 'z', 'q']);
        }
    }
    let s: String = cs.into_iter().collect();
    if s.is_empty() || s.chars().next().unwrap().is_ascii_digit() || s == n {
        format!("{}x", n)
    } else {
        s
    }
}

/// compose the items of a struct receiver's list; returns (items, number of injected mistakes)
fn compose(r: &mut Rng, info: &RecvInfo, mistakes: usize) -> (Vec<String>, usize) {
    let mut items: Vec<String> = vec![];
    for f in &info.fields {
        if f.valid.is_empty() {
            continue;
        }
        if f.multiple {
            for _ in 0..r.below(4) {
                items.push(format!("{}{}", f.name, r.pick(f.valid)));
            }
        } else if f.required || r.chance(3, 5) {
            items.push(format!("{}{}", f.name, r.pick(f.valid)));
        }
    }
    if info.has_flatten && !info.flat_items.is_empty() {
        for it in *r.pick(info.flat_items) {
            items.push((*it).to_string());
        }
    }
    // names the receiver does not know are ignored where unknown fields are allowed: multi-segment
    // paths whose last segment is a known name, and plain strangers
    if info.allow_unknown && !info.has_flatten {
        for _ in 0..r.below(3) {
            let it = if !info.fields.is_empty() && r.chance(2, 3) {
                let f = r.pick(&info.fields);
                let v = if f.valid.is_empty() { " = 1" } else { *r.pick(f.valid) };
                format!("{}::{}{}", r.pick(&["ns", "other", "compat"]), f.name, v)
            } else {
                "stranger = 1".to_string()
            };
            items.push(it);
        }
    }
    r.shuffle(&mut items);
    let mut injected = 0;
    for _ in 0..mistakes {
        match r.below(7) {
            6 => {
                // a multi-segment name whose last segment is a known field
                if !info.fields.is_empty() {
                    let f = r.pick(&info.fields);
                    let v = if f.valid.is_empty() { " = 1" } else { *r.pick(f.valid) };
                    let pos = r.below(items.len() + 1);
                    items.insert(pos, format!("{}{}{}", r.pick(&["ns::", "other::", "::"]), f.name, v));
                    injected += 1;
                }
            }
            0 => {
                // unknown name near a valid / arbitrary one
                let base = if info.fields.is_empty() || r.chance(1, 4) {
                    "zzz".to_string()
                } else {
                    let nm = r.pick(&info.fields).name;
                    mutate_name(r, nm)
                };
                let pos = r.below(items.len() + 1);
                items.insert(pos, format!("{} = 1", base));
                injected += 1;
            }
            1 => {
                // repeat
                if !items.is_empty() {
                    let it = r.pick(&items).clone();
                    let pos = r.below(items.len() + 1);
                    items.insert(pos, it);
                    injected += 1;
                }
            }
            2 => {
                let pos = r.below(items.len() + 1);
                items.insert(pos, (*r.pick(&["\"lit\"", "5", "true"])).to_string());
                injected += 1;
            }
            3 => {
                // drop a required item
                let req: Vec<&str> = info.fields.iter().filter(|f| f.required).map(|f| f.name).collect();
                if !req.is_empty() {
                    let n = *r.pick(&req);
                    items.retain(|i| !(i == n || i.starts_with(&format!("{} ", n)) || i.starts_with(&format!("{}(", n))));
                    injected += 1;
                }
            }
            _ => {
                // a value the field rejects
                let bad: Vec<&crate::recv::FieldInfo> = info.fields.iter().filter(|f| !f.invalid.is_empty()).collect();
                if !bad.is_empty() {
                    let f = *r.pick(&bad);
                    let n = f.name;
                    if !f.multiple {
                        items.retain(|i| !(i == n || i.starts_with(&format!("{} ", n)) || i.starts_with(&format!("{}(", n))));
                    }
                    let pos = r.below(items.len() + 1);
                    // the last rejected sample of a nested receiver holds several mistakes at once
                    let v = if r.chance(1, 3) { f.invalid[f.invalid.len() - 1] } else { *r.pick(f.invalid) };
                    items.insert(pos, format!("{}{}", n, v));
                    injected += 1;
                }
            }
        }
    }
    (items, injected)
}

pub fn run(seed: u64, n: usize, out: &mut Out, with_mistakes: bool) {
    let no_sim = std::env::args().any(|a| a == "--no-sim");
    let src = include_str!("../corpus_fm.rs");
    let decls = recv::declarations(src);
    let recvs = corpus_fm::receivers();
    // prelude: every receiver's declaration as written, and the values of user functions
    for e in &recvs {
        let info = (e.info)();
        out.raw(&format!("decl {} FromMeta {}", info.name, ser::derive_input(&decls[info.name]).render()));
        for (k, v) in (e.vals)() {
            out.raw(&format!("oracle {}", tagged("val", vec![st(k), v]).render()));
        }
        for row in decl_oracle_rows(&decls[info.name]) {
            out.raw(&format!("oracle {}", row.render()));
        }
    }
    use crate::vals::Canon;
    out.raw(&format!("oracle {}", tagged("val", vec![st("fn:fns :: dflt_u8"), crate::fns::dflt_u8().canon()]).render()));
    out.raw(&format!("oracle {}", tagged("val", vec![st("fn:fns :: dflt_string"), crate::fns::dflt_string().canon()]).render()));
    out.raw(&format!("oracle {}", tagged("val", vec![st("fn:fns :: dflt_i64"), crate::fns::dflt_i64().canon()]).render()));
    let base = Rng::new(seed ^ if with_mistakes { 0xC02 } else { 0xC01 });
    let per = (n / recvs.len()).max(1);
    let mut id = 0usize;
    if with_mistakes {
        // witnesses of the recorded findings F25–F27 (mistakes hidden behind another mistake; the index of
        // a `multiple` occurrence): fixed shapes, on the first receivers of the corpus that fit; the outer
        // name tells the check's judge what the answer must mention
        let (mut nd, mut nc, mut ni) = (0, 0, 0);
        for e in recvs.iter() {
            let info = (e.info)();
            let mut te = e.ty.clone();
            te.kinds = vec!["Path"];
            let mut srcs: Vec<(String, String)> = vec![];
            if !info.is_enum && !info.has_flatten && !info.allow_unknown {
                for f in info.fields.iter() {
                    // a repeated (non-`multiple`) item whose second occurrence has a mistake of its own inside
                    if nd < 3 && !f.multiple {
                        if let (Some(v), Some(bad)) = (f.valid.first(), f.invalid.iter().find(|s| s.contains("zzz_unknown"))) {
                            srcs.push((format!("w-d1-{}", nd), format!("wdup({}{}, {}{})", f.name, v, f.name, bad)));
                            nd += 1;
                        }
                    }
                    // two rejected occurrences of one `multiple` field
                    if ni < 3 && f.multiple {
                        if let Some(bad) = f.invalid.iter().find(|s| s.starts_with(" = ")) {
                            srcs.push((format!("w-d3-{}", ni), format!("windex({}{}, {}{})", f.name, bad, f.name, bad)));
                            ni += 1;
                        }
                    }
                }
            }
            if info.is_enum && nc < 3 {
                // two items in an enum's list, the first with a mistake of its own inside
                if let Some(bad) = info.invalid.iter().find(|s| s.contains("zzz_unknown") && s.starts_with('(') && s.ends_with("))")) {
                    srcs.push((format!("w-d2-{}", nc), format!("wcount({}, nope)", &bad[1..bad.len() - 1])));
                    nc += 1;
                }
            }
            // keyed collections: a key whose first value is rejected is still a key that was seen
            // (fixed shapes on every receiver with a map-typed field; the repeat must be reported too)
            if !info.is_enum {
                for (fi, f) in info.fields.iter().enumerate() {
                    if !f.multiple && f.invalid.contains(&"(a = 1, a = 2)") {
                        srcs.push((format!("m-{}-{}a", info.name, fi), format!("x({}(a = 300, a = 2))", f.name)));
                        srcs.push((format!("m-{}-{}b", info.name, fi), format!("x({}(k = 1, a = \"no\", b = 2, a = 3, a = 300))", f.name)));
                    }
                }
            }
            for (wid, src) in srcs {
                if let Some(m) = parse_meta_pub(&src) {
                    let mut cands = BTreeSet::new();
                    collect_names(&decls[info.name], &decls, &mut BTreeSet::new(), &mut cands);
                    let (case, ans) = meta_case_with(&te, &m, "recv", if no_sim { vec![] } else { score_rows(&m, &cands) });
                    out.stat("finding_witnesses", 1);
                    out.case_id("recv", &wid, &case, &ans);
                }
            }
        }
    }
    for (k, e) in recvs.iter().enumerate() {
        let info = (e.info)();
        let mut cands = BTreeSet::new();
        collect_names(&decls[info.name], &decls, &mut BTreeSet::new(), &mut cands);
        let mut te = e.ty.clone();
        te.kinds = vec!["Path"];
        for j in 0..per {
            let mut r = base.fork((k * 100_003 + j) as u64);
            let (src, injected) = if info.is_enum || r.chance(1, 4) {
                // whole-value samples (nested shapes, enum forms)
                if with_mistakes && !info.invalid.is_empty() && r.chance(2, 3) {
                    (format!("x{}", r.pick(info.invalid)), 1)
                } else if !info.valid.is_empty() {
                    (format!("x{}", r.pick(info.valid)), 0)
                } else {
                    continue;
                }
            } else {
                let k = if with_mistakes { r.range(1, 4) } else { 0 };
                let (mut items, mut inj) = compose(&mut r, &info, k);
                // a name the receiver declares but cannot be addressed by (a skipped or flattened field's
                // own name): an unknown name like any other
                if with_mistakes && r.chance(1, 5) {
                    let hidden: Vec<&String> = cands
                        .iter()
                        .filter(|c| !info.fields.iter().any(|f| f.name == c.as_str()))
                        .filter(|c| !c.is_empty() && c.chars().all(|ch| ch.is_ascii_alphanumeric() || ch == '_') && !c.chars().next().unwrap().is_ascii_digit())
                        .collect();
                    if !hidden.is_empty() {
                        let pos = r.below(items.len() + 1);
                        items.insert(pos, format!("{} = 1", r.pick(&hidden)));
                        inj += 1;
                        out.stat("hidden_names_as_items", 1);
                    }
                }
                (format!("x({})", items.join(", ")), inj)
            };
            let m = match parse_meta_pub(&src) {
                Some(m) => m,
                None => {
                    out.stat("generator_inputs_not_parseable_as_meta", 1);
                    continue;
                }
            };
            let (case, ans) = meta_case_with(&te, &m, "recv", if no_sim { vec![] } else { score_rows(&m, &cands) });
            out.stat(if ans.starts_with("(ok") { "answers_ok" } else if ans.starts_with("(err") { "answers_err" } else { "answers_panic" }, 1);
            out.stat(&format!("injected_mistakes_{}", injected), 1);
            out.case_id("recv", &format!("r-{}", id), &case, &ans);
            id += 1;
        }
    }
    out.stat("receivers", recvs.len() as u64);
}

/// C09: every enum of the corpus × every input form over a superset of its variant names
pub fn run_enums(seed: u64, n: usize, out: &mut Out) {
    let src = include_str!("../corpus_fm.rs");
    let decls = recv::declarations(src);
    let recvs = corpus_fm::receivers();
    for e in &recvs {
        let info = (e.info)();
        out.raw(&format!("decl {} FromMeta {}", info.name, ser::derive_input(&decls[info.name]).render()));
        for (k, v) in (e.vals)() {
            out.raw(&format!("oracle {}", tagged("val", vec![st(k), v]).render()));
        }
        for row in decl_oracle_rows(&decls[info.name]) {
            out.raw(&format!("oracle {}", row.render()));
        }
    }
    use crate::vals::Canon;
    out.raw(&format!("oracle {}", tagged("val", vec![st("fn:fns :: dflt_u8"), crate::fns::dflt_u8().canon()]).render()));
    out.raw(&format!("oracle {}", tagged("val", vec![st("fn:fns :: dflt_string"), crate::fns::dflt_string().canon()]).render()));
    out.raw(&format!("oracle {}", tagged("val", vec![st("fn:fns :: dflt_i64"), crate::fns::dflt_i64().canon()]).render()));
    let base = Rng::new(seed ^ 0xC09);
    let mut id = 0usize;
    let enums: Vec<&corpus_fm::RecvEntry> = recvs.iter().filter(|e| (e.info)().is_enum).collect();
    let per_cap = (n / enums.len().max(1)).max(40);
    for (k, e) in enums.iter().enumerate() {
        let info = (e.info)();
        let mut cands = BTreeSet::new();
        // only this enum's own variant names (and their transforms), not nested receivers'
        if let syn::Data::Enum(en) = &decls[info.name].data {
            for v in &en.variants {
                cands.extend(transforms(&v.ident.to_string()));
                for it in recv::darling_items(&v.attrs) {
                    if let darling_core::ast::NestedMeta::Meta(syn::Meta::NameValue(nv)) = it {
                        if nv.path.is_ident("rename") {
                            if let syn::Expr::Lit(syn::ExprLit { lit: syn::Lit::Str(s), .. }) = &nv.value {
                                cands.insert(s.value());
                            }
                        }
                    }
                }
            }
        }
        let mut all_cands = BTreeSet::new();
        collect_names(&decls[info.name], &decls, &mut BTreeSet::new(), &mut all_cands);
        let mut forms: Vec<String> = vec![
            "x".into(), "x()".into(), "x(a, b)".into(), "x(\"lit\")".into(), "x = 5".into(), "x = \"zzz\"".into(), "x(zzz)".into(),
            "x = true".into(), "x(a, b, c)".into(), "x(5)".into(), "x(zzz = 1)".into(),
            // arity is judged before the form of the first item
            "x(\"lit\", a)".into(), "x(5, zzz = 1)".into(), "x(true, a, b)".into(), "x('c', \"d\")".into(), "x(a, \"lit\")".into(),
        ];
        for v in info.valid.iter().chain(info.invalid.iter()) {
            forms.push(format!("x{}", v));
        }
        for c in &cands {
            forms.push(format!("x = \"{}\"", c));
            let spellable = !c.is_empty() && c.chars().all(|ch| ch.is_ascii_alphanumeric() || ch == '_') && !c.chars().next().unwrap().is_ascii_digit();
            if spellable {
                forms.push(format!("x({})", c));
                forms.push(format!("x({} = 1)", c));
                forms.push(format!("x({} = \"s\")", c));
                forms.push(format!("x({}())", c));
                forms.push(format!("x({}(zzz = 1))", c));
                forms.push(format!("x({}, {})", c, c));
                forms.push(format!("x(\"{}\", {})", c, c));
                forms.push(format!("x(7, {} = 1, {})", c, c));
                forms.push(format!("x(ns::{})", c));
                forms.push(format!("x(other::{} = 1)", c));
                forms.push(format!("x(::{})", c));
                forms.push(format!("x(fx::{}(zzz = 1))", c));
            }
        }
        let mut r = base.fork(k as u64);
        if forms.len() > per_cap {
            r.shuffle(&mut forms);
            forms.truncate(per_cap);
        }
        let mut te = e.ty.clone();
        te.kinds = vec!["Path"];
        for f in &forms {
            let m = match parse_meta_pub(f) {
                Some(m) => m,
                None => continue,
            };
            let (case, ans) = meta_case_with(&te, &m, "recv", score_rows(&m, &all_cands));
            out.stat(if ans.starts_with("(ok") { "selected_a_variant" } else { "rejected" }, 1);
            out.case_id("recv", &format!("e-{}", id), &case, &ans);
            id += 1;
        }
        // absent form
        let case = tagged("recv", vec![st(info.name), tagged("none", vec![]), tagged("oracle", vec![])]);
        out.case_id("recv", &format!("e-{}", id), &case, &(te.none)());
        id += 1;
    }
    out.stat("enums", enums.len() as u64);
}

/// C17: unknown names at edit distance 0..3 of every name in scope (valid, skipped, enclosing,
/// flattened-in) injected into otherwise valid inputs
pub fn run_suggest(seed: u64, n: usize, out: &mut Out) {
    let no_sim = std::env::args().any(|a| a == "--no-sim");
    let src = include_str!("../corpus_fm.rs");
    let decls = recv::declarations(src);
    let recvs = corpus_fm::receivers();
    for e in &recvs {
        let info = (e.info)();
        out.raw(&format!("decl {} FromMeta {}", info.name, ser::derive_input(&decls[info.name]).render()));
        for (k, v) in (e.vals)() {
            out.raw(&format!("oracle {}", tagged("val", vec![st(k), v]).render()));
        }
        for row in decl_oracle_rows(&decls[info.name]) {
            out.raw(&format!("oracle {}", row.render()));
        }
    }
    use crate::vals::Canon;
    out.raw(&format!("oracle {}", tagged("val", vec![st("fn:fns :: dflt_u8"), crate::fns::dflt_u8().canon()]).render()));
    out.raw(&format!("oracle {}", tagged("val", vec![st("fn:fns :: dflt_string"), crate::fns::dflt_string().canon()]).render()));
    out.raw(&format!("oracle {}", tagged("val", vec![st("fn:fns :: dflt_i64"), crate::fns::dflt_i64().canon()]).render()));
    let base = Rng::new(seed ^ 0xC17);
    let per = (n / recvs.len()).max(1);
    let mut id = 0usize;
    for (k, e) in recvs.iter().enumerate() {
        let info = (e.info)();
        let mut cands = BTreeSet::new();
        collect_names(&decls[info.name], &decls, &mut BTreeSet::new(), &mut cands);
        let cand_vec: Vec<String> = cands.iter().filter(|c| !c.is_empty() && c.chars().all(|ch| ch.is_ascii_alphanumeric() || ch == '_') && !c.chars().next().unwrap().is_ascii_digit()).cloned().collect();
        if cand_vec.is_empty() {
            continue;
        }
        let mut te = e.ty.clone();
        te.kinds = vec!["Path"];
        // struct variants with a flatten field and a skipped sibling: names at distance 0 and 1 of every
        // field of the variant (the skipped ones in particular), deterministically — the enclosing names a
        // flatten member is lent must not include what the variant itself would not accept
        if info.is_enum {
            if let syn::Data::Enum(en) = &decls[info.name].data {
                for var in &en.variants {
                    let opts = |f: &syn::Field, w: &str| recv::darling_items(&f.attrs).iter().any(|it| match it {
                        darling_core::ast::NestedMeta::Meta(m) => m.path().is_ident(w),
                        _ => false,
                    });
                    if !(var.fields.iter().any(|f| opts(f, "flatten")) && var.fields.iter().any(|f| opts(f, "skip"))) {
                        continue;
                    }
                    let mut names = transforms(&var.ident.to_string());
                    for it in recv::darling_items(&var.attrs) {
                        if let darling_core::ast::NestedMeta::Meta(syn::Meta::NameValue(nv)) = it {
                            if nv.path.is_ident("rename") {
                                if let syn::Expr::Lit(syn::ExprLit { lit: syn::Lit::Str(s), .. }) = &nv.value {
                                    names.push(s.value());
                                }
                            }
                        }
                    }
                    let sample = info.valid.iter().find(|v| {
                        v.starts_with('(') && v.ends_with("))") && names.contains(&v[1..].split('(').next().unwrap_or("").trim().to_string())
                    });
                    if let Some(v) = sample {
                        let body = &v[..v.len() - 2];
                        for f in &var.fields {
                            if let Some(fid) = &f.ident {
                                for name in [fid.to_string(), format!("{}x", fid), format!("{}_", fid)] {
                                    let src = if body.ends_with('(') { format!("x{}{} = 1))", body, name) } else { format!("x{}, {} = 1))", body, name) };
                                    if let Some(m) = parse_meta_pub(&src) {
                                        let (case, ans) = meta_case_with(&te, &m, "recv", if no_sim { vec![] } else { score_rows(&m, &cands) });
                                        out.stat("variant_flatten_skip_probes", 1);
                                        out.case_id("recv", &format!("s-{}", id), &case, &ans);
                                        id += 1;
                                    }
                                }
                            }
                        }
                    }
                }
            }
        }
        for j in 0..per {
            let mut r = base.fork((k * 100_003 + j) as u64);
            let mut name = r.pick(&cand_vec).clone();
            let dist = r.below(4);
            for _ in 0..dist {
                name = mutate_name(&mut r, &name);
            }
            let src = if info.is_enum {
                // struct-like samples `(variant(items))`: the unknown name goes inside the variant's own list
                let structs: Vec<&&str> = info.valid.iter().filter(|v| v.starts_with('(') && v.ends_with("))") && v[1..].contains('(')).collect();
                match r.below(if structs.is_empty() { 3 } else { 6 }) {
                    0 => format!("x({})", name),
                    1 => format!("x({} = 1)", name),
                    2 => format!("x = \"{}\"", name),
                    _ => {
                        let v = **r.pick(&structs);
                        // prefer names close to the chosen variant's own fields (skipped and flatten ones included)
                        let head = v[1..].split('(').next().unwrap_or("").trim().to_string();
                        let mut own: Vec<String> = vec![];
                        if let syn::Data::Enum(en) = &decls[info.name].data {
                            for var in &en.variants {
                                let mut names = transforms(&var.ident.to_string());
                                for it in recv::darling_items(&var.attrs) {
                                    if let darling_core::ast::NestedMeta::Meta(syn::Meta::NameValue(nv)) = it {
                                        if nv.path.is_ident("rename") {
                                            if let syn::Expr::Lit(syn::ExprLit { lit: syn::Lit::Str(s), .. }) = &nv.value {
                                                names.push(s.value());
                                            }
                                        }
                                    }
                                }
                                if names.contains(&head) {
                                    for f in &var.fields {
                                        if let Some(id) = &f.ident {
                                            own.push(id.to_string());
                                        }
                                    }
                                }
                            }
                        }
                        if !own.is_empty() && r.chance(3, 4) {
                            name = r.pick(&own).clone();
                            for _ in 0..r.below(3) {
                                name = mutate_name(&mut r, &name);
                            }
                        }
                        let body = &v[..v.len() - 2];
                        if body.ends_with('(') {
                            format!("x{}{} = 1))", body, name)
                        } else {
                            format!("x{}, {} = 1))", body, name)
                        }
                    }
                }
            } else {
                let (mut items, _) = compose(&mut r, &info, 0);
                let pos = r.below(items.len() + 1);
                items.insert(pos, format!("{} = 1", name));
                format!("x({})", items.join(", "))
            };
            let m = match parse_meta_pub(&src) {
                Some(m) => m,
                None => continue,
            };
            let (case, ans) = meta_case_with(&te, &m, "recv", if no_sim { vec![] } else { score_rows(&m, &cands) });
            out.stat(if ans.contains("Did you mean") { "with_suggestion" } else if ans.contains("Unknown field") { "unknown_without_suggestion" } else { "no_unknown_error" }, 1);
            out.stat(&format!("edit_distance_{}", dist), 1);
            out.case_id("recv", &format!("s-{}", id), &case, &ans);
            id += 1;
        }
    }
}

/// C07: the corpus of FromMeta receivers x inputs whose list bodies are not meta syntax at some
/// depth (missing commas, stray punctuation, `=` without value, literals as names)
pub fn run_malformed(seed: u64, n: usize, out: &mut Out) {
    let no_sim = std::env::args().any(|a| a == "--no-sim");
    let src = include_str!("../corpus_fm.rs");
    let decls = recv::declarations(src);
    let recvs = corpus_fm::receivers();
    for e in &recvs {
        let info = (e.info)();
        out.raw(&format!("decl {} FromMeta {}", info.name, ser::derive_input(&decls[info.name]).render()));
        for (k, v) in (e.vals)() {
            out.raw(&format!("oracle {}", tagged("val", vec![st(k), v]).render()));
        }
        for row in decl_oracle_rows(&decls[info.name]) {
            out.raw(&format!("oracle {}", row.render()));
        }
    }
    use crate::vals::Canon;
    out.raw(&format!("oracle {}", tagged("val", vec![st("fn:fns :: dflt_u8"), crate::fns::dflt_u8().canon()]).render()));
    out.raw(&format!("oracle {}", tagged("val", vec![st("fn:fns :: dflt_string"), crate::fns::dflt_string().canon()]).render()));
    out.raw(&format!("oracle {}", tagged("val", vec![st("fn:fns :: dflt_i64"), crate::fns::dflt_i64().canon()]).render()));
    let base = Rng::new(seed ^ 0xC07A);
    let per = (n / recvs.len()).max(1);
    let mut id = 0usize;
    for (k, e) in recvs.iter().enumerate() {
        let info = (e.info)();
        let mut cands = BTreeSet::new();
        collect_names(&decls[info.name], &decls, &mut BTreeSet::new(), &mut cands);
        let mut te = e.ty.clone();
        te.kinds = vec!["Path"];
        for j in 0..per {
            let mut r = base.fork((k * 100_003 + j) as u64);
            let src = if info.is_enum || r.chance(1, 3) {
                let pool: Vec<&&str> = info.valid.iter().chain(info.invalid.iter()).collect();
                if pool.is_empty() {
                    continue;
                }
                format!("x{}", r.pick(&pool))
            } else {
                let m = r.below(2);
                let (items, _) = compose(&mut r, &info, m);
                format!("x({})", items.join(", "))
            };
            let mutated = mangle(&mut r, &src);
            let m = match parse_meta_pub(&mutated) {
                Some(m) => m,
                None => {
                    out.stat("mangled_inputs_not_parseable_as_meta", 1);
                    continue;
                }
            };
            let (case, ans) = meta_case_with(&te, &m, "recv", if no_sim { vec![] } else { score_rows(&m, &cands) });
            out.stat(if ans.starts_with("(ok") { "answers_ok" } else if ans.starts_with("(err") { "answers_err" } else { "answers_panic" }, 1);
            out.case_id("recv", &format!("m-{}", id), &case, &ans);
            id += 1;
        }
    }
}

/// 1..2 token-level mutations inside the parentheses of `src`
fn mangle(r: &mut Rng, src: &str) -> String {
    let mut s: Vec<char> = src.chars().collect();
    for _ in 0..r.range(1, 2) {
        // positions inside some parenthesis, outside string literals
        let mut depth = 0usize;
        let mut in_str = false;
        let mut commas = vec![];
        let mut opens = vec![];
        let mut prev = ' ';
        for (i, c) in s.iter().enumerate() {
            if *c == '"' && prev != '\\' {
                in_str = !in_str;
            }
            if !in_str {
                match c {
                    '(' => {
                        depth += 1;
                        opens.push((i, depth));
                    }
                    ')' => depth = depth.saturating_sub(1),
                    ',' if depth >= 1 => commas.push((i, depth)),
                    _ => {}
                }
            }
            prev = *c;
        }
        // prefer the deeper positions: that is where generated code parses lazily
        let deep_commas: Vec<usize> = commas.iter().filter(|(_, d)| *d >= 2).map(|(i, _)| *i).collect();
        let deep_opens: Vec<usize> = opens.iter().filter(|(_, d)| *d >= 2).map(|(i, _)| *i).collect();
        match r.below(4) {
            0 | 1 => {
                let pool = if !deep_commas.is_empty() && r.chance(3, 4) { deep_commas } else { commas.iter().map(|(i, _)| *i).collect() };
                if pool.is_empty() {
                    continue;
                }
                let i = *r.pick(&pool);
                s[i] = ' ';
            }
            _ => {
                let pool = if !deep_opens.is_empty() && r.chance(3, 4) { deep_opens } else { opens.iter().map(|(i, _)| *i).collect() };
                if pool.is_empty() {
                    continue;
                }
                let i = *r.pick(&pool);
                let junk: Vec<char> = r.pick(&["= =>", "=", ";", "#", "a b", "5 = 5", ", ,", "= 3", "!", "a = "]).chars().collect();
                for (k, c) in junk.iter().enumerate() {
                    s.insert(i + 1 + k, *c);
                }
                s.insert(i + 1 + junk.len(), ' ');
            }
        }
    }
    s.into_iter().collect()
}
