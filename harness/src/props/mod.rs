pub mod c04;
pub mod c05;
pub mod fm;
pub mod c18;
pub mod c19;
pub mod recvfm;
pub mod derive;
pub mod outer;
