pub mod c04;
pub mod c05;
