//! C08 / C16 / C07 (element-level receivers): the compiled corpus of FromDeriveInput /
//! FromField / FromVariant / FromTypeParam / FromAttributes receivers × generated input
//! elements.  `c08`: the same item sequence under several partitions into attributes, with
//! foreign / bare / empty attributes interleaved; `c16`: bodies, generics, visibilities,
//! discriminants; `c07`: malformed everything.
use crate::corpus_fm;
use crate::props::fm::oracle_with;
use crate::props::recvfm::{collect_names_pub, compose_pub, decl_oracle_rows, score_rows};
use crate::recv::{self, OuterEntry, OuterInfo, OuterRun};
use crate::rng::Rng;
use crate::ser;
use crate::sx::*;
use crate::Out;
use std::collections::{BTreeSet, HashMap};

const FOREIGN: &[&str] = &[
    "#[doc = \"hello\"]",
    "/** a doc comment */",
    "#[allow(dead_code)]",
    "#[allow(unused, clippy::all)]",
    "#[cfg(test)]",
    "#[derive(Debug, Clone)]",
    "#[serde(rename = \"x\", a b ; c => d)]",
    "#[foreign{x y}]",
    "#[foreign[1 2 3]]",
    "#[other = 1 + 2]",
    "#[inline]",
    "#[my::thing(lorem = 1)]",
    "#[conf::x]",
    "#[doc(hidden)]",
    "#[zzz(\"lit\", 5)]",
    "#[a::b(x = 1)]",
    "#[a::b]",
    "#[::doc = \"global\"]",
    "#[ns::cfg::deeper(x)]",
    "#[r#ref]",
    "#[r#ref(x = 1)]",
    "#[tool::r#move = 3]",
    "#[tool::r#move]",
    "#[kind(not_raw)]",
    "#[tool::r#mod::deeper]",
];

const MALFORMED: &[&str] = &[" = \"x\"", "(a b)", "(= 3)", " = 5", "(a, , b)", "(a = )", "{a = 1}", "[a]", "(a(b c))", "(1 = 2)", "(a = 1 b = 2)"];

pub struct Ctx {
    pub decls: HashMap<String, syn::DeriveInput>,
    pub entries: Vec<OuterEntry>,
    pub index: HashMap<String, usize>,
    pub cands: Vec<BTreeSet<String>>,
}

impl Ctx {
    pub fn new() -> Ctx {
        let decls = recv::declarations(include_str!("../corpus_fm.rs"));
        let entries = corpus_fm::outer_receivers();
        let mut index = HashMap::new();
        let mut cands = vec![];
        for (i, e) in entries.iter().enumerate() {
            let info = (e.info)();
            index.insert(info.base.name.to_string(), i);
            let mut c = BTreeSet::new();
            collect_names_pub(&decls[info.base.name], &decls, &mut c);
            cands.push(c);
        }
        Ctx { decls, entries, index, cands }
    }

    /// names of the outer receivers mentioned in the type of the `data` / `fields` member
    fn entry_types(&self, name: &str) -> Vec<usize> {
        let mut v = vec![];
        if let syn::Data::Struct(s) = &self.decls[name].data {
            for f in &s.fields {
                let id = f.ident.as_ref().map(|i| i.to_string()).unwrap_or_default();
                if id == "data" || id == "fields" {
                    let t = ser::toks(&f.ty);
                    for w in t.split(|c: char| !(c.is_alphanumeric() || c == '_')) {
                        if let Some(i) = self.index.get(w) {
                            v.push(*i);
                        }
                    }
                }
            }
        }
        v
    }
}

pub fn prelude(out: &mut Out, ctx: &Ctx) {
    let recvs = corpus_fm::receivers();
    for e in &recvs {
        let info = (e.info)();
        out.raw(&format!("decl {} FromMeta {}", info.name, ser::derive_input(&ctx.decls[info.name]).render()));
        for (k, v) in (e.vals)() {
            out.raw(&format!("oracle {}", tagged("val", vec![st(k), v]).render()));
        }
        for row in decl_oracle_rows(&ctx.decls[info.name]) {
            out.raw(&format!("oracle {}", row.render()));
        }
    }
    for e in &ctx.entries {
        let info = (e.info)();
        let tr = match info.kind {
            "FD" => "FromDeriveInput",
            "FF" => "FromField",
            "FV" => "FromVariant",
            "FT" => "FromTypeParam",
            _ => "FromAttributes",
        };
        out.raw(&format!("decl {} {} {}", info.base.name, tr, ser::derive_input(&ctx.decls[info.base.name]).render()));
        for row in decl_oracle_rows(&ctx.decls[info.base.name]) {
            out.raw(&format!("oracle {}", row.render()));
        }
    }
    use crate::vals::Canon;
    out.raw(&format!("oracle {}", tagged("val", vec![st("fn:fns :: dflt_u8"), crate::fns::dflt_u8().canon()]).render()));
    out.raw(&format!("oracle {}", tagged("val", vec![st("fn:fns :: dflt_string"), crate::fns::dflt_string().canon()]).render()));
    out.raw(&format!("oracle {}", tagged("val", vec![st("fn:fns :: dflt_i64"), crate::fns::dflt_i64().canon()]).render()));
}

#[derive(Clone, Copy, PartialEq)]
pub enum Mode {
    Valid,
    Mistakes,
    Malformed,
}

/// split `items` into contiguous chunks, one attribute each, names drawn from `names`
fn partition(r: &mut Rng, items: &[String], names: &[&str]) -> Vec<String> {
    let mut attrs = vec![];
    let mut i = 0;
    while i < items.len() {
        let take = 1 + r.below(items.len() - i);
        let take = if r.chance(1, 3) { 1 } else { take };
        // a name declared `::`-rooted selects the un-rooted spelling too (and the reverse)
        let nm = *r.pick(names);
        let nm = if nm.starts_with("::") && r.chance(1, 2) { &nm[2..] } else { nm };
        attrs.push(format!("#[{}({})]", nm, items[i..i + take].join(", ")));
        i += take;
    }
    attrs
}

/// interleave inert attributes: foreign ones, and bare / empty selected ones
fn interleave(r: &mut Rng, attrs: &mut Vec<String>, names: &[&str], k: usize) {
    for _ in 0..k {
        let pos = r.below(attrs.len() + 1);
        let a = match r.below(5) {
            0 => format!("#[{}]", r.pick(names)),
            1 => format!("#[{}()]", r.pick(names)),
            _ => (*r.pick(FOREIGN)).to_string(),
        };
        attrs.insert(pos, a);
    }
}

/// the attribute lines for one element parsed by `info`
pub fn gen_attrs(r: &mut Rng, info: &OuterInfo, mode: Mode) -> Vec<String> {
    let mistakes = match mode {
        Mode::Valid => 0,
        Mode::Mistakes => r.range(1, 3),
        Mode::Malformed => r.below(3),
    };
    let (items, _) = compose_pub(r, &info.base, mistakes);
    let mut attrs = partition(r, &items, info.attr_names);
    let k = r.below(4);
    interleave(r, &mut attrs, info.attr_names, k);
    if mode == Mode::Malformed {
        for _ in 0..r.range(1, 3) {
            let pos = r.below(attrs.len() + 1);
            attrs.insert(pos, format!("#[{}{}]", r.pick(info.attr_names), r.pick(MALFORMED)));
        }
    }
    attrs
}

const TYPES: &[&str] = &["u8", "String", "Vec<u8>", "&'a str", "Option<T>", "(u8, T)", "[u8; 4]", "Box<dyn Fn(u8) -> T>", "std::collections::HashMap<String, T>"];
const VISES: &[&str] = &["", "pub ", "pub(crate) ", "pub(super) ", "pub(in crate::a) "];
const IDENTS: &[&str] = &["alpha", "r#type", "beta", "gamma", "delta", "x", "y1", "snake_name"];
const TIDENTS: &[&str] = &["Foo", "Bar", "Lorem", "Ipsum", "X"];

struct Gen<'a> {
    ctx: &'a Ctx,
    mode: Mode,
}

impl<'a> Gen<'a> {
    fn attrs_for(&self, r: &mut Rng, who: Option<usize>) -> String {
        match who {
            Some(i) => {
                let info = (self.ctx.entries[i].info)();
                // nested entries are mostly valid so that body conversion mostly succeeds
                let mode = if self.mode == Mode::Valid || r.chance(2, 3) { Mode::Valid } else { self.mode };
                gen_attrs(r, &info, mode).join(" ")
            }
            None => {
                let mut v = vec![];
                let k = r.below(3);
                for _ in 0..k {
                    v.push((*r.pick(FOREIGN)).to_string());
                }
                v.join(" ")
            }
        }
    }

    fn field(&self, r: &mut Rng, who: Option<usize>, named: bool, idx: usize) -> String {
        let a = self.attrs_for(r, who);
        let vis = *r.pick(VISES);
        let ty = *r.pick(TYPES);
        if named {
            format!("{} {}{}: {}", a, vis, IDENTS[idx % IDENTS.len()], ty)
        } else {
            format!("{} {}{}", a, vis, ty)
        }
    }

    fn fields(&self, r: &mut Rng, who: Option<usize>, max: usize) -> String {
        let n = r.below(max + 1);
        match r.below(3) {
            0 => String::new(),
            1 => format!("({})", (0..n).map(|i| self.field(r, who, false, i)).collect::<Vec<_>>().join(", ")),
            _ => format!("{{ {} }}", (0..n).map(|i| self.field(r, who, true, i)).collect::<Vec<_>>().join(", ")),
        }
    }

    fn variant(&self, r: &mut Rng, me: Option<usize>, idx: usize) -> String {
        let a = self.attrs_for(r, me);
        let fwho = me.and_then(|i| {
            let info = (self.ctx.entries[i].info)();
            self.ctx.entry_types(info.base.name).into_iter().find(|j| (self.ctx.entries[*j].info)().kind == "FF")
        });
        let body = self.fields(r, fwho, 4);
        // explicit discriminants, on field-carrying variants too (legal with a primitive repr)
        let disc = if r.chance(1, 3) { *r.pick(&[" = 3", " = 1 + 2", " = -1", " = FOO as isize"]) } else { "" };
        format!("{} V{}{}{}", a, idx, body, disc)
    }

    fn generics(&self, r: &mut Rng) -> (String, String) {
        if r.chance(1, 2) {
            // no parameter list; a where-clause is still possible
            let w = if r.chance(1, 4) { *r.pick(&["where String: Clone", "where u8: Copy, Vec<u8>: Default", "where"]) } else { "" };
            return (String::new(), w.to_string());
        }
        let g = *r.pick(&["<T>", "<'a, T: Clone + 'a>", "<T, U = u8>", "<const N: usize>", "<'a, 'b: 'a, T: ?Sized>", "<T: Iterator<Item = u8>, const N: usize = 3>"]);
        let w = if r.chance(1, 2) { *r.pick(&["where T: Default", "where T: 'static + Send, Vec<T>: Clone", "where for<'x> &'x T: Copy", "where"]) } else { "" };
        (g.to_string(), w.to_string())
    }

    fn derive_input(&self, r: &mut Rng, me: usize) -> String {
        let info = (self.ctx.entries[me].info)();
        let a = gen_attrs(r, &info, self.mode).join("\n");
        let ets = self.ctx.entry_types(info.base.name);
        let fwho = ets.iter().cloned().find(|j| (self.ctx.entries[*j].info)().kind == "FF");
        let vwho = ets.iter().cloned().find(|j| (self.ctx.entries[*j].info)().kind == "FV");
        let vis = *r.pick(VISES);
        let name = *r.pick(TIDENTS);
        let (g, w) = self.generics(r);
        let which = r.below(if self.mode == Mode::Valid { 8 } else { 9 });
        match which {
            0..=3 => {
                let body = self.fields(r, fwho, 6);
                if body.starts_with('{') {
                    format!("{}\n{}struct {}{} {} {}", a, vis, name, g, w, body)
                } else {
                    format!("{}\n{}struct {}{}{} {};", a, vis, name, g, body, w)
                }
            }
            4..=7 => {
                let n = r.below(7);
                let vs: Vec<String> = (0..n).map(|i| self.variant(r, vwho, i)).collect();
                format!("{}\n{}enum {}{} {} {{ {} }}", a, vis, name, g, w, vs.join(", "))
            }
            _ => format!("{}\n{}union {}{} {} {{ a: u8, b: u16 }}", a, vis, name, g, w),
        }
    }
}

fn oracle_rows(attrs: &[syn::Attribute], cands: &BTreeSet<String>, no_sim: bool) -> Vec<Sx> {
    let mut rows = vec![];
    for a in attrs {
        if let Sx::List(mut v) = oracle_with(&a.meta, &["Path"]) {
            v.remove(0);
            rows.extend(v);
        }
        if !no_sim {
            rows.extend(score_rows(&a.meta, cands));
        }
    }
    rows
}

fn all_attrs_of_di(di: &syn::DeriveInput) -> Vec<syn::Attribute> {
    let mut v: Vec<syn::Attribute> = di.attrs.clone();
    match &di.data {
        syn::Data::Struct(s) => s.fields.iter().for_each(|f| v.extend(f.attrs.iter().cloned())),
        syn::Data::Enum(e) => e.variants.iter().for_each(|x| {
            v.extend(x.attrs.iter().cloned());
            x.fields.iter().for_each(|f| v.extend(f.attrs.iter().cloned()));
        }),
        syn::Data::Union(u) => u.fields.named.iter().for_each(|f| v.extend(f.attrs.iter().cloned())),
    }
    v
}

struct OuterAttrs(Vec<syn::Attribute>);
impl syn::parse::Parse for OuterAttrs {
    fn parse(input: syn::parse::ParseStream) -> syn::Result<Self> {
        Ok(OuterAttrs(input.call(syn::Attribute::parse_outer)?))
    }
}
struct NamedField(syn::Field);
impl syn::parse::Parse for NamedField {
    fn parse(input: syn::parse::ParseStream) -> syn::Result<Self> {
        Ok(NamedField(input.call(syn::Field::parse_named)?))
    }
}
struct UnnamedField(syn::Field);
impl syn::parse::Parse for UnnamedField {
    fn parse(input: syn::parse::ParseStream) -> syn::Result<Self> {
        Ok(UnnamedField(input.call(syn::Field::parse_unnamed)?))
    }
}

/// one case: the element source text for receiver `me`; returns (case, answer)
/// every other explicit discriminant arrives inside an invisible group, as an `$e:expr` fragment does
/// (decided by the expression's tokens alone, so that all partitions of one group see the same element)
fn group_discriminant(v: &mut syn::Variant) {
    if let Some((_, e)) = &mut v.discriminant {
        if ser::toks(e).len() % 2 == 1 {
            let span = syn::spanned::Spanned::span(&*e);
            *e = syn::Expr::Group(syn::ExprGroup { attrs: vec![], group_token: syn::token::Group { span }, expr: Box::new(e.clone()) });
        }
    }
}

pub fn case_from_source(ctx: &Ctx, me: usize, src: &str, no_sim: bool) -> Option<(Sx, String)> {
    let e = &ctx.entries[me];
    let info = (e.info)();
    // suggestion candidates: own names and those of every entry receiver
    let mut cands = ctx.cands[me].clone();
    for j in ctx.entry_types(info.base.name) {
        cands.extend(ctx.cands[j].iter().cloned());
        let jn = (ctx.entries[j].info)().base.name;
        for k in ctx.entry_types(jn) {
            cands.extend(ctx.cands[k].iter().cloned());
        }
    }
    let (el, ans, attrs, ident): (Sx, String, Vec<syn::Attribute>, String) = match &e.run {
        OuterRun::Fdi(f) => {
            let mut di: syn::DeriveInput = syn::parse_str(src).ok()?;
            if let syn::Data::Enum(en) = &mut di.data {
                en.variants.iter_mut().for_each(group_discriminant);
            }
            if let syn::Data::Struct(s) = &mut di.data {
                for fld in s.fields.iter_mut() {
                    if ser::toks(&fld.ty).len() % 3 == 0 {
                        let span = syn::spanned::Spanned::span(&fld.ty);
                        fld.ty = syn::Type::Group(syn::TypeGroup { group_token: syn::token::Group { span }, elem: Box::new(fld.ty.clone()) });
                    }
                }
            }
            (tagged("di", vec![ser::derive_input(&di)]), f(&di), all_attrs_of_di(&di), di.ident.to_string())
        }
        OuterRun::Ff(f) => {
            let mut fld = syn::parse_str::<NamedField>(src).map(|x| x.0).or_else(|_| syn::parse_str::<UnnamedField>(src).map(|x| x.0)).ok()?;
            // every fifth field type arrives inside an invisible group, as a `$t:ty` fragment does
            // (decided by the type alone, so that all partitions of one group see the same element)
            if ser::toks(&fld.ty).len() % 3 == 0 {
                let span = syn::spanned::Spanned::span(&fld.ty);
                fld.ty = syn::Type::Group(syn::TypeGroup { group_token: syn::token::Group { span }, elem: Box::new(fld.ty.clone()) });
            }
            (tagged("fld", vec![ser::field(&fld)]), f(&fld), fld.attrs.clone(), String::new())
        }
        OuterRun::Fv(f) => {
            let mut v: syn::Variant = syn::parse_str(src).ok()?;
            group_discriminant(&mut v);
            let mut at = v.attrs.clone();
            v.fields.iter().for_each(|x| at.extend(x.attrs.iter().cloned()));
            (tagged("var", vec![ser::variant(&v)]), f(&v), at, String::new())
        }
        OuterRun::Ft(f) => {
            let t: syn::TypeParam = syn::parse_str(src).ok()?;
            (tagged("tp", vec![ser::type_param(&t)]), f(&t), t.attrs.clone(), String::new())
        }
        OuterRun::Fa(f) => {
            let a = syn::parse_str::<OuterAttrs>(src).ok()?.0;
            (tagged("attrs", a.iter().map(ser::attr).collect()), f(&a), a.clone(), String::new())
        }
    };
    let mut rows = oracle_rows(&attrs, &cands, no_sim);
    for (k, v) in (e.vals)(&ident) {
        rows.push(tagged("val", vec![st(k), v]));
    }
    let case = tagged("outer", vec![st(info.base.name), el, tagged("oracle", rows)]);
    Some((case, ans))
}

fn element_source(g: &Gen, r: &mut Rng, me: usize) -> String {
    let info = (g.ctx.entries[me].info)();
    match info.kind {
        "FD" => g.derive_input(r, me),
        "FF" => {
            let named = r.chance(3, 4);
            let idx = r.below(8);
            g.field(r, Some(me), named, idx)
        }
        "FV" => {
            let idx = r.below(5);
            g.variant(r, Some(me), idx)
        }
        "FT" => {
            let a = gen_attrs(r, &info, g.mode).join(" ");
            let b = *r.pick(&["", ": Clone", ": Clone + 'a + ?Sized", ": Iterator<Item = u8>"]);
            let d = *r.pick(&["", "", " = u8", " = Vec<String>"]);
            format!("{} T{}{}", a, b, d)
        }
        _ => gen_attrs(r, &info, g.mode).join("\n"),
    }
}

fn tally(out: &mut Out, ans: &str) {
    out.stat(if ans.starts_with("(ok") { "answers_ok" } else if ans.starts_with("(err") { "answers_err" } else { "answers_panic" }, 1);
}

/// C16 / C07: one element per case
pub fn run(seed: u64, n: usize, out: &mut Out, mode: Mode, tag: u64) {
    let no_sim = std::env::args().any(|a| a == "--no-sim");
    let ctx = Ctx::new();
    prelude(out, &ctx);
    let g = Gen { ctx: &ctx, mode };
    let base = Rng::new(seed ^ tag);
    let per = (n / ctx.entries.len()).max(1);
    let mut id = 0usize;
    for me in 0..ctx.entries.len() {
        let kind = (ctx.entries[me].info)().kind;
        for j in 0..per {
            let mut r = base.fork((me * 100_003 + j) as u64);
            let src = element_source(&g, &mut r, me);
            match case_from_source(&ctx, me, &src, no_sim) {
                Some((case, ans)) => {
                    tally(out, &ans);
                    out.stat(&format!("elements_{}", kind), 1);
                    out.case_id("recv", &format!("o-{}", id), &case, &ans);
                    id += 1;
                }
                None => out.stat("generator_inputs_not_parseable", 1),
            }
        }
    }
    out.stat("receivers", ctx.entries.len() as u64);
}

/// C08: per receiver and item sequence, several partitions; the harness also compares the
/// implementation's answers across the partitions of one sequence (value, or error rows without
/// spans) and records disagreements as `meta` cases that the model must also explain
pub fn run_partitions(seed: u64, n: usize, out: &mut Out) {
    let no_sim = std::env::args().any(|a| a == "--no-sim");
    let ctx = Ctx::new();
    prelude(out, &ctx);
    let base = Rng::new(seed ^ 0xC08);
    let groups = (n / (ctx.entries.len() * 4)).max(1);
    let mut id = 0usize;
    // F16 witness on the fixed receiver `FAW { f: i64, g: i64 (default) }`: the same two items in one
    // attribute and split over two
    {
        let me = ctx.index["FAW"];
        for (p, src) in ["#[a(f = -9, g = 1)]", "#[a(f = -9)]\n#[a(g = 1)]"].iter().enumerate() {
            let (case, ans) = case_from_source(&ctx, me, src, no_sim).expect("the F16 witness parses");
            out.case_id("recv", &format!("p-w-{}", p), &case, &ans);
        }
    }
    for me in 0..ctx.entries.len() {
        let info = (ctx.entries[me].info)();
        for j in 0..groups {
            let mut r = base.fork((me * 100_003 + j) as u64);
            let mistakes = if r.chance(1, 2) { 0 } else { r.range(1, 3) };
            let (items, _) = compose_pub(&mut r, &info.base, mistakes);
            // unquoted negative numbers are parsed by syn as a literal only at the end of an
            // attribute (known finding F16, witnessed by the fixed groups `p-w-*` below); the
            // random groups spell them quoted
            let items: Vec<String> = items.into_iter().map(quote_negative).collect();
            // the rest of the element is fixed within the group
            let rest = match info.kind {
                "FD" => *r.pick(&["struct Foo { a: u8 }", "pub struct Foo<T>(T);", "enum Foo { A, B(u8) }", "struct Foo;", "pub(crate) enum Foo {}"]),
                "FF" => *r.pick(&["pub alpha: u8", "beta: Vec<String>", "pub(crate) u16"]),
                "FV" => *r.pick(&["V1", "V2(u8)", "V3 { a: u8 }", "V4 = 3"]),
                "FT" => *r.pick(&["T", "T: Clone", "T: Clone = u8"]),
                _ => "",
            };
            let foreign: Vec<String> = (0..r.below(3)).map(|_| (*r.pick(FOREIGN)).to_string()).collect();
            let mut answers: Vec<String> = vec![];
            for p in 0..4 {
                let mut attrs = if p == 0 && !items.is_empty() {
                    vec![format!("#[{}({})]", info.attr_names[0], items.join(", "))]
                } else {
                    partition(&mut r, &items, info.attr_names)
                };
                // the forwarded attributes must stay the same list in the same order: insert the
                // group's foreign attributes in order at random positions
                let mut pos: Vec<usize> = foreign.iter().map(|_| r.below(attrs.len() + 1)).collect();
                pos.sort();
                for (k, f) in foreign.iter().enumerate() {
                    attrs.insert(pos[k] + k, f.clone());
                }
                if p > 0 {
                    for _ in 0..r.below(3) {
                        let at = r.below(attrs.len() + 1);
                        attrs.insert(at, if r.chance(1, 2) { format!("#[{}]", r.pick(info.attr_names)) } else { format!("#[{}()]", r.pick(info.attr_names)) });
                    }
                }
                let src = format!("{}\n{}", attrs.join("\n"), rest);
                match case_from_source(&ctx, me, &src, no_sim) {
                    Some((case, ans)) => {
                        tally(out, &ans);
                        out.stat(&format!("partition_attrs_{}", attrs.len().min(6)), 1);
                        out.case_id("recv", &format!("p-{}-{}", id, p), &case, &ans);
                        answers.push(strip_spans(&ans));
                    }
                    None => out.stat("generator_inputs_not_parseable", 1),
                }
            }
            // metamorphic relation on the implementation alone
            let agree = answers.windows(2).all(|w| w[0] == w[1]);
            out.stat(if agree { "groups_invariant" } else { "groups_not_invariant" }, 1);
            id += 1;
        }
    }
    out.stat("receivers", ctx.entries.len() as u64);
}

/// drop `(sp lo hi)` groups and the byte offsets inside printed attributes
pub fn strip_spans(s: &str) -> String {
    let mut out = String::new();
    let b: Vec<char> = s.chars().collect();
    let mut i = 0;
    while i < b.len() {
        if b[i] == '(' && i + 3 < b.len() && b[i + 1] == 's' && b[i + 2] == 'p' && b[i + 3] == ' ' {
            while i < b.len() && b[i] != ')' {
                i += 1;
            }
            i += 1;
            out.push_str("sp");
            continue;
        }
        out.push(b[i]);
        i += 1;
    }
    out
}

/// C16 (printing): `Fields::<syn::Field>::try_from(..)` re-printed, white space removed, against
/// the model's rendering of the original fields
pub fn run_print(seed: u64, n: usize, out: &mut Out) {
    let ctx = Ctx::new();
    let g = Gen { ctx: &ctx, mode: Mode::Valid };
    let base = Rng::new(seed ^ 0xC16F);
    let strip = |s: String| -> String { s.chars().filter(|c| !c.is_whitespace()).collect() };
    for id in 0..n {
        let mut r = base.fork(id as u64);
        let body = g.fields(&mut r, None, 6);
        let src = if body.starts_with('{') { format!("struct X {}", body) } else { format!("struct X {};", body) };
        let di: syn::DeriveInput = match syn::parse_str(&src) {
            Ok(d) => d,
            Err(_) => {
                out.stat("generator_inputs_not_parseable", 1);
                continue;
            }
        };
        let fields = match &di.data {
            syn::Data::Struct(s) => s.fields.clone(),
            _ => unreachable!(),
        };
        let conv = std::panic::catch_unwind(std::panic::AssertUnwindSafe(|| darling::ast::Fields::<syn::Field>::try_from(&fields)));
        let ans = match conv {
            Ok(Ok(f)) => {
                out.stat(&format!("fields_{}", f.fields.len()), 1);
                st(strip(ser::toks(&f))).render()
            }
            Ok(Err(_)) => "(err)".to_string(),
            Err(_) => "(panic)".to_string(),
        };
        let case = tagged("fieldsprint", vec![ser::style(&fields), list(fields.iter().map(|f| st(strip(ser::toks(f)))).collect())]);
        out.case_id("recv", &format!("fp-{}", id), &case, &ans);
    }
}

fn quote_negative(item: String) -> String {
    if let Some(pos) = item.find(" = -") {
        let v = &item[pos + 3..];
        if v.len() > 1 && v[1..].chars().all(|c| c.is_ascii_alphanumeric() || c == '.' || c == '_') {
            return format!("{} = \"{}\"", &item[..pos], v);
        }
    }
    item
}
