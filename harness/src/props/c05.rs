//! C05: operation histories on the real `Accumulator`.
use crate::canon::*;
use crate::rng::Rng;
use crate::sx::*;
use crate::Out;
use darling_core::error::Accumulator;
use darling_core::Error;
use std::panic::{catch_unwind, AssertUnwindSafe};

/// a small error value and its wire form (a model `Err` tree)
fn gen_err(r: &mut Rng, pool: &SpanPool, counter: &mut usize, depth: usize) -> (Error, Sx) {
    if depth > 0 && r.chance(1, 5) {
        let k = r.range(2, 3);
        let mut es = vec![];
        let mut sxs = vec![];
        for _ in 0..k {
            let (e, s) = gen_err(r, pool, counter, depth - 1);
            es.push(e);
            sxs.push(s);
        }
        let mut e = Error::multiple(es);
        let mut locs = vec![];
        if r.chance(1, 2) {
            e = e.at("m");
            locs.push(st("m"));
        }
        return (e, tagged("multi", vec![list(sxs), list(locs), none()]));
    }
    *counter += 1;
    let name = format!("e{}", counter);
    let mut e = match r.below(3) {
        0 => Error::custom(&name),
        1 => Error::missing_field(&name),
        _ => Error::unknown_field(&name),
    };
    let kind = match e.to_string() {
        s if s.starts_with("Missing") => tagged("missing", vec![st(&name)]),
        s if s.starts_with("Unknown") => tagged("unknown", vec![st(&name), none()]),
        _ => tagged("custom", vec![st(&name)]),
    };
    let mut locs = vec![];
    if r.chance(1, 3) {
        e = e.at("loc");
        locs.push(st("loc"));
    }
    let mut sp = none();
    if r.chance(1, 3) {
        let i = r.below(pool.spans.len());
        e = e.with_span(&pool.spans[i]);
        let (lo, hi) = pool.range(i);
        sp = tagged("sp", vec![nat(lo as u128), nat(hi as u128)]);
    }
    (e, tagged("leaf", vec![kind, list(locs), sp]))
}

struct Unwinder;

thread_local! {
    static UNWIND_MEMO: std::cell::RefCell<std::collections::HashMap<usize, Sx>> = std::cell::RefCell::new(Default::default());
}

/// child entry point: an accumulator holding `n` errors is dropped by an unrelated panic
pub fn child_drop_during_unwind(n: usize) -> ! {
    let res = catch_unwind(AssertUnwindSafe(move || {
        let mut a = Error::accumulator();
        for i in 0..n {
            a.push(Error::custom(format!("e{}", i)));
        }
        let _keep = a;
        std::panic::resume_unwind(Box::new("harness-unwind"));
    }));
    match res {
        Err(p) if p.downcast_ref::<&str>() == Some(&"harness-unwind") => std::process::exit(0),
        _ => std::process::exit(3),
    }
}

fn unwind_drop_outcome(n: usize) -> Sx {
    UNWIND_MEMO.with(|m| {
        if let Some(v) = m.borrow().get(&n) {
            return v.clone();
        }
        let exe = std::env::current_exe().unwrap();
        let status = std::process::Command::new(exe)
            .args(["c05-child", &n.to_string()])
            .stderr(std::process::Stdio::null())
            .status()
            .unwrap();
        let v = if status.code() == Some(0) { atom("quiet") } else { tagged("panic", vec![st("process aborted: panic inside drop while unwinding".to_string())]) };
        m.borrow_mut().insert(n, v.clone());
        v
    })
}

/// what a history has produced so far; kept outside `gen_case` so that a panic inside an operation
/// (which no operation of the unchanged code does) still leaves a case and a trace to report
#[derive(Default)]
pub struct Partial {
    pub ops: Vec<Sx>,
    pub trace: Vec<Sx>,
}

pub fn gen_case(r: &mut Rng, pool: &SpanPool, partial: &std::cell::RefCell<Partial>) -> (Sx, String, usize, &'static str) {
    let n_ops = r.below(16);
    let mut counter = 0usize;
    // both public ways to obtain an accumulator
    let mut acc: Option<Accumulator> = Some(if r.chance(1, 3) { Accumulator::default() } else { Error::accumulator() });
    let mut recorded = 0usize;
    // a generator bias: half of the histories record nothing, so that the Ok side is exercised
    let quiet = r.chance(2, 5);
    for _ in 0..n_ops {
        let a = acc.as_mut().unwrap();
        let w = r.below(100);
        let errw = if quiet { 0 } else { 100 };
        if w < 15 * errw / 100 {
            let (e, s) = gen_err(r, pool, &mut counter, 2);
            a.push(e);
            recorded += 1;
            partial.borrow_mut().ops.push(tagged("push", vec![s]));
            partial.borrow_mut().trace.push(atom("unit"));
        } else if w < 35 {
            let v = r.below(100);
            let got = a.handle(Ok::<usize, Error>(v));
            partial.borrow_mut().ops.push(tagged("hok", vec![nat(v as u128)]));
            partial.borrow_mut().trace.push(match got {
                Some(v) => tagged("some", vec![nat(v as u128)]),
                None => none(),
            });
        } else if w < 35 + 15 * errw / 100 {
            let (e, s) = gen_err(r, pool, &mut counter, 2);
            let got = a.handle(Err::<usize, Error>(e));
            recorded += 1;
            partial.borrow_mut().ops.push(tagged("herr", vec![s]));
            partial.borrow_mut().trace.push(match got {
                Some(v) => tagged("some", vec![nat(v as u128)]),
                None => none(),
            });
        } else if w < 60 {
            let v = r.below(100);
            let got = a.handle_in(|| Ok::<usize, Error>(v));
            partial.borrow_mut().ops.push(tagged("hiok", vec![nat(v as u128)]));
            partial.borrow_mut().trace.push(match got {
                Some(v) => tagged("some", vec![nat(v as u128)]),
                None => none(),
            });
        } else if w < 60 + 10 * errw / 100 {
            let (e, s) = gen_err(r, pool, &mut counter, 2);
            let got = a.handle_in(|| Err::<usize, Error>(e));
            recorded += 1;
            partial.borrow_mut().ops.push(tagged("hierr", vec![s]));
            partial.borrow_mut().trace.push(match got {
                Some(v) => tagged("some", vec![nat(v as u128)]),
                None => none(),
            });
        } else if w < 80 {
            let k = if quiet { 0 } else { r.below(4) };
            let mut es = vec![];
            let mut sxs = vec![];
            for _ in 0..k {
                let (e, s) = gen_err(r, pool, &mut counter, 1);
                es.push(e);
                sxs.push(s);
            }
            recorded += k;
            // every kind of iterator `Extend` may be handed: exact-size, filtered (upper bound only),
            // unbounded size hint (`from_fn`), and darling's own `IntoIter` of a bundle
            match r.below(4) {
                0 => a.extend(es),
                1 => a.extend(es.into_iter().filter(|_| true)),
                2 => {
                    let mut it = es.into_iter();
                    a.extend(std::iter::from_fn(move || it.next()));
                }
                _ => {
                    if es.len() >= 2 {
                        a.extend(Error::multiple(es));
                    } else {
                        a.extend(es);
                    }
                }
            }
            partial.borrow_mut().ops.push(tagged("extend", sxs));
            partial.borrow_mut().trace.push(atom("unit"));
        } else {
            partial.borrow_mut().ops.push(tagged("checkpoint", vec![]));
            match acc.take().unwrap().checkpoint() {
                Ok(fresh) => {
                    acc = Some(fresh);
                    partial.borrow_mut().trace.push(atom("fresh"));
                }
                Err(e) => {
                    partial.borrow_mut().trace.push(tagged("err", vec![obs_err(&e)]));
                    break;
                }
            }
        }
    }
    let end_kind;
    let end = match r.below(6) {
        0 => {
            end_kind = "finish";
            tagged("finish", vec![])
        }
        1 | 2 => {
            end_kind = "finish_with";
            tagged("finishwith", vec![nat(r.below(1000) as u128)])
        }
        3 => {
            end_kind = "into_inner";
            tagged("intoinner", vec![])
        }
        4 => {
            end_kind = "drop";
            tagged("drop", vec![boolean(false)])
        }
        _ => {
            end_kind = "drop_unwinding";
            tagged("drop", vec![boolean(true)])
        }
    };
    if let Some(a) = acc.take() {
        let out = match &end {
            Sx::List(v) => match v[0] {
                Sx::Atom(ref t) if t == "finish" => match a.finish() {
                    Ok(()) => atom("ok-unit"),
                    Err(e) => tagged("err", vec![obs_err(&e)]),
                },
                Sx::Atom(ref t) if t == "finishwith" => {
                    let n: usize = match &v[1] {
                        Sx::Atom(s) => s.parse().unwrap(),
                        _ => 0,
                    };
                    match a.finish_with(n) {
                        Ok(v) => tagged("ok", vec![nat(v as u128)]),
                        Err(e) => tagged("err", vec![obs_err(&e)]),
                    }
                }
                Sx::Atom(ref t) if t == "intoinner" => {
                    let es = a.into_inner();
                    tagged("errs", es.iter().map(obs_err).collect())
                }
                _ => {
                    let unwinding = v[1] == boolean(true);
                    if !unwinding {
                        match catch_unwind(AssertUnwindSafe(move || drop(a))) {
                            Ok(()) => atom("quiet"),
                            Err(p) => {
                                let msg = p
                                    .downcast_ref::<String>()
                                    .cloned()
                                    .or_else(|| p.downcast_ref::<&str>().map(|s| s.to_string()))
                                    .unwrap_or_default();
                                tagged("panic", vec![st(msg)])
                            }
                        }
                    } else {
                        // drop while another panic unwinds: a bomb that goes off aborts the
                        // whole process, so the real drop runs in a child process (memoised by
                        // the number of recorded errors, the only thing the destructor reads)
                        let n = a.into_inner().len();
                        unwind_drop_outcome(n)
                    }
                }
            },
            _ => unreachable!(),
        };
        partial.borrow_mut().trace.push(out);
    }
    let _ = Unwinder;
    let p = partial.borrow();
    (
        tagged("hist", vec![list(p.ops.clone()), end]),
        tagged("trace", p.trace.clone()).render(),
        recorded,
        end_kind,
    )
}

pub fn run(seed: u64, n: usize, out: &mut Out) {
    let pool = SpanPool::new(32);
    let base = Rng::new(seed ^ 0xC05);
    let mut with_errors = 0u64;
    let mut ends = std::collections::BTreeMap::<&'static str, u64>::new();
    for i in 0..n {
        let mut r = base.fork(i as u64);
        let partial = std::cell::RefCell::new(Partial::default());
        let res = catch_unwind(AssertUnwindSafe(|| gen_case(&mut r, &pool, &partial)));
        let (case, ans, recorded, end_kind) = match res {
            Ok(x) => x,
            Err(_) => {
                // an operation itself panicked: report the history so far, ended by `finish`
                let p = partial.borrow();
                let mut trace = p.trace.clone();
                trace.push(atom("operation-panicked"));
                (tagged("hist", vec![list(p.ops.clone()), tagged("finish", vec![])]), tagged("trace", trace).render(), 0, "panicked")
            }
        };
        if recorded > 0 {
            with_errors += 1;
        }
        *ends.entry(end_kind).or_insert(0) += 1;
        out.case("c05", i, &case, &ans);
    }
    out.stat("cases", n as u64);
    out.stat("histories_recording_at_least_one_error", with_errors);
    for (k, v) in ends {
        out.stat(&format!("end_{}", k), v);
    }
}
