//! Serialisation of real `syn` trees (with byte-range spans) for the Lean model.
use crate::sx::*;
use darling_core::ast::NestedMeta;
use proc_macro2::Span;
use quote::ToTokens;
use syn::spanned::Spanned;
use syn::{Expr, Lit, Meta};

pub fn sp2(s: Span) -> (Sx, Sx) {
    let r = s.byte_range();
    (nat(r.start as u128), nat(r.end as u128))
}

pub fn opt_span(s: Span) -> Sx {
    let r = s.byte_range();
    if r.start == 0 && r.end == 0 {
        none()
    } else {
        tagged("sp", vec![nat(r.start as u128), nat(r.end as u128)])
    }
}

pub fn toks<T: ToTokens>(t: &T) -> String {
    t.to_token_stream().to_string()
}

pub fn path(p: &syn::Path) -> Sx {
    let (lo, hi) = sp2(p.span());
    tagged(
        "path",
        vec![
            boolean(p.leading_colon.is_some()),
            list(p.segments.iter().map(|s| st(s.ident.to_string())).collect()),
            boolean(p.segments.iter().all(|s| s.arguments.is_none())),
            st(toks(p)),
            lo,
            hi,
            sp2(p.segments.first().map(|s| s.ident.span()).unwrap_or_else(|| p.span())).0,
            sp2(p.segments.first().map(|s| s.ident.span()).unwrap_or_else(|| p.span())).1,
        ],
    )
}

pub fn lit(l: &Lit) -> Sx {
    let v = match l {
        Lit::Str(s) => tagged("str", vec![st(s.value())]),
        Lit::Bool(b) => tagged("bool", vec![boolean(b.value)]),
        Lit::Char(c) => tagged("char", vec![nat(c.value() as u128)]),
        Lit::Int(i) => tagged("int", vec![st(i.base10_digits()), st(i.suffix())]),
        Lit::Float(f) => tagged("float", vec![st(f.base10_digits()), st(f.suffix())]),
        Lit::ByteStr(_) => atom("bytestr"),
        Lit::Byte(_) => atom("byte"),
        Lit::CStr(_) => atom("cstr"),
        Lit::Verbatim(_) => atom("verbatim"),
        _ => atom("verbatim"),
    };
    let (lo, hi) = sp2(l.span());
    tagged("lit", vec![v, st(toks(l)), lo, hi])
}

/// the name darling documents for an expression kind (own table, independent of darling's)
pub fn expr_kind(e: &Expr) -> &'static str {
    match e {
        Expr::Array(_) => "array",
        Expr::Assign(_) => "assign",
        Expr::Async(_) => "async",
        Expr::Await(_) => "await",
        Expr::Binary(_) => "binary",
        Expr::Block(_) => "block",
        Expr::Break(_) => "break",
        Expr::Call(_) => "call",
        Expr::Cast(_) => "cast",
        Expr::Closure(_) => "closure",
        Expr::Const(_) => "const",
        Expr::Continue(_) => "continue",
        Expr::Field(_) => "field",
        Expr::ForLoop(_) => "for_loop",
        Expr::Group(_) => "group",
        Expr::If(_) => "if",
        Expr::Index(_) => "index",
        Expr::Infer(_) => "infer",
        Expr::Let(_) => "let",
        Expr::Lit(_) => "lit",
        Expr::Loop(_) => "loop",
        Expr::Macro(_) => "macro",
        Expr::Match(_) => "match",
        Expr::MethodCall(_) => "method_call",
        Expr::Paren(_) => "paren",
        Expr::Path(_) => "path",
        Expr::Range(_) => "range",
        Expr::Reference(_) => "reference",
        Expr::Repeat(_) => "repeat",
        Expr::Return(_) => "return",
        Expr::Struct(_) => "struct",
        Expr::Try(_) => "try",
        Expr::TryBlock(_) => "try_block",
        Expr::Tuple(_) => "tuple",
        Expr::Unary(_) => "unary",
        Expr::Unsafe(_) => "unsafe",
        Expr::Verbatim(_) => "verbatim",
        Expr::While(_) => "while",
        Expr::Yield(_) => "yield",
        _ => "unknown",
    }
}

pub fn expr(e: &Expr) -> Sx {
    let (lo, hi) = sp2(e.span());
    match e {
        Expr::Lit(l) if l.attrs.is_empty() => tagged("elit", vec![lit(&l.lit)]),
        Expr::Path(p) if p.attrs.is_empty() && p.qself.is_none() => tagged("epath", vec![path(&p.path), lo, hi]),
        Expr::Path(p) if p.attrs.is_empty() => tagged("eqpath", vec![path(&p.path), st(toks(e)), lo, hi]),
        Expr::Group(g) => tagged("egroup", vec![expr(&g.expr), lo, hi]),
        Expr::Array(a) => tagged(
            "earray",
            vec![list(a.elems.iter().map(expr).collect()), st(toks(e)), lo, hi],
        ),
        _ => tagged("eother", vec![st(expr_kind(e)), st(toks(e)), lo, hi]),
    }
}

pub fn meta(m: &Meta) -> Sx {
    let (lo, hi) = sp2(m.span());
    match m {
        Meta::Path(p) => tagged("mpath", vec![path(p)]),
        Meta::List(l) => {
            let (items, bad) = match NestedMeta::parse_meta_list(l.tokens.clone()) {
                Ok(items) => (items.iter().map(nested).collect(), none()),
                Err(e) => {
                    let (a, b) = sp2(e.span());
                    (vec![], tagged("bad", vec![st(e.to_string()), a, b]))
                }
            };
            tagged(
                "mlist",
                vec![path(&l.path), list(items), bad, opt_span(l.tokens.span()), st(toks(m)), lo, hi],
            )
        }
        Meta::NameValue(nv) => tagged("mnv", vec![path(&nv.path), expr(&nv.value), st(toks(m)), lo, hi]),
    }
}

pub fn nested(n: &NestedMeta) -> Sx {
    match n {
        NestedMeta::Meta(m) => tagged("nm", vec![meta(m)]),
        NestedMeta::Lit(l) => tagged("nl", vec![lit(l)]),
    }
}
