//! Serialisation of real `syn` trees (with byte-range spans) for the Lean model.
use crate::sx::*;
use darling_core::ast::NestedMeta;
use proc_macro2::Span;
use quote::ToTokens;
use syn::spanned::Spanned;
use syn::{Expr, Lit, Meta};

pub fn sp2(s: Span) -> (Sx, Sx) {
    let r = s.byte_range();
    (nat(r.start as u128), nat(r.end as u128))
}

pub fn opt_span(s: Span) -> Sx {
    let r = s.byte_range();
    if r.start == 0 && r.end == 0 {
        none()
    } else {
        tagged("sp", vec![nat(r.start as u128), nat(r.end as u128)])
    }
}

/// printed tokens; invisible (None-delimited) groups, which `Display` would drop, are made
/// visible as `⟦ … ⟧` so that a value that lost or gained one differs from the original
pub fn toks<T: ToTokens>(t: &T) -> String {
    let ts = t.to_token_stream();
    fn has_none_group(ts: &proc_macro2::TokenStream) -> bool {
        ts.clone().into_iter().any(|t| match t {
            proc_macro2::TokenTree::Group(g) => g.delimiter() == proc_macro2::Delimiter::None || has_none_group(&g.stream()),
            _ => false,
        })
    }
    if !has_none_group(&ts) {
        return ts.to_string();
    }
    fn render(ts: proc_macro2::TokenStream, out: &mut Vec<String>) {
        for t in ts {
            match t {
                proc_macro2::TokenTree::Group(g) => {
                    let (o, c) = match g.delimiter() {
                        proc_macro2::Delimiter::Parenthesis => ("(", ")"),
                        proc_macro2::Delimiter::Brace => ("{", "}"),
                        proc_macro2::Delimiter::Bracket => ("[", "]"),
                        proc_macro2::Delimiter::None => ("⟦", "⟧"),
                    };
                    out.push(o.to_string());
                    render(g.stream(), out);
                    out.push(c.to_string());
                }
                other => out.push(other.to_string()),
            }
        }
    }
    let mut parts = vec![];
    render(ts, &mut parts);
    parts.join(" ")
}

pub fn path(p: &syn::Path) -> Sx {
    let (lo, hi) = sp2(p.span());
    tagged(
        "path",
        vec![
            boolean(p.leading_colon.is_some()),
            list(p.segments.iter().map(|s| st(s.ident.to_string())).collect()),
            boolean(p.segments.iter().all(|s| s.arguments.is_none())),
            st(toks(p)),
            lo,
            hi,
            sp2(p.segments.first().map(|s| s.ident.span()).unwrap_or_else(|| p.span())).0,
            sp2(p.segments.first().map(|s| s.ident.span()).unwrap_or_else(|| p.span())).1,
        ],
    )
}

pub fn lit(l: &Lit) -> Sx {
    let v = match l {
        Lit::Str(s) => tagged("str", vec![st(s.value())]),
        Lit::Bool(b) => tagged("bool", vec![boolean(b.value)]),
        Lit::Char(c) => tagged("char", vec![nat(c.value() as u128)]),
        Lit::Int(i) => tagged("int", vec![st(i.base10_digits()), st(i.suffix())]),
        Lit::Float(f) => tagged("float", vec![st(f.base10_digits()), st(f.suffix())]),
        Lit::ByteStr(_) => atom("bytestr"),
        Lit::Byte(_) => atom("byte"),
        Lit::CStr(_) => atom("cstr"),
        Lit::Verbatim(_) => atom("verbatim"),
        _ => atom("verbatim"),
    };
    let (lo, hi) = sp2(l.span());
    tagged("lit", vec![v, st(toks(l)), lo, hi])
}

/// the name darling documents for an expression kind (own table, independent of darling's)
pub fn expr_kind(e: &Expr) -> &'static str {
    match e {
        Expr::Array(_) => "array",
        Expr::Assign(_) => "assign",
        Expr::Async(_) => "async",
        Expr::Await(_) => "await",
        Expr::Binary(_) => "binary",
        Expr::Block(_) => "block",
        Expr::Break(_) => "break",
        Expr::Call(_) => "call",
        Expr::Cast(_) => "cast",
        Expr::Closure(_) => "closure",
        Expr::Const(_) => "const",
        Expr::Continue(_) => "continue",
        Expr::Field(_) => "field",
        Expr::ForLoop(_) => "for_loop",
        Expr::Group(_) => "group",
        Expr::If(_) => "if",
        Expr::Index(_) => "index",
        Expr::Infer(_) => "infer",
        Expr::Let(_) => "let",
        Expr::Lit(_) => "lit",
        Expr::Loop(_) => "loop",
        Expr::Macro(_) => "macro",
        Expr::Match(_) => "match",
        Expr::MethodCall(_) => "method_call",
        Expr::Paren(_) => "paren",
        Expr::Path(_) => "path",
        Expr::Range(_) => "range",
        Expr::Reference(_) => "reference",
        Expr::Repeat(_) => "repeat",
        Expr::Return(_) => "return",
        Expr::Struct(_) => "struct",
        Expr::Try(_) => "try",
        Expr::TryBlock(_) => "try_block",
        Expr::Tuple(_) => "tuple",
        Expr::Unary(_) => "unary",
        Expr::Unsafe(_) => "unsafe",
        Expr::Verbatim(_) => "verbatim",
        Expr::While(_) => "while",
        Expr::Yield(_) => "yield",
        _ => "unknown",
    }
}

pub fn expr(e: &Expr) -> Sx {
    let (lo, hi) = sp2(e.span());
    match e {
        Expr::Lit(l) if l.attrs.is_empty() => tagged("elit", vec![lit(&l.lit)]),
        Expr::Path(p) if p.attrs.is_empty() && p.qself.is_none() => tagged("epath", vec![path(&p.path), lo, hi]),
        Expr::Path(p) if p.attrs.is_empty() => tagged("eqpath", vec![path(&p.path), st(toks(e)), lo, hi]),
        Expr::Group(g) => tagged("egroup", vec![expr(&g.expr), lo, hi]),
        Expr::Array(a) => tagged(
            "earray",
            vec![list(a.elems.iter().map(expr).collect()), st(toks(e)), lo, hi],
        ),
        _ => tagged("eother", vec![st(expr_kind(e)), st(toks(e)), lo, hi]),
    }
}

pub fn meta(m: &Meta) -> Sx {
    let (lo, hi) = sp2(m.span());
    match m {
        Meta::Path(p) => tagged("mpath", vec![path(p)]),
        Meta::List(l) => {
            // the list's arguments split into items by darling's `impl Parse for NestedMeta`, driven by
            // syn's own scoped argument parser (end-of-input errors point at the closing delimiter)
            let parsed = l.parse_args_with(syn::punctuated::Punctuated::<NestedMeta, syn::Token![,]>::parse_terminated);
            let (items, bad) = match parsed.map(|p| p.into_iter().collect::<Vec<_>>()) {
                Ok(items) => (items.iter().map(nested).collect(), none()),
                Err(e) => {
                    let (a, b) = sp2(e.span());
                    (vec![], tagged("bad", vec![st(e.to_string()), a, b]))
                }
            };
            tagged(
                "mlist",
                vec![path(&l.path), list(items), bad, opt_span(l.tokens.span()), st(toks(m)), lo, hi],
            )
        }
        Meta::NameValue(nv) => tagged("mnv", vec![path(&nv.path), expr(&nv.value), st(toks(m)), lo, hi]),
    }
}

pub fn nested(n: &NestedMeta) -> Sx {
    match n {
        NestedMeta::Meta(m) => tagged("nm", vec![meta(m)]),
        NestedMeta::Lit(l) => tagged("nl", vec![lit(l)]),
    }
}

// ------------------------------------------------------------------ declarations / input elements

/// field type → the model's closed universe (`Ty`); anything else is `(recv "Name")` for a bare
/// identifier (a receiver of the corpus) or `(opaque "tokens")`
pub fn ty_sx(t: &syn::Type) -> Sx {
    let s = toks(t).replace(' ', "");
    fn ints(n: &str) -> Option<Sx> {
        const NAMES: &[&str] = &["u8", "u16", "u32", "u64", "u128", "usize", "i8", "i16", "i32", "i64", "i128", "isize"];
        if NAMES.contains(&n) {
            Some(tagged("int", vec![st(n)]))
        } else {
            None
        }
    }
    fn go(s: &str) -> Sx {
        if let Some(i) = ints(s) {
            return i;
        }
        let wrap = |pre: &str, tag: &str, extra: Option<&str>| -> Option<Sx> {
            s.strip_prefix(pre).and_then(|r| r.strip_suffix('>')).map(|inner| {
                let mut v = vec![];
                if let Some(e) = extra {
                    v.push(st(e));
                }
                v.push(go(inner));
                tagged(tag, v)
            })
        };
        match s {
            "()" => return atom("unit"),
            "bool" => return atom("bool"),
            "char" => return atom("char"),
            "String" => return atom("string"),
            "f64" => return tagged("float", vec![nat(64)]),
            "f32" => return tagged("float", vec![nat(32)]),
            "Flag" | "darling::util::Flag" => return atom("flag"),
            "syn::Path" => return atom("syn-path"),
            "syn::Ident" => return atom("syn-ident"),
            "syn::Expr" => return atom("syn-expr"),
            "syn::LitStr" => return tagged("lit-kind", vec![st("Str")]),
            "PathList" | "darling::util::PathList" => return atom("path-list"),
            _ => {}
        }
        if let Some(x) = wrap("Option<", "option", None) { return x; }
        if let Some(x) = wrap("Box<", "ptr", Some("Box")) { return x; }
        if let Some(x) = wrap("Rc<", "ptr", Some("Rc")) { return x; }
        if let Some(x) = wrap("Vec<", "vec", None) { return x; }
        if let Some(x) = wrap("Override<", "override", None) { return x; }
        if let Some(x) = wrap("SpannedValue<", "spanned", None) { return x; }
        if let Some(x) = wrap("darling::Result<", "result", None) { return x; }
        if let Some(r) = s.strip_prefix("HashMap<String,").and_then(|r| r.strip_suffix('>')) {
            return tagged("map", vec![st("hash_map"), st("String"), go(r)]);
        }
        if let Some(r) = s.strip_prefix("BTreeMap<String,").and_then(|r| r.strip_suffix('>')) {
            return tagged("map", vec![st("btree_map"), st("String"), go(r)]);
        }
        if !s.is_empty() && s.chars().all(|c| c.is_alphanumeric() || c == '_') {
            return tagged("recv", vec![st(s)]);
        }
        tagged("opaque", vec![st(s)])
    }
    go(&s)
}

pub fn attr(a: &syn::Attribute) -> Sx {
    let (lo, hi) = sp2(a.span());
    tagged("attr", vec![path(a.path()), meta(&a.meta), st(toks(a)), lo, hi])
}

pub fn field(f: &syn::Field) -> Sx {
    let (lo, hi) = sp2(f.span());
    let (ilo, ihi) = f.ident.as_ref().map(|i| sp2(i.span())).unwrap_or((nat(0), nat(0)));
    tagged(
        "field",
        vec![
            f.ident.as_ref().map(|i| st(i.to_string())).unwrap_or_else(none),
            ty_sx(&f.ty),
            st(toks(&f.ty)),
            st(toks(&f.vis)),
            list(f.attrs.iter().map(attr).collect()),
            ilo,
            ihi,
            lo,
            hi,
            st(toks(f)),
        ],
    )
}

pub fn style(f: &syn::Fields) -> Sx {
    match f {
        syn::Fields::Named(_) => atom("named"),
        syn::Fields::Unnamed(_) => atom("tuple"),
        syn::Fields::Unit => atom("unit"),
    }
}

pub fn variant(v: &syn::Variant) -> Sx {
    let (lo, hi) = sp2(v.span());
    let (ilo, ihi) = sp2(v.ident.span());
    tagged(
        "variant",
        vec![
            st(v.ident.to_string()),
            style(&v.fields),
            list(v.fields.iter().map(field).collect()),
            list(v.attrs.iter().map(attr).collect()),
            v.discriminant.as_ref().map(|(_, e)| st(toks(e))).unwrap_or_else(none),
            ilo,
            ihi,
            lo,
            hi,
            st(toks(v)),
        ],
    )
}

pub fn body(d: &syn::Data) -> Sx {
    match d {
        syn::Data::Struct(s) => tagged("struct", vec![style(&s.fields), list(s.fields.iter().map(field).collect())]),
        syn::Data::Enum(e) => tagged("enum", vec![list(e.variants.iter().map(variant).collect())]),
        syn::Data::Union(_) => atom("union"),
    }
}

pub fn derive_input(di: &syn::DeriveInput) -> Sx {
    let (ilo, ihi) = sp2(di.ident.span());
    let (_, _, wc) = di.generics.split_for_impl();
    tagged(
        "decl",
        vec![
            st(di.ident.to_string()),
            st(toks(&di.vis)),
            tagged(
                "generics",
                vec![
                    list(di.generics.type_params().map(|p| st(p.ident.to_string())).collect()),
                    st(toks(&di.generics)),
                    st(wc.map(|w| toks(w)).unwrap_or_default()),
                    tagged(
                        "params",
                        di.generics
                            .params
                            .iter()
                            .map(|p| match p {
                                syn::GenericParam::Type(t) => tagged("tp", vec![type_param(t)]),
                                syn::GenericParam::Lifetime(l) => tagged("lt", vec![st(toks(l))]),
                                syn::GenericParam::Const(c) => tagged("ct", vec![st(toks(c))]),
                            })
                            .collect(),
                    ),
                    // a where-clause without predicates prints as nothing: its presence is data of its own
                    tagged("haswhere", vec![boolean(wc.is_some())]),
                ],
            ),
            list(di.attrs.iter().map(attr).collect()),
            body(&di.data),
            ilo,
            ihi,
        ],
    )
}

pub fn type_param(t: &syn::TypeParam) -> Sx {
    tagged(
        "typaram",
        vec![
            st(t.ident.to_string()),
            list(t.attrs.iter().map(attr).collect()),
            list(t.bounds.iter().map(|b| st(toks(b))).collect()),
            t.default.as_ref().map(|d| st(toks(d))).unwrap_or_else(none),
            st(toks(t)),
        ],
    )
}
