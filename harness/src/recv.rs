//! Running derived receivers of the compiled corpus and reading their own declarations back
//! from the corpus source text.
use crate::vals::{answer, Canon};
use darling::{FromDeriveInput, FromField, FromVariant};
use std::collections::HashMap;
use std::panic::{catch_unwind, AssertUnwindSafe};

pub fn run_fdi<T: FromDeriveInput + Canon>(di: &syn::DeriveInput) -> String {
    answer(catch_unwind(AssertUnwindSafe(|| T::from_derive_input(di))))
}
pub fn run_fv<T: FromVariant + Canon>(v: &syn::Variant) -> String {
    answer(catch_unwind(AssertUnwindSafe(|| T::from_variant(v))))
}
pub fn run_ff<T: FromField + Canon>(f: &syn::Field) -> String {
    answer(catch_unwind(AssertUnwindSafe(|| T::from_field(f))))
}
pub fn run_ft<T: darling::FromTypeParam + Canon>(t: &syn::TypeParam) -> String {
    answer(catch_unwind(AssertUnwindSafe(|| T::from_type_param(t))))
}
pub fn run_fa<T: darling::FromAttributes + Canon>(a: &[syn::Attribute]) -> String {
    answer(catch_unwind(AssertUnwindSafe(|| T::from_attributes(a))))
}

pub enum OuterRun {
    Fdi(fn(&syn::DeriveInput) -> String),
    Ff(fn(&syn::Field) -> String),
    Fv(fn(&syn::Variant) -> String),
    Ft(fn(&syn::TypeParam) -> String),
    Fa(fn(&[syn::Attribute]) -> String),
}

pub struct OuterInfo {
    pub base: RecvInfo,
    pub kind: &'static str,
    pub attr_names: &'static [&'static str],
    pub from_ident: bool,
}

pub struct OuterEntry {
    pub info: fn() -> OuterInfo,
    pub run: OuterRun,
    pub vals: fn(&str) -> Vec<(String, crate::sx::Sx)>,
}

/// every `struct` / `enum` item of a corpus source file, by name, parsed from the very text that
/// is compiled — the model derives everything from this declaration
pub fn declarations(src: &str) -> HashMap<String, syn::DeriveInput> {
    let file = syn::parse_file(src).expect("corpus source parses");
    let mut out = HashMap::new();
    for item in file.items {
        let di: Option<syn::DeriveInput> = match item {
            syn::Item::Struct(s) => Some(syn::DeriveInput::from(s)),
            syn::Item::Enum(e) => Some(syn::DeriveInput::from(e)),
            _ => None,
        };
        if let Some(di) = di {
            out.insert(di.ident.to_string(), di);
        }
    }
    out
}

/// the `#[darling(..)]` option items of a declaration, flattened over all darling attributes
pub fn darling_items(attrs: &[syn::Attribute]) -> Vec<darling_core::ast::NestedMeta> {
    let mut out = vec![];
    for a in attrs {
        if a.path().is_ident("darling") {
            if let syn::Meta::List(l) = &a.meta {
                if let Ok(items) = darling_core::ast::NestedMeta::parse_meta_list(l.tokens.clone()) {
                    out.extend(items);
                }
            }
        }
    }
    out
}

pub fn find_option(attrs: &[syn::Attribute], name: &str) -> Option<syn::Meta> {
    for it in darling_items(attrs) {
        if let darling_core::ast::NestedMeta::Meta(m) = it {
            if m.path().is_ident(name) {
                return Some(m);
            }
        }
    }
    None
}

/// input templates of one addressable field (generated alongside the corpus)
pub struct FieldInfo {
    pub name: &'static str,
    pub required: bool,
    pub multiple: bool,
    /// value suffixes (appended to the item name) the field accepts / rejects
    pub valid: &'static [&'static str],
    pub invalid: &'static [&'static str],
}

pub struct RecvInfo {
    pub name: &'static str,
    pub is_enum: bool,
    pub allow_unknown: bool,
    pub has_flatten: bool,
    pub fields: Vec<FieldInfo>,
    /// item lists its flatten field accepts
    pub flat_items: &'static [&'static [&'static str]],
    /// whole-value suffixes when this receiver is itself a field type
    pub valid: &'static [&'static str],
    pub invalid: &'static [&'static str],
}
