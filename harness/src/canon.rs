//! Canonical observation of real darling values through the public API only.
use crate::sx::*;
use darling_core::Error;
use proc_macro2::Span;

pub fn span_sx(s: Option<Span>) -> Sx {
    match s {
        Some(s) => {
            let r = s.byte_range();
            if r.start == 0 && r.end == 0 {
                // call-site span of the fallback implementation: "no position"
                none()
            } else {
                tagged("sp", vec![nat(r.start as u128), nat(r.end as u128)])
            }
        }
        None => none(),
    }
}

pub fn row(e: &Error) -> Sx {
    tagged("r", vec![st(e.to_string()), span_sx(e.explicit_span())])
}

/// same shape as `Codec.obsErr` in the Lean model
pub fn obs_err(e: &Error) -> Sx {
    let flat: Vec<Sx> = e.clone().flatten().into_iter().map(|l| row(&l)).collect();
    let iter_n = e.clone().into_iter().count();
    let syn_rows: Vec<Sx> = syn::Error::from(e.clone())
        .into_iter()
        .map(|se| tagged("s", vec![st(se.to_string()), span_sx(Some(se.span()))]))
        .collect();
    tagged(
        "e",
        vec![
            tagged("len", vec![nat(e.len() as u128)]),
            tagged("disp", vec![st(e.to_string())]),
            tagged("span", vec![span_sx(e.explicit_span())]),
            tagged("flat", flat),
            tagged("iter", vec![nat(iter_n as u128)]),
            tagged("syn", syn_rows),
        ],
    )
}

/// A pool of real spans with distinct byte ranges, obtained by parsing source text.
pub struct SpanPool {
    pub spans: Vec<Span>,
}

impl SpanPool {
    pub fn new(n: usize) -> Self {
        let src: String = (0..n).map(|i| format!("s{} ", i)).collect();
        let ts: proc_macro2::TokenStream = src.parse().unwrap();
        let spans = ts.into_iter().map(|t| t.span()).collect();
        SpanPool { spans }
    }
    pub fn range(&self, i: usize) -> (usize, usize) {
        let r = self.spans[i].byte_range();
        (r.start, r.end)
    }
}
