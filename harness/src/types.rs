//! Registry of target types: wire name for the model + monomorphised entry points of the real code.
use crate::sx::*;
use crate::vals::{answer, Canon};
use darling::util::{Flag, Override, SpannedValue, WithOriginal};
use darling_core::ast::NestedMeta;
use darling_core::FromMeta;
use std::cell::RefCell;
use std::panic::{catch_unwind, AssertUnwindSafe};
use std::rc::Rc;
use std::sync::Arc;
use syn::Meta;

#[derive(Clone)]
pub struct TyEntry {
    pub ty: Sx,
    pub meta: fn(&Meta) -> String,
    pub nested: fn(&NestedMeta) -> String,
    pub none: fn() -> String,
    /// answer of the *unwrapped* inner type on the same item, when this entry is a wrapper
    pub depth: usize,
}

fn run_meta<T: FromMeta + Canon>(m: &Meta) -> String {
    answer(catch_unwind(AssertUnwindSafe(|| T::from_meta(m))))
}
fn run_nested<T: FromMeta + Canon>(m: &NestedMeta) -> String {
    answer(catch_unwind(AssertUnwindSafe(|| T::from_nested_meta(m))))
}
fn run_none<T: FromMeta + Canon>() -> String {
    match catch_unwind(|| T::from_none()) {
        Ok(Some(v)) => tagged("some", vec![v.canon()]).render(),
        Ok(None) => "none".into(),
        Err(_) => "(panic)".into(),
    }
}

pub fn mk<T: FromMeta + Canon>(ty: Sx, depth: usize) -> TyEntry {
    TyEntry { ty, meta: run_meta::<T>, nested: run_nested::<T>, none: run_none::<T>, depth }
}

pub fn int_ty(name: &str) -> Sx {
    tagged("int", vec![st(name)])
}

macro_rules! ints {
    ($v:ident; $($t:ty => $n:expr),*) => { $( $v.push(mk::<$t>(int_ty($n), 0)); )* };
}

pub fn int_types() -> Vec<TyEntry> {
    let mut v = vec![];
    ints!(v; u8 => "u8", u16 => "u16", u32 => "u32", u64 => "u64", u128 => "u128", usize => "usize",
        i8 => "i8", i16 => "i16", i32 => "i32", i64 => "i64", i128 => "i128", isize => "isize",
        std::num::NonZeroU8 => "NonZeroU8", std::num::NonZeroU16 => "NonZeroU16", std::num::NonZeroU32 => "NonZeroU32",
        std::num::NonZeroU64 => "NonZeroU64", std::num::NonZeroU128 => "NonZeroU128", std::num::NonZeroUsize => "NonZeroUsize",
        std::num::NonZeroI8 => "NonZeroI8", std::num::NonZeroI16 => "NonZeroI16", std::num::NonZeroI32 => "NonZeroI32",
        std::num::NonZeroI64 => "NonZeroI64", std::num::NonZeroI128 => "NonZeroI128", std::num::NonZeroIsize => "NonZeroIsize");
    v
}

pub fn scalar_types() -> Vec<TyEntry> {
    let mut v = int_types();
    v.push(mk::<()>(atom("unit"), 0));
    v.push(mk::<bool>(atom("bool"), 0));
    v.push(mk::<char>(atom("char"), 0));
    v.push(mk::<String>(atom("string"), 0));
    v.push(mk::<std::path::PathBuf>(atom("pathbuf"), 0));
    v.push(mk::<f32>(tagged("float", vec![nat(32)]), 0));
    v.push(mk::<f64>(tagged("float", vec![nat(64)]), 0));
    v.push(mk::<std::sync::atomic::AtomicBool>(atom("atomicbool"), 0));
    v.push(mk::<Flag>(atom("flag"), 0));
    v
}

macro_rules! wrap1 {
    ($v:ident, $t:ty, $sx:expr, $d:expr) => {
        $v.push(mk::<Option<$t>>(tagged("option", vec![$sx]), $d));
        $v.push(mk::<Box<$t>>(tagged("ptr", vec![st("Box"), $sx]), $d));
        $v.push(mk::<Rc<$t>>(tagged("ptr", vec![st("Rc"), $sx]), $d));
        $v.push(mk::<Arc<$t>>(tagged("ptr", vec![st("Arc"), $sx]), $d));
        $v.push(mk::<RefCell<$t>>(tagged("ptr", vec![st("RefCell"), $sx]), $d));
        $v.push(mk::<darling_core::Result<$t>>(tagged("result", vec![$sx]), $d));
        $v.push(mk::<Result<$t, Meta>>(tagged("resultmeta", vec![$sx]), $d));
        $v.push(mk::<Override<$t>>(tagged("override", vec![$sx]), $d));
        $v.push(mk::<SpannedValue<$t>>(tagged("spanned", vec![$sx]), $d));
        $v.push(mk::<WithOriginal<$t, Meta>>(tagged("withorig", vec![$sx]), $d));
    };
}

macro_rules! wrap2 {
    ($v:ident, $t:ty, $sx:expr) => {
        wrap1!($v, Option<$t>, tagged("option", vec![$sx]), 2);
        wrap1!($v, Box<$t>, tagged("ptr", vec![st("Box"), $sx]), 2);
        wrap1!($v, darling_core::Result<$t>, tagged("result", vec![$sx]), 2);
        wrap1!($v, Result<$t, Meta>, tagged("resultmeta", vec![$sx]), 2);
        wrap1!($v, Override<$t>, tagged("override", vec![$sx]), 2);
        wrap1!($v, SpannedValue<$t>, tagged("spanned", vec![$sx]), 2);
        wrap1!($v, WithOriginal<$t, Meta>, tagged("withorig", vec![$sx]), 2);
    };
}

macro_rules! inner_all {
    ($v:ident, $t:ty, $sx:expr) => {
        $v.push(mk::<$t>($sx, 0));
        wrap1!($v, $t, $sx, 1);
        wrap2!($v, $t, $sx);
    };
}

/// inner targets × wrappers × two-level compositions (C12's grid)
pub fn wrapper_grid() -> Vec<TyEntry> {
    let mut v = vec![];
    inner_all!(v, bool, atom("bool"));
    inner_all!(v, u8, int_ty("u8"));
    inner_all!(v, i64, int_ty("i64"));
    inner_all!(v, String, atom("string"));
    inner_all!(v, char, atom("char"));
    inner_all!(v, (), atom("unit"));
    inner_all!(v, Flag, atom("flag"));
    v
}
