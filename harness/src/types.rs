//! Registry of target types: wire name for the model + monomorphised entry points of the real code.
use crate::sx::*;
use crate::vals::{answer, Canon};
use darling::util::{Flag, Override, SpannedValue, WithOriginal};
use darling_core::ast::NestedMeta;
use darling_core::FromMeta;
use std::cell::RefCell;
use std::panic::{catch_unwind, AssertUnwindSafe};
use std::rc::Rc;
use std::sync::Arc;
use syn::Meta;

#[derive(Clone)]
pub struct TyEntry {
    pub ty: Sx,
    pub meta: fn(&Meta) -> String,
    pub nested: fn(&NestedMeta) -> String,
    pub none: fn() -> String,
    /// the individual trait methods called directly: (kind, input) -> answer
    pub direct: fn(&Direct) -> String,
    /// answer of the *unwrapped* inner type on the same item, when this entry is a wrapper
    pub depth: usize,
    /// external grammar parsers whose verdict on string literals the model needs (oracle rows)
    pub kinds: Vec<&'static str>,
}

impl TyEntry {
    pub fn with_kinds(mut self, k: &[&'static str]) -> Self {
        self.kinds = k.to_vec();
        self
    }
}

fn run_meta<T: FromMeta + Canon>(m: &Meta) -> String {
    answer(catch_unwind(AssertUnwindSafe(|| T::from_meta(m))))
}
fn run_nested<T: FromMeta + Canon>(m: &NestedMeta) -> String {
    answer(catch_unwind(AssertUnwindSafe(|| T::from_nested_meta(m))))
}
/// a direct call of one trait method, bypassing `from_meta`'s routing
pub enum Direct {
    Word,
    List(Vec<NestedMeta>),
    Str(String),
    Bool(bool),
    Char(char),
    Value(syn::Lit),
    Expr(syn::Expr),
}
fn run_direct<T: FromMeta + Canon>(d: &Direct) -> String {
    answer(catch_unwind(AssertUnwindSafe(|| match d {
        Direct::Word => T::from_word(),
        Direct::List(items) => T::from_list(items),
        Direct::Str(s) => T::from_string(s),
        Direct::Bool(b) => T::from_bool(*b),
        Direct::Char(c) => T::from_char(*c),
        Direct::Value(l) => T::from_value(l),
        Direct::Expr(e) => T::from_expr(e),
    })))
}
fn run_none<T: FromMeta + Canon>() -> String {
    match catch_unwind(|| T::from_none()) {
        Ok(Some(v)) => tagged("some", vec![v.canon()]).render(),
        Ok(None) => "none".into(),
        Err(_) => "(panic)".into(),
    }
}

pub fn mk<T: FromMeta + Canon>(ty: Sx, depth: usize) -> TyEntry {
    TyEntry { ty, meta: run_meta::<T>, nested: run_nested::<T>, none: run_none::<T>, direct: run_direct::<T>, depth, kinds: vec![] }
}

pub fn int_ty(name: &str) -> Sx {
    tagged("int", vec![st(name)])
}

macro_rules! ints {
    ($v:ident; $($t:ty => $n:expr),*) => { $( $v.push(mk::<$t>(int_ty($n), 0)); )* };
}

pub fn int_types() -> Vec<TyEntry> {
    let mut v = vec![];
    ints!(v; u8 => "u8", u16 => "u16", u32 => "u32", u64 => "u64", u128 => "u128", usize => "usize",
        i8 => "i8", i16 => "i16", i32 => "i32", i64 => "i64", i128 => "i128", isize => "isize",
        std::num::NonZeroU8 => "NonZeroU8", std::num::NonZeroU16 => "NonZeroU16", std::num::NonZeroU32 => "NonZeroU32",
        std::num::NonZeroU64 => "NonZeroU64", std::num::NonZeroU128 => "NonZeroU128", std::num::NonZeroUsize => "NonZeroUsize",
        std::num::NonZeroI8 => "NonZeroI8", std::num::NonZeroI16 => "NonZeroI16", std::num::NonZeroI32 => "NonZeroI32",
        std::num::NonZeroI64 => "NonZeroI64", std::num::NonZeroI128 => "NonZeroI128", std::num::NonZeroIsize => "NonZeroIsize");
    v
}

pub fn scalar_types() -> Vec<TyEntry> {
    let mut v = int_types();
    v.push(mk::<()>(atom("unit"), 0));
    v.push(mk::<bool>(atom("bool"), 0));
    v.push(mk::<char>(atom("char"), 0));
    v.push(mk::<String>(atom("string"), 0));
    v.push(mk::<std::path::PathBuf>(atom("pathbuf"), 0));
    v.push(mk::<f32>(tagged("float", vec![nat(32)]), 0));
    v.push(mk::<f64>(tagged("float", vec![nat(64)]), 0));
    v.push(mk::<std::sync::atomic::AtomicBool>(atom("atomicbool"), 0));
    v.push(mk::<Flag>(atom("flag"), 0));
    v
}

macro_rules! wrap1 {
    ($v:ident, $t:ty, $sx:expr, $d:expr) => {
        $v.push(mk::<Option<$t>>(tagged("option", vec![$sx]), $d));
        $v.push(mk::<Box<$t>>(tagged("ptr", vec![st("Box"), $sx]), $d));
        $v.push(mk::<Rc<$t>>(tagged("ptr", vec![st("Rc"), $sx]), $d));
        $v.push(mk::<Arc<$t>>(tagged("ptr", vec![st("Arc"), $sx]), $d));
        $v.push(mk::<RefCell<$t>>(tagged("ptr", vec![st("RefCell"), $sx]), $d));
        $v.push(mk::<darling_core::Result<$t>>(tagged("result", vec![$sx]), $d));
        $v.push(mk::<Result<$t, Meta>>(tagged("resultmeta", vec![$sx]), $d));
        $v.push(mk::<Override<$t>>(tagged("override", vec![$sx]), $d));
        $v.push(mk::<SpannedValue<$t>>(tagged("spanned", vec![$sx]), $d));
        $v.push(mk::<WithOriginal<$t, Meta>>(tagged("withorig", vec![$sx]), $d));
    };
}

macro_rules! wrap2 {
    ($v:ident, $t:ty, $sx:expr) => {
        wrap1!($v, Option<$t>, tagged("option", vec![$sx]), 2);
        wrap1!($v, Box<$t>, tagged("ptr", vec![st("Box"), $sx]), 2);
        wrap1!($v, darling_core::Result<$t>, tagged("result", vec![$sx]), 2);
        wrap1!($v, Result<$t, Meta>, tagged("resultmeta", vec![$sx]), 2);
        wrap1!($v, Override<$t>, tagged("override", vec![$sx]), 2);
        wrap1!($v, SpannedValue<$t>, tagged("spanned", vec![$sx]), 2);
        wrap1!($v, WithOriginal<$t, Meta>, tagged("withorig", vec![$sx]), 2);
    };
}

macro_rules! inner_all {
    ($v:ident, $t:ty, $sx:expr) => {
        inner_all!($v, $t, $sx, &[]);
    };
    ($v:ident, $t:ty, $sx:expr, $kinds:expr) => {
        let start = $v.len();
        $v.push(mk::<$t>($sx, 0));
        wrap1!($v, $t, $sx, 1);
        wrap2!($v, $t, $sx);
        for e in $v[start..].iter_mut() {
            e.kinds = $kinds.to_vec();
        }
    };
}

/// inner targets × wrappers × two-level compositions (C12's grid)
pub fn wrapper_grid() -> Vec<TyEntry> {
    let mut v = vec![];
    inner_all!(v, bool, atom("bool"));
    inner_all!(v, u8, int_ty("u8"));
    inner_all!(v, i64, int_ty("i64"));
    inner_all!(v, String, atom("string"));
    inner_all!(v, char, atom("char"));
    inner_all!(v, (), atom("unit"));
    inner_all!(v, Flag, atom("flag"));
    inner_all!(v, syn::Path, atom("syn-path"), &["Path"]);
    inner_all!(v, syn::Ident, atom("syn-ident"), &["Ident"]);
    inner_all!(v, syn::Expr, atom("syn-expr"), &["Expr"]);
    inner_all!(v, syn::LitStr, tagged("lit-kind", vec![st("Str")]));
    inner_all!(v, darling::util::PathList, atom("path-list"));
    inner_all!(
        v,
        std::collections::HashMap<String, String>,
        tagged("map", vec![st("hash_map"), st("String"), atom("string")])
    );
    v
}

fn k1(ty: TyEntry, kinds: &[&'static str]) -> TyEntry {
    ty.with_kinds(kinds)
}

macro_rules! syn_parse_tys {
    ($v:ident; $($t:ident),*) => { $(
        $v.push(k1(mk::<syn::$t>(tagged("syn-parse", vec![st(stringify!($t))]), 0), &[stringify!($t)]));
    )* };
}

/// every syntax-valued implementor of core/src/from_meta.rs and core/src/util (C13)
pub fn syn_types() -> Vec<TyEntry> {
    use darling::util::{Callable, IdentString, Ignored, PathList};
    let mut v = vec![];
    v.push(k1(mk::<syn::Expr>(atom("syn-expr"), 0), &["Expr"]));
    v.push(k1(mk::<syn::Path>(atom("syn-path"), 0), &["Path"]));
    v.push(k1(mk::<syn::Ident>(atom("syn-ident"), 0), &["Ident"]));
    v.push(k1(mk::<IdentString>(atom("ident-string"), 0), &["Ident"]));
    v.push(k1(mk::<syn::ExprArray>(tagged("syn-expr-ty", vec![st("ExprArray")]), 0), &["ExprArray"]));
    v.push(k1(mk::<syn::ExprPath>(tagged("syn-expr-ty", vec![st("ExprPath")]), 0), &["ExprPath"]));
    v.push(k1(mk::<syn::ExprRange>(tagged("syn-expr-ty", vec![st("ExprRange")]), 0), &["ExprRange"]));
    syn_parse_tys!(v; Type, TypeArray, TypeBareFn, TypeGroup, TypeImplTrait, TypeInfer, TypeMacro, TypeNever, TypeParam,
        TypeParen, TypePath, TypePtr, TypeReference, TypeSlice, TypeTraitObject, TypeTuple, Visibility, WhereClause);
    v.push(k1(mk::<Vec<syn::WherePredicate>>(atom("where-preds"), 0), &["WherePreds"]));
    v.push(mk::<ident_case::RenameRule>(atom("rename-rule"), 0));
    v.push(k1(
        mk::<syn::punctuated::Punctuated<syn::Path, syn::Token![,]>>(tagged("punctuated", vec![st("PunctPathComma")]), 0),
        &["PunctPathComma"],
    ));
    v.push(mk::<syn::Lit>(atom("lit"), 0));
    v.push(mk::<syn::LitInt>(tagged("lit-kind", vec![st("Int")]), 0));
    v.push(mk::<syn::LitFloat>(tagged("lit-kind", vec![st("Float")]), 0));
    v.push(mk::<syn::LitStr>(tagged("lit-kind", vec![st("Str")]), 0));
    v.push(mk::<syn::LitByte>(tagged("lit-kind", vec![st("Byte")]), 0));
    v.push(mk::<syn::LitByteStr>(tagged("lit-kind", vec![st("ByteStr")]), 0));
    v.push(mk::<syn::LitChar>(tagged("lit-kind", vec![st("Char")]), 0));
    v.push(mk::<syn::LitBool>(tagged("lit-kind", vec![st("Bool")]), 0));
    v.push(mk::<proc_macro2::Literal>(tagged("lit-kind", vec![st("Verbatim")]), 0));
    v.push(k1(mk::<Vec<syn::LitInt>>(tagged("vec-lit", vec![st("Int")]), 0), &["Arr"]));
    v.push(k1(mk::<Vec<syn::LitFloat>>(tagged("vec-lit", vec![st("Float")]), 0), &["Arr"]));
    v.push(k1(mk::<Vec<syn::LitStr>>(tagged("vec-lit", vec![st("Str")]), 0), &["Arr"]));
    v.push(k1(mk::<Vec<syn::LitByte>>(tagged("vec-lit", vec![st("Byte")]), 0), &["Arr"]));
    v.push(k1(mk::<Vec<syn::LitByteStr>>(tagged("vec-lit", vec![st("ByteStr")]), 0), &["Arr"]));
    v.push(k1(mk::<Vec<syn::LitChar>>(tagged("vec-lit", vec![st("Char")]), 0), &["Arr"]));
    v.push(k1(mk::<Vec<syn::LitBool>>(tagged("vec-lit", vec![st("Bool")]), 0), &["Arr"]));
    v.push(k1(mk::<Vec<proc_macro2::Literal>>(tagged("vec-lit", vec![st("Verbatim")]), 0), &["Arr"]));
    v.push(k1(mk::<Vec<u8>>(tagged("num-array", vec![st("u8")]), 0), &["Arr"]));
    v.push(k1(mk::<Vec<u16>>(tagged("num-array", vec![st("u16")]), 0), &["Arr"]));
    v.push(k1(mk::<Vec<u32>>(tagged("num-array", vec![st("u32")]), 0), &["Arr"]));
    v.push(k1(mk::<Vec<u64>>(tagged("num-array", vec![st("u64")]), 0), &["Arr"]));
    v.push(k1(mk::<Vec<usize>>(tagged("num-array", vec![st("usize")]), 0), &["Arr"]));
    v.push(mk::<syn::Meta>(atom("syn-meta"), 0));
    v.push(mk::<Ignored>(atom("ignored"), 0));
    v.push(mk::<PathList>(atom("path-list"), 0));
    v.push(mk::<Callable>(atom("callable"), 0));
    v
}

fn map_ty(kind: &str, key: &str, v: Sx) -> Sx {
    tagged("map", vec![st(kind), st(key), v])
}

macro_rules! maps_for {
    ($v:ident, $t:ty, $sx:expr, $kinds:expr) => {
        $v.push(k1(mk::<std::collections::HashMap<String, $t>>(map_ty("hash_map", "String", $sx), 0), $kinds));
        $v.push(k1(mk::<std::collections::HashMap<syn::Ident, $t>>(map_ty("hash_map", "syn::Ident", $sx), 0), $kinds));
        $v.push(k1(mk::<std::collections::HashMap<syn::Path, $t>>(map_ty("hash_map", "syn::Path", $sx), 0), $kinds));
        $v.push(k1(mk::<std::collections::BTreeMap<String, $t>>(map_ty("btree_map", "String", $sx), 0), $kinds));
        $v.push(k1(mk::<std::collections::BTreeMap<syn::Ident, $t>>(map_ty("btree_map", "syn::Ident", $sx), 0), $kinds));
    };
}

/// the five `map!` instantiations × value types (C14)
pub fn map_types() -> Vec<TyEntry> {
    let mut v = vec![];
    maps_for!(v, bool, atom("bool"), &[]);
    maps_for!(v, u8, int_ty("u8"), &[]);
    maps_for!(v, String, atom("string"), &[]);
    maps_for!(v, syn::Expr, atom("syn-expr"), &["Expr"]);
    maps_for!(v, std::collections::HashMap<String, u8>, map_ty("hash_map", "String", int_ty("u8")), &[]);
    maps_for!(v, Option<u8>, tagged("option", vec![int_ty("u8")]), &[]);
    v
}
