import Darling.Usage
import Darling.Codec
open Sexp Codec

namespace Driver.C19

mutual
partial def tyOf? : Sexp → Option SType
  | .list [.atom "tpath", q, p] => do
      let q ← (match q with
        | .atom "none" => some none
        | x => (tyOf? x).map some)
      pure (.path q (← pathOf? p))
  | .list [.atom "tref", lt, t] => do pure (.ref (← optStr? lt) (← tyOf? t))
  | .list [.atom "tptr", t] => do pure (.ptr (← tyOf? t))
  | .list [.atom "tslice", t] => do pure (.slice (← tyOf? t))
  | .list [.atom "tarray", t] => do pure (.array (← tyOf? t))
  | .list (.atom "ttuple" :: ts) => do pure (.tuple (← ts.mapM tyOf?))
  | .list [.atom "tfn", .list ins, out] => do pure (.bareFn (← ins.mapM tyOf?) (← optTy? out))
  | .list [.atom "tparen", t] => do pure (.paren (← tyOf? t))
  | .list [.atom "tgroup", t] => do pure (.group (← tyOf? t))
  | .list (.atom "tobj" :: bs) => do pure (.traitObject (← bs.mapM boundOf?))
  | .list (.atom "timpl" :: bs) => do pure (.implTrait (← bs.mapM boundOf?))
  | .atom "opaque" => some .opaque
  | _ => none
partial def optTy? : Sexp → Option (Option SType)
  | .atom "none" => some none
  | x => (tyOf? x).map some
partial def pathOf? : Sexp → Option SPath
  | .list (.atom "p" :: g :: segs) => do pure (.mk (← g.asBool?) (← segs.mapM segOf?))
  | _ => none
partial def segOf? : Sexp → Option SSeg
  | .list [.atom "seg", .str i, a] => do pure (.mk i (← argsOf? a))
  | _ => none
partial def argsOf? : Sexp → Option SArgs
  | .atom "none" => some .none
  | .list (.atom "angle" :: as) => do pure (.angle (← as.mapM gargOf?))
  | .list [.atom "paren", .list ins, out] => do pure (.paren (← ins.mapM tyOf?) (← optTy? out))
  | _ => none
partial def gargOf? : Sexp → Option SGArg
  | .list [.atom "ty", t] => do pure (.ty (← tyOf? t))
  | .list [.atom "assoc", t] => do pure (.assocTy (← tyOf? t))
  | .list (.atom "constraint" :: bs) => do pure (.constraint (← bs.mapM boundOf?))
  | .list [.atom "lt", .str l] => some (.lifetime l)
  | .atom "other" => some .other
  | _ => none
partial def boundOf? : Sexp → Option SBound
  | .list [.atom "trait", .list binder, p] => do
      let b ← binder.mapM (fun x => match x with
        | .list [.atom "lt", .str l, bs] => do pure (l, ← strs? bs)
        | _ => none)
      pure (.trait b (← pathOf? p))
  | .list [.atom "lt", .str l] => some (.lifetime l)
  | _ => none
end

/-- sets are compared as sorted, de-duplicated lists -/
def insertSorted (x : String) : List String → List String
  | [] => [x]
  | y :: ys => if x < y then x :: y :: ys else if x == y then y :: ys else y :: insertSorted x ys

def canonSet (xs : List String) : Sexp := .list ((xs.foldr insertSorted []).map Sexp.str)

def answer (c : Sexp) : String :=
  match c with
  | .list [.atom "c19a", d, S, L, t] =>
      (match d.asBool?, strs? S, strs? L, tyOf? t with
       | some d, some S, some L, some t =>
           toString (tagged "uses" [canonSet (Usage.tyParams d S t), canonSet (Usage.tyLts d L t)])
       | _, _, _, _ => "bad-case")
  | .list [.atom "c19b", declared, .list fields] =>
      (match strs? declared, fields.mapM (fun f => match f with
          | .list [.atom "field", t, s] => do pure (⟨← tyOf? t, ← s.asBool?⟩ : Usage.BField)
          | _ => none) with
       | some decl, some fs =>
           toString (tagged "bounded" ((Usage.boundedParams decl (Usage.usedInFields decl fs)).map Sexp.str))
       | _, _ => "bad-case")
  | .list [.atom "c19b-enum", declared, .list variants] =>
      (match strs? declared, variants.mapM (fun v => match v with
          | .list [.atom "variant", s, .list fields] => do
              let fs ← fields.mapM (fun f => match f with
                | .list [.atom "field", t, sk] => do pure (⟨← tyOf? t, ← sk.asBool?⟩ : Usage.BField)
                | _ => none)
              pure (← s.asBool?, fs)
          | _ => none) with
       | some decl, some vs =>
           toString (tagged "bounded" ((Usage.boundedParams decl (Usage.usedInVariants decl vs)).map Sexp.str))
       | _, _ => "bad-case")
  | _ => "bad-case"

end Driver.C19
