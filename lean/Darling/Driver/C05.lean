import Darling.Codec
import Darling.Accum
open Sexp Codec

namespace Driver.C05

def opOf? : Sexp → Option AOp
  | .list [.atom "push", e] => do pure (.push (← errOf? e))
  | .list [.atom "hok", n] => do pure (.handleOk (← n.asNat?))
  | .list [.atom "herr", e] => do pure (.handleErr (← errOf? e))
  | .list [.atom "hiok", n] => do pure (.handleInOk (← n.asNat?))
  | .list [.atom "hierr", e] => do pure (.handleInErr (← errOf? e))
  | .list (.atom "extend" :: es) => do pure (.extend (← es.mapM errOf?))
  | .list [.atom "checkpoint"] => some .checkpoint
  | _ => none

def endOf? : Sexp → Option AEnd
  | .list [.atom "finish"] => some .finish
  | .list [.atom "finishwith", n] => do pure (.finishWith (← n.asNat?))
  | .list [.atom "intoinner"] => some .intoInner
  | .list [.atom "drop", b] => do pure (.drop (← b.asBool?))
  | _ => none

def outToSexp : AOut → Sexp
  | .unit => atom "unit"
  | .some v => tagged "some" [nat v]
  | .none => atom "none"
  | .okUnit => atom "ok-unit"
  | .ok v => tagged "ok" [nat v]
  | .err e => tagged "err" [obsErr e]
  | .fresh => atom "fresh"
  | .errs es => tagged "errs" (es.map obsErr)
  | .panic m => tagged "panic" [.str m]
  | .quiet => atom "quiet"

def answer (c : Sexp) : String :=
  match c with
  | .list [.atom "hist", .list ops, e] =>
      match ops.mapM opOf?, endOf? e with
      | some ops, some e => toString (tagged "trace" ((Accum.run [] ops e).map outToSexp))
      | _, _ => "bad-case"
  | _ => "bad-case"

end Driver.C05
