import Darling.DeclCodec
import Darling.Derive.Env
import Darling.FromMeta.SpanWF
/-
  Driver for derived receivers:
    decl lines (prelude):  decl <Name> <Trait> <decl-sexp>
    cases:  (recv "Name" (meta M) <oracle>)  — a FromMeta receiver converting one item
            (derive <Trait> <decl-sexp> <oracle>) — the derive-time verdict on a declaration
-/
open Sexp Codec SyntaxCodec DeclCodec Options

namespace Driver.Recv

abbrev Corpus := List (String × Trait × DeclD × DeclSpans)

def addDecl (c : Corpus) (name : String) (trait : String) (s : Sexp) : Corpus :=
  match traitOf? (.atom trait), declOf? s with
  | some t, some (d, sp) => c ++ [(name, t, d, sp)]
  | _, _ => c

/-- derive-time verdict: `impl`, the rows of the error (= the compile errors written), or panic -/
def deriveAnswer (o : Oracle) (thr : Nat) (t : Trait) (d : DeclD) (sp : DeclSpans) : String :=
  let sim := fun (n : String) => Suggest.didYouMean thr [("with", o.score n "with")]
  match derive t o sim sp d with
  | .ok _ => "(impl)"
  | .err e => toString (tagged "errors" (e.toSyn.map synRowOf))
  | .panic _ => "(panic)"

def answer (corpus : Corpus) (global : Oracle) (thr : Nat) (c : Sexp) : String :=
  match c with
  | .list [.atom "recv", .str name, entry, orc] =>
      (match Driver.FM.oracleOf? orc with
       | none => "bad-case"
       | some o =>
           let o := o.merge global
           let env : Env.T := { decls := corpus, oracle := o, thr := thr }
           let h := Env.recvHooks env name
           match entry with
           | .list [.atom "meta", m] =>
               (match metaOf? m with
                | some m => (h.fromMeta m).toAnswer
                | none => "bad-case")
           | .list [.atom "none"] =>
               (match h.fromNone with
                | some v => toString (tagged "some" [v.toSexp])
                | none => "none")
           | _ => "bad-case")
  | .list [.atom "outer", .str name, el, orc] =>
      (match Driver.FM.oracleOf? orc with
       | none => "bad-case"
       | some o =>
           let env : Env.T := { decls := corpus, oracle := o.merge global, thr := thr }
           let elem : Option Derive.Elem := match el with
             | .list [.atom "di", d] => (declOf? d).map (fun x => .deriveInput x.1)
             | .list [.atom "fld", f] => (fieldOf? f).map .field
             | .list [.atom "var", v] => (variantOf? v).map (fun x => .variant x.1)
             | .list [.atom "tp", t] => (typeParamOf? t).map .typeParam
             | .list (.atom "attrs" :: as) => (as.mapM attrOf?).map .attrs
             | _ => none
           match elem with
           | some el => (Env.outerRun env name el).toAnswer
           | none => "bad-case")
  | .list [.atom "fieldsprint", .atom style, .list toks] =>
      let st : Option Style := match style with
        | "named" => some .named | "tuple" => some .tuple | "unit" => some .unit | _ => none
      (match st, toks.mapM (fun | .str s => some s | _ => none) with
       | some st, some ts => toString (Sexp.str (Derive.printFields st ts))
       | _, _ => "bad-case")
  | .list [.atom "derive", tr, decl, orc] =>
      (match traitOf? tr, declOf? decl, Driver.FM.oracleOf? orc with
       | some t, some (d, sp), some o => deriveAnswer (o.merge global) thr t d sp
       | _, _, _ => "bad-case")
  | _ => "bad-case"

/-- the hypotheses of `C03.recv_allWithin` evaluated on this case: the item is span-well-formed
    and every answer of the array oracle lies inside it -/
def hyp (global : Oracle) (c : Sexp) : Option Bool :=
  match c with
  | .list [.atom "recv", .str _, .list [.atom "meta", m], orc] =>
      match Driver.FM.oracleOf? orc, metaOf? m with
      | some o, some m => some (m.spanWF && (o.merge global).arrsWithin m.span)
      | _, _ => none
  | _ => none

end Driver.Recv
