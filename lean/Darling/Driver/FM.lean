import Darling.SyntaxCodec
import Darling.FromMeta.Universe
import Darling.Generated.Facts
import Darling.FromMeta.SpanWF
/-
  Driver for conversions through the FromMeta family (C11, C12, C15b, later C13/C14):
    (fm <ty> <entry> <oracle>)
  entry: (meta M) | (nested N) | (none)
-/
open Sexp Codec SyntaxCodec

namespace Driver.FM

def intSpecOf? (name : String) : Option IntSpec :=
  match Generated.intTargets.find? (fun r => r.1 == name) with
  | some (n, s, b, z) => some ⟨n, s, b, z⟩
  | none => none

def litKindOf? (k : String) : Option SynTypes.LitKind :=
  if !(Generated.litKinds.contains k) then none else
  match k with
  | "Int" => some .int | "Float" => some .float | "Str" => some .str | "Byte" => some .byte
  | "ByteStr" => some .byteStr | "Char" => some .char | "Bool" => some .bool | "Verbatim" => some .verbatim
  | _ => none

partial def tyOf? : Sexp → Option Ty
  | .atom "unit" => some .unit
  | .atom "bool" => some .bool
  | .atom "char" => some .char
  | .atom "string" => some .string
  | .atom "pathbuf" => some .pathBuf
  | .atom "atomicbool" => some .atomicBool
  | .atom "flag" => some .flag
  | .list [.atom "int", .str n] => do pure (.int (← intSpecOf? n))
  | .list [.atom "float", w] => do
      let w ← w.asNat?
      if Generated.floatTargets.contains ("f" ++ toString w) then pure (.float w) else none
  | .list [.atom "option", t] => do pure (.option (← tyOf? t))
  | .list [.atom "ptr", .str p, t] => do
      if Generated.smartPointers.contains (p ++ "<T>") then pure (.ptr (← tyOf? t)) else none
  | .list [.atom "result", t] => do pure (.result (← tyOf? t))
  | .list [.atom "resultmeta", t] => do pure (.resultMeta (← tyOf? t))
  | .list [.atom "override", t] => do pure (.override (← tyOf? t))
  | .list [.atom "spanned", t] => do pure (.spanned (← tyOf? t))
  | .list [.atom "withorig", t] => do pure (.withOrig (← tyOf? t))
  | .list [.atom "probe", m, f] => do
      let mode ← match f with
        | .atom "false" => some 0
        | .atom "true" => some 1
        | .atom "bundle" => some 2
        | _ => none
      pure (.probe (← m.asNat?) mode)
  | .atom "syn-expr" => some .synExpr
  | .atom "syn-path" => some .synPath
  | .atom "syn-ident" => some .synIdent
  | .atom "ident-string" => some .identString
  | .list [.atom "syn-expr-ty", .str v] => (match v with
      | "ExprArray" => some (.synExprTy .array)
      | "ExprPath" => some (.synExprTy .path)
      | "ExprRange" => some (.synExprTy .range)
      | _ => none)
  | .list [.atom "syn-parse", .str k] => if Generated.synParseTypes.contains k then some (.synParse k) else none
  | .atom "where-preds" => some .wherePreds
  | .atom "rename-rule" => some .renameRule
  | .list [.atom "punctuated", .str k] => some (.punctuated k)
  | .atom "lit" => some .lit
  | .list [.atom "lit-kind", .str k] => do pure (.litKind (← litKindOf? k))
  | .list [.atom "vec-lit", .str k] => do pure (.vecLit (← litKindOf? k))
  | .list [.atom "num-array", .str n] => do
      if Generated.numericArrays.contains n then pure (.numArray (← intSpecOf? n)) else none
  | .atom "syn-meta" => some .synMeta
  | .atom "ignored" => some .ignored
  | .atom "path-list" => some .pathList
  | .atom "callable" => some .callable
  | .list [.atom "map", .str kind, .str key, t] => do
      if !(Generated.mapInstances.contains (kind, key)) then none
      let k ← (match key with
        | "String" => some Maps.KeyKind.string
        | "syn::Ident" => some Maps.KeyKind.ident
        | "syn::Path" => some Maps.KeyKind.path
        | _ => none)
      pure (.map k (kind == "btree_map") (← tyOf? t))
  | .list [.atom "vec", t] => do pure (.vec (← tyOf? t))
  | .list [.atom "recv", .str n] => some (.recv n)
  | _ => none

def optNat? : Sexp → Option (Option Nat)
  | .atom "none" => some none
  | x => do pure (some (← x.asNat?))

def oracleOf? : Sexp → Option Oracle
  | .list (.atom "oracle" :: rows) => do
      let mut o : Oracle := {}
      for r in rows do
        match r with
        | .list [.atom "f", w, .str s, res] =>
            o := { o with floats := (← w.asNat?, s, ← optNat? res) :: o.floats }
        | .list [.atom "syn", .str k, .str s, res] =>
            o := { o with syns := (k, s, ← optStr? res) :: o.syns }
        | .list [.atom "val", .str k, v] =>
            o := { o with vals := (k, ← Val.ofSexp? v) :: o.vals }
        | .list [.atom "sim", .str a, .str b, n] =>
            o := { o with scores := (a, b, ← n.asNat?) :: o.scores }
        | .list [.atom "arr", .str s, res] =>
            let e ← (match res with
              | .atom "none" => some none
              | x => (exprOf? x).map some)
            o := { o with arrs := (s, e) :: o.arrs }
        | _ => none
      pure o
  | _ => none

/-- `util::parse_expr::{preserve_str_literal, parse_str_literal}` (used through `with = ..`) -/
def helperAnswer (c : Sexp) : Option String :=
  match c with
  | .list [.atom "helper", .atom which, .list [.atom "meta", m], orc] =>
      (match metaOf? m, oracleOf? orc with
       | some m, some o =>
           if which == "preserve" then some ((SynTypes.preserveStrLiteral Val.toks m).toAnswer)
           else some ((SynTypes.parseStrLiteral (o.parseSyn "Expr") Val.toks m).toAnswer)
       | _, _ => some "bad-case")
  | _ => none

def answer (c : Sexp) : String :=
  match helperAnswer c with
  | some a => a
  | none =>
  match c with
  | .list [.atom "fm", ty, entry, orc] =>
      match tyOf? ty, oracleOf? orc with
      | some ty, some o =>
          let h := hooksOf o (fun _ => {}) ty
          match entry with
          | .list [.atom "meta", m] =>
              (match metaOf? m with
               | some m => (h.fromMeta m).toAnswer
               | none => "bad-case")
          | .list [.atom "nested", n] =>
              (match nestedOf? n with
               | some n => (h.fromNestedMeta n).toAnswer
               | none => "bad-case")
          | .list [.atom "word"] => h.fromWord.toAnswer
          | .list (.atom "list" :: items) =>
              (match items.mapM nestedOf? with
               | some xs => (h.fromList xs).toAnswer
               | none => "bad-case")
          | .list [.atom "string", .str s] => (h.fromString s).toAnswer
          | .list [.atom "boolv", b] => (match b.asBool? with
               | some b => (h.fromBool b).toAnswer
               | none => "bad-case")
          | .list [.atom "charv", c] => (match c.asNat? with
               | some n => (h.fromChar (Char.ofNat n)).toAnswer
               | none => "bad-case")
          | .list [.atom "value", l] => (match litOf? l with
               | some l => (h.fromValue l).toAnswer
               | none => "bad-case")
          | .list [.atom "expr", e] => (match exprOf? e with
               | some e => (h.fromExpr e).toAnswer
               | none => "bad-case")
          | .list [.atom "none"] =>
              (match h.fromNone with
               | some v => toString (tagged "some" [v.toSexp])
               | none => "none")
          | _ => "bad-case"
      | _, _ => "bad-case"
  | _ => "bad-case"

/-- the hypotheses of `C03.builtin_allWithin` evaluated on this case (`none`: the case hands no
    syntax item to the conversion): the item is span-well-formed and, where the target consults the
    `ExprArray` oracle, the oracle's answers lie inside the item -/
def hyp (c : Sexp) : Option Bool :=
  match c with
  | .list [.atom "fm", ty, entry, orc] =>
      match tyOf? ty, oracleOf? orc with
      | some ty, some o =>
          match entry with
          | .list [.atom "meta", m] =>
              (metaOf? m).map fun m => m.spanWF && (!ty.usesArr || o.arrsWithin m.span)
          | .list [.atom "nested", n] =>
              (nestedOf? n).map fun n => n.spanWF && (!ty.usesArr || o.arrsWithin n.span)
          | _ => none
      | _, _ => none
  | _ => none

end Driver.FM
