import Darling.SyntaxCodec
import Darling.FromMeta.ParseList
/-
  Driver for C15(a):
    (c15a (toks T...) (lits (i len "s")...) (metas (i ok len "s") | (i err "msg" lo hi) ...))
  T: (id "name" lo hi) | (p "c" joint lo hi) | (l lo hi) | (g lo hi)
-/
open Sexp Codec SyntaxCodec ParseList

namespace Driver.C15a

def tokOf? : Sexp → Option Tok
  | .list [.atom "id", .str n, lo, hi] => do pure ⟨.ident n, ← mkSpan? lo hi⟩
  | .list [.atom "p", .str c, j, lo, hi] => do
      match c.toList with
      | [ch] => pure ⟨.punct ch (← j.asBool?), ← mkSpan? lo hi⟩
      | _ => none
  | .list [.atom "l", lo, hi] => do pure ⟨.literal, ← mkSpan? lo hi⟩
  | .list [.atom "g", lo, hi] => do pure ⟨.group, ← mkSpan? lo hi⟩
  | _ => none

def litRow? : Sexp → Option (Nat × Nat × String)
  | .list [i, len, .str s] => do pure (← i.asNat?, ← len.asNat?, s)
  | _ => none

def metaRow? : Sexp → Option (Nat × Except (String × Option Span) (Nat × String))
  | .list [i, .atom "ok", len, .str s] => do pure (← i.asNat?, .ok (← len.asNat?, s))
  | .list [i, .atom "err", .str msg, lo, hi] => do
      let sp ← mkSpan? lo hi
      pure (← i.asNat?, .error (msg, if sp.lo == 0 && sp.hi == 0 then none else some sp))
  | _ => none

def answer (c : Sexp) : String :=
  match c with
  | .list [.atom "c15a", .list (.atom "toks" :: ts), .list (.atom "lits" :: ls), .list (.atom "metas" :: ms)] =>
      (match ts.mapM tokOf?, ls.mapM litRow?, ms.mapM metaRow? with
       | some toks, some lits, some metas =>
           let o : SynOracle :=
             { lit := fun i => (lits.find? (·.1 == i)).map (·.2),
               meta_ := fun i => match metas.find? (·.1 == i) with
                 | some (_, r) => r
                 | none => .error ("no oracle row", none) }
           (match parseList toks o with
            | .ok items => toString (tagged "ok" (items.map (fun
                | .lit s => tagged "lit" [.str s]
                | .item s => tagged "item" [.str s])))
            | .error (msg, sp) => toString (tagged "err" [.str msg, spanToSexp sp]))
       | _, _, _ => "bad-case")
  | _ => "bad-case"

end Driver.C15a
