import Darling.SyntaxCodec
import Darling.Shape
import Darling.Val
import Darling.Decl
open Sexp Codec SyntaxCodec

namespace Driver.C18

def shapeOf? : Sexp → Option Shape
  | .atom "named" => some .named
  | .atom "tuple" => some .tuple
  | .atom "unit" => some .unit
  | .atom "newtype" => some .newtype
  | _ => none

def bodyOf? : Sexp → Option BodyShape
  | .list [.atom "struct", s] => do pure (.struct (← shapeOf? s))
  | .list (.atom "enum" :: vs) => do pure (.enum (← vs.mapM shapeOf?))
  | .atom "union" => some .union
  | _ => none

def unitAnswer (name : String) (o : Outcome Unit) : String :=
  match o with
  | .ok () => toString (tagged "ok" [tagged "rec" [.str name]])
  | .err e => toString (tagged "err" [obsErr e])
  | .panic _ => "(panic)"

def answer (c : Sexp) : String :=
  match c with
  | .list [.atom "c18api", .list members, sh] =>
      (match members.mapM shapeOf?, shapeOf? sh with
       | some ms, some sh =>
           let set := ShapeSet.ofList ms
           let check := match set.check sh with
             | .ok () => atom "ok"
             | .err e => tagged "err" [obsErr e]
             | .panic _ => atom "panic"
           let disp := match set.display with
             | .ok d => Sexp.str d
             | _ => atom "panic"
           toString (tagged "api" [Sexp.bool (set.containsShape sh), check, disp, Sexp.bool set.isEmpty])
       | _, _ => "bad-case")
  | .list [.atom "c18shape", .atom style, n, .str _] =>
      -- every `AsShape` implementor names a body's shape alike: the style, one unnamed field = newtype
      (match (match style with | "named" => some Style.named | "tuple" => some Style.tuple | "unit" => some Style.unit | _ => none), n.asNat? with
       | some st, some n =>
           let name := match st.shape n with
             | .named => "named" | .tuple => "tuple" | .unit => "unit" | .newtype => "newtype"
           toString (tagged "shape" [atom name])
       | _, _ => "bad-case")
  | .list [.atom "c18recv", .atom kind, supports, body] =>
      (match metaOf? supports, bodyOf? body with
       | some (.list _ items none _ _ _), some b =>
           if kind == "fdi" then
             -- `supports = FromMeta::from_meta(mi)?` at derive time, `__validate_body` at run time;
             -- the only error of the receiver is the validator's (a bundle of one is that one)
             (match DISS.fromList items with
              | .ok d => (match d.validateBody b with
                  | .ok () => toString (tagged "ok" [tagged "rec" []])
                  | .err e => toString (tagged "err" [obsErr e])
                  | .panic _ => "(panic)")
              | _ => "derive-error")
           else
             (match DataShape.fromList items, b with
              | .ok d, .struct s => (match d.toShapeSet.check s with
                  | .ok () => toString (tagged "ok" [tagged "rec" []])
                  | .err e => toString (tagged "err" [obsErr e])
                  | .panic _ => "(panic)")
              | _, _ => "derive-error")
       | _, _ => "bad-case")
  | _ => "bad-case"

end Driver.C18
