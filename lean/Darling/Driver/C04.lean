import Darling.Codec
import Darling.Suggest
/-
  C04 driver: a history of public-API calls on `darling::Error` values, as a stack program.
-/
open Sexp Codec

namespace Driver.C04

inductive EOp where
  | leaf (k : Kind)
  | unknownAlts (n : String) (alts : List (String × Nat))   -- Error::unknown_field_with_alts
  | «at» (l : String)
  | span (s : Span)
  | multiple (n : Nat)
  | flatten
  | dup
  | iter
  | swap
  | siblingAlts (alts : List (String × List (String × Nat)))  -- per unknown name: candidate scores
  deriving Repr, Inhabited

def altsOf? : Sexp → Option (List (String × Nat))
  | .list xs => xs.mapM (fun x => match x with
      | .list [.str a, sc] => do pure (a, ← sc.asNat?)
      | _ => none)
  | _ => none

def opOf? : Sexp → Option EOp
  | .list [.atom "leaf", k] => do pure (.leaf (← kindOf? k))
  | .list [.atom "unknown_alts", .str n, alts] => do pure (.unknownAlts n (← altsOf? alts))
  | .list [.atom "at", .str l] => some (.at l)
  | .list [.atom "span", a, b] => do pure (.span ⟨← a.asNat?, ← b.asNat?⟩)
  | .list [.atom "multiple", n] => do pure (.multiple (← n.asNat?))
  | .list [.atom "flatten"] => some .flatten
  | .list [.atom "dup"] => some .dup
  | .list [.atom "iter"] => some .iter
  | .list [.atom "swap"] => some .swap
  | .list [.atom "sibling_alts", .list tbl] => do
      let t ← tbl.mapM (fun x => match x with
        | .list [.str n, alts] => do pure (n, ← altsOf? alts)
        | _ => none)
      pure (.siblingAlts t)
  | _ => none

/-- one API call on the stack (top = head); `none` = the call panicked -/
def exec (thr : Nat) (st : List Err) : EOp → Outcome (List Err)
  | .leaf k => .ok (Err.new k :: st)
  | .unknownAlts n alts => .ok (Err.new (.unknownField n (Suggest.didYouMean thr alts)) :: st)
  | .at l => match st with
      | e :: r => .ok (e.at l :: r)
      | [] => .ok st
  | .span s => match st with
      | e :: r => .ok (e.withSpan s :: r)
      | [] => .ok st
  | .multiple n =>
      -- pops `n` values; the vector is in push order (deepest first)
      let taken := (st.take n).reverse
      (Err.multiple taken).map (fun e => e :: st.drop n)
  | .flatten => match st with
      | e :: r => e.flatten.map (fun f => f :: r)
      | [] => .ok st
  | .dup => match st with
      | e :: r => .ok (e :: e :: r)
      | [] => .ok st
  | .iter => match st with
      | e :: r => .ok (e.intoIter.reverse ++ r)
      | [] => .ok st
  | .swap => match st with
      | a :: b :: r => .ok (b :: a :: r)
      | _ => .ok st
  | .siblingAlts tbl => match st with
      | e :: r =>
          let scores := fun n => match tbl.find? (fun p => p.1 == n) with
            | some p => p.2
            | none => []
          .ok (Suggest.addSiblingAlts thr scores e :: r)
      | [] => .ok st

def runProg (thr : Nat) : List Err → List EOp → Outcome (List Err)
  | st, [] => .ok st
  | st, op :: ops => match exec thr st op with
      | .ok st' => runProg thr st' ops
      | .err e => .err e
      | .panic m => .panic m

def answer (thr : Nat) (c : Sexp) : String :=
  match c with
  | .list (.atom "prog" :: ops) =>
      match ops.mapM opOf? with
      | some ops =>
          match runProg thr [] ops with
          | .ok st => toString (tagged "stack" (st.map obsErr))
          | .panic _ => "panic"
          | .err _ => "bad-case"
      | none => "bad-case"
  | _ => "bad-case"

end Driver.C04
