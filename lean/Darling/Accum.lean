import Darling.Error
/-
  Model of `darling_core::error::Accumulator` (core/src/error/mod.rs).

  `Accumulator(Option<Vec<Error>>)`: `some errs` = armed, `none` = defused.
  A history is a list of operations that borrow the accumulator (`push`, `handle`, `handle_in`,
  `extend`) or replace it (`checkpoint`, which consumes `self` and, on success, hands back a
  fresh one that the caller keeps using), followed by exactly one end: a consuming method or the
  accumulator going out of scope.  Rust's ownership makes every other order inexpressible: the
  consuming methods take `self`.
-/

inductive AOp where
  | push (e : Err)
  | handleOk (v : Nat)
  | handleErr (e : Err)
  | handleInOk (v : Nat)
  | handleInErr (e : Err)
  | extend (es : List Err)
  | checkpoint
  deriving Repr, Inhabited

inductive AEnd where
  | finish
  | finishWith (v : Nat)
  | intoInner
  | drop (unwinding : Bool)
  deriving Repr, Inhabited

/-- what the caller observes from one operation -/
inductive AOut where
  | unit                     -- `push`, `extend`
  | some (v : Nat)           -- `handle(Ok(v))`
  | none                     -- `handle(Err(_))`
  | okUnit                   -- `finish() == Ok(())`
  | ok (v : Nat)             -- `finish_with(v) == Ok(v)`
  | err (e : Err)            -- `finish*/checkpoint == Err(e)`
  | fresh                    -- `checkpoint() == Ok(fresh armed accumulator)`
  | errs (es : List Err)     -- `into_inner()`
  | panic (msg : String)     -- the drop bomb / `Error::multiple(vec![])`
  | quiet                    -- dropped without a panic
  deriving Repr, Inhabited

namespace Accum

/-- `Accumulator::handle` -/
def handle (errs : List Err) : Except Err Nat → List Err × AOut
  | .ok v => (errs, .some v)
  | .error e => (errs ++ [e], .none)

/-- `Accumulator::finish_with`: `into_inner`, then `Ok(success)` or `Err(Error::multiple(errors))` -/
def finishWith (errs : List Err) (okOut : AOut) : AOut :=
  if errs.isEmpty then okOut
  else match Err.multiple errs with
    | .ok e => .err e
    | .err e => .err e
    | .panic m => .panic m

/-- `impl Drop for Accumulator` -/
def dropOut (st : Option (List Err)) (unwinding : Bool) : AOut :=
  if !unwinding then
    match st with
    | some errs =>
        match errs.length with
        | 0 => .panic "darling::error::Accumulator dropped without being finished"
        | n => .panic ("darling::error::Accumulator dropped without being finished. " ++ toString n ++ " errors were lost.")
    | none => .quiet
  else .quiet

/-- the end of a history -/
def finishOp (errs : List Err) : AEnd → AOut
  | .finish => finishWith errs .okUnit
  | .finishWith v => finishWith errs (.ok v)
  | .intoInner => .errs errs
  | .drop unwinding => dropOut (some errs) unwinding

/-- run a history from an armed accumulator holding `errs`; the trace of outputs -/
def run (errs : List Err) : List AOp → AEnd → List AOut
  | [], e => [finishOp errs e]
  | .push x :: ops, e => .unit :: run (errs ++ [x]) ops e
  | .handleOk v :: ops, e => .some v :: run errs ops e
  | .handleErr x :: ops, e => .none :: run (errs ++ [x]) ops e
  | .handleInOk v :: ops, e => .some v :: run errs ops e
  | .handleInErr x :: ops, e => .none :: run (errs ++ [x]) ops e
  | .extend xs :: ops, e => .unit :: run (errs ++ xs) ops e
  | .checkpoint :: ops, e =>
      -- `self.finish()?; Ok(Self::default())`
      match finishWith errs .okUnit with
      | .okUnit => .fresh :: run [] ops e
      | out => [out]      -- `?` returned the error to the caller; no accumulator is left

end Accum
