/-
  Plain data types shared by model and specifications (no functions with control structure).
-/

inductive Shape where
  | named | tuple | unit | newtype
  deriving Repr, DecidableEq, Inhabited

/-- the body of the input element, as far as shape validation looks at it -/
inductive BodyShape where
  | struct (s : Shape)
  | enum (variants : List Shape)
  | union
  deriving Repr, DecidableEq, Inhabited
