/-
  S-expressions: the wire format between the Rust harness and the Lean model driver.
  One case per line.  Atoms are bare words or double-quoted strings with the escapes
  `\\`, `\"`, `\n`, `\t`, `\r` and `\u{HEX}`.
  No dependency on anything but core Lean, so the driver links as a `lean_exe`.
-/

inductive Sexp where
  | atom (s : String)
  | str (s : String)
  | list (xs : List Sexp)
  deriving Repr, Inhabited, BEq

namespace Sexp

def hexVal (c : Char) : Option Nat :=
  if '0' ≤ c ∧ c ≤ '9' then some (c.toNat - '0'.toNat)
  else if 'a' ≤ c ∧ c ≤ 'f' then some (c.toNat - 'a'.toNat + 10)
  else if 'A' ≤ c ∧ c ≤ 'F' then some (c.toNat - 'A'.toNat + 10)
  else none

/-- read a string body after the opening quote; returns the string and the rest -/
partial def readStr : List Char → List Char → Option (String × List Char)
  | acc, '"' :: rest => some (String.ofList acc.reverse, rest)
  | acc, '\\' :: 'n' :: rest => readStr ('\n' :: acc) rest
  | acc, '\\' :: 't' :: rest => readStr ('\t' :: acc) rest
  | acc, '\\' :: 'r' :: rest => readStr ('\r' :: acc) rest
  | acc, '\\' :: '\\' :: rest => readStr ('\\' :: acc) rest
  | acc, '\\' :: '"' :: rest => readStr ('"' :: acc) rest
  | acc, '\\' :: 'u' :: '{' :: rest =>
      let rec go (n : Nat) : List Char → Option (Nat × List Char)
        | '}' :: r => some (n, r)
        | c :: r => match hexVal c with
          | some v => go (n * 16 + v) r
          | none => none
        | [] => none
      match go 0 rest with
      | some (n, r) => readStr (Char.ofNat n :: acc) r
      | none => none
  | acc, c :: rest => readStr (c :: acc) rest
  | _, [] => none

def isDelim (c : Char) : Bool := c = '(' || c = ')' || c = ' ' || c = '"' || c = '\n' || c = '\t'

partial def parseOne : List Char → Option (Sexp × List Char)
  | ' ' :: rest => parseOne rest
  | '\t' :: rest => parseOne rest
  | '\n' :: rest => parseOne rest
  | '(' :: rest =>
      let rec items (acc : List Sexp) (cs : List Char) : Option (Sexp × List Char) :=
        match cs with
        | ' ' :: r => items acc r
        | ')' :: r => some (Sexp.list acc.reverse, r)
        | [] => none
        | _ => match parseOne cs with
          | some (x, r) => items (x :: acc) r
          | none => none
      items [] rest
  | '"' :: rest => match readStr [] rest with
      | some (s, r) => some (Sexp.str s, r)
      | none => none
  | ')' :: _ => none
  | [] => none
  | cs =>
      let tok := cs.takeWhile (fun c => !isDelim c)
      let rest := cs.dropWhile (fun c => !isDelim c)
      some (Sexp.atom (String.ofList tok), rest)

def parse (s : String) : Option Sexp :=
  match parseOne s.toList with
  | some (x, rest) => if rest.all (fun c => c = ' ' || c = '\n' || c = '\r') then some x else none
  | none => none

def hexDigit (n : Nat) : Char :=
  if n < 10 then Char.ofNat ('0'.toNat + n) else Char.ofNat ('a'.toNat + (n - 10))

partial def toHex (n : Nat) : String :=
  if n < 16 then String.singleton (hexDigit n) else toHex (n / 16) ++ String.singleton (hexDigit (n % 16))

def escapeChar (c : Char) : String :=
  if c = '\\' then "\\\\"
  else if c = '"' then "\\\""
  else if c = '\n' then "\\n"
  else if c = '\t' then "\\t"
  else if c = '\r' then "\\r"
  else if c.toNat < 32 || c.toNat ≥ 127 then "\\u{" ++ toHex c.toNat ++ "}"
  else String.singleton c

def quote (s : String) : String :=
  "\"" ++ String.join (s.toList.map escapeChar) ++ "\""

partial def render : Sexp → String
  | atom s => s
  | str s => quote s
  | list xs => "(" ++ " ".intercalate (xs.map render) ++ ")"

instance : ToString Sexp := ⟨render⟩

/-! accessors used by decoders -/
def asNat? : Sexp → Option Nat
  | atom s => s.toNat?
  | _ => none

def asInt? : Sexp → Option Int
  | atom s => s.toInt?
  | _ => none

def asStr? : Sexp → Option String
  | str s => some s
  | _ => none

def asBool? : Sexp → Option Bool
  | atom "true" => some true
  | atom "false" => some false
  | _ => none

def nat (n : Nat) : Sexp := atom (toString n)
def int (n : Int) : Sexp := atom (toString n)
def bool (b : Bool) : Sexp := atom (if b then "true" else "false")
def tagged (t : String) (xs : List Sexp) : Sexp := list (atom t :: xs)

end Sexp
