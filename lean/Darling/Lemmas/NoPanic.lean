import Darling.FromMeta.Hooks
/-
  "Returns instead of panicking" as a property of hook records, closed under the default routing.
-/

/-- an outcome that is not a panic -/
def Outcome.Returns {α : Type} (o : Outcome α) : Prop := ∀ m, o ≠ .panic m

namespace Outcome
variable {α β : Type}
theorem returns_ok (a : α) : (Outcome.ok a).Returns := by intro m h; cases h
theorem returns_err (e : Err) : (Outcome.err e : Outcome α).Returns := by intro m h; cases h
theorem Returns.mapErr {o : Outcome α} (h : o.Returns) (f : Err → Err) : (o.mapErr f).Returns := by
  cases o with
  | ok a => exact returns_ok a
  | err e => exact returns_err _
  | panic m => exact absurd rfl (h m)
theorem Returns.map {o : Outcome α} (h : o.Returns) (f : α → β) : (o.map f).Returns := by
  cases o with
  | ok a => exact returns_ok _
  | err e => exact returns_err _
  | panic m => exact absurd rfl (h m)
theorem Returns.bind {o : Outcome α} (h : o.Returns) (f : α → Outcome β) (hf : ∀ a, (f a).Returns) : (o.bind f).Returns := by
  cases o with
  | ok a => exact hf a
  | err e => exact returns_err _
  | panic m => exact absurd rfl (h m)
end Outcome

namespace Hooks
variable {α : Type}

/-- every overridden method returns -/
structure NP (h : Hooks α) : Prop where
  nested : ∀ f, h.fromNestedMeta? = some f → ∀ n, (f n).Returns
  meta_ : ∀ f, h.fromMeta? = some f → ∀ m, (f m).Returns
  word : ∀ r, h.fromWord? = some r → r.Returns
  list : ∀ f, h.fromList? = some f → ∀ items, (f items).Returns
  value : ∀ f, h.fromValue? = some f → ∀ l, (f l).Returns
  expr : ∀ f, h.fromExpr? = some f → ∀ e, (f e).Returns
  char : ∀ f, h.fromChar? = some f → ∀ c, (f c).Returns
  string : ∀ f, h.fromString? = some f → ∀ s, (f s).Returns
  bool : ∀ f, h.fromBool? = some f → ∀ b, (f b).Returns

variable {h : Hooks α}

theorem NP.fromWord (np : h.NP) : h.fromWord.Returns := by
  unfold Hooks.fromWord
  cases hw : h.fromWord? with
  | some r => exact np.word r hw
  | none => exact Outcome.returns_err _

theorem NP.fromList (np : h.NP) (items : List NestedMeta) : (h.fromList items).Returns := by
  unfold Hooks.fromList
  cases hw : h.fromList? with
  | some f => exact np.list f hw items
  | none => exact Outcome.returns_err _

theorem NP.fromChar (np : h.NP) (c : Char) : (h.fromChar c).Returns := by
  unfold Hooks.fromChar
  cases hw : h.fromChar? with
  | some f => exact np.char f hw c
  | none => exact Outcome.returns_err _

theorem NP.fromString (np : h.NP) (s : String) : (h.fromString s).Returns := by
  unfold Hooks.fromString
  cases hw : h.fromString? with
  | some f => exact np.string f hw s
  | none => exact Outcome.returns_err _

theorem NP.fromBool (np : h.NP) (b : Bool) : (h.fromBool b).Returns := by
  unfold Hooks.fromBool
  cases hw : h.fromBool? with
  | some f => exact np.bool f hw b
  | none => exact Outcome.returns_err _

theorem NP.fromValue (np : h.NP) (l : Lit) : (h.fromValue l).Returns := by
  unfold Hooks.fromValue
  cases hw : h.fromValue? with
  | some f => exact np.value f hw l
  | none =>
      unfold Hooks.fromValueD
      apply Outcome.Returns.mapErr
      cases l.v <;> first | exact np.fromBool _ | exact np.fromString _ | exact np.fromChar _ | exact Outcome.returns_err _

theorem NP.fromExprD (np : h.NP) : (e : Expr) → (h.fromExprD e).Returns
  | .lit l => by simp only [Hooks.fromExprD]; exact (np.fromValue l).mapErr _
  | .group g sp => by simp only [Hooks.fromExprD]; exact (NP.fromExprD np g).mapErr _
  | .path _ _ => by simp only [Hooks.fromExprD]; exact (Outcome.returns_err _).mapErr _
  | .qpath _ _ _ => by simp only [Hooks.fromExprD]; exact (Outcome.returns_err _).mapErr _
  | .array _ _ _ => by simp only [Hooks.fromExprD]; exact (Outcome.returns_err _).mapErr _
  | .other _ _ _ => by simp only [Hooks.fromExprD]; exact (Outcome.returns_err _).mapErr _

theorem NP.fromExpr (np : h.NP) (e : Expr) : (h.fromExpr e).Returns := by
  unfold Hooks.fromExpr
  cases hw : h.fromExpr? with
  | some f => exact np.expr f hw e
  | none => exact np.fromExprD e

/-- **closure under the default routing**: an implementor whose own methods return never panics,
    whatever item it is handed -/
theorem NP.fromMeta (np : h.NP) (m : Meta) : (h.fromMeta m).Returns := by
  unfold Hooks.fromMeta
  cases hw : h.fromMeta? with
  | some f => exact np.meta_ f hw m
  | none =>
      unfold Hooks.fromMetaD
      cases m with
      | path p => exact np.fromWord.mapErr _
      | list p items bad ts t sp =>
          cases bad with
          | some b => exact Outcome.returns_err _
          | none => exact (np.fromList items).mapErr _
      | nameValue p e t sp => exact (np.fromExpr e).mapErr _

theorem NP.fromNestedMeta (np : h.NP) (n : NestedMeta) : (h.fromNestedMeta n).Returns := by
  unfold Hooks.fromNestedMeta
  cases hw : h.fromNestedMeta? with
  | some f => exact np.nested f hw n
  | none =>
      unfold Hooks.fromNestedMetaD
      apply Outcome.Returns.mapErr
      cases n with
      | lit l => exact np.fromValue l
      | item m => exact np.fromMeta m

end Hooks
