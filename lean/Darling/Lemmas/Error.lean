import Darling.Error
import Darling.Spec.C04
/-
  Helper lemmas about the error model.
-/
open Spec.C04

namespace Err

@[simp] theorem lenList_nil : lenList [] = 0 := by simp [lenList]
@[simp] theorem lenList_cons (c : Err) (cs : List Err) : lenList (c :: cs) = len c + lenList cs := by
  simp [lenList]
@[simp] theorem len_leaf (k ls s) : len (leaf k ls s) = 1 := by simp [len]
@[simp] theorem len_multi (cs ls s) : len (multi cs ls s) = lenList cs := by simp [len]

theorem lenList_append (a b : List Err) : lenList (a ++ b) = lenList a + lenList b := by
  induction a with
  | nil => simp
  | cons x xs ih => simp [ih]; omega

@[simp] theorem intoVecListP_nil (pre sp) : intoVecListP pre sp [] = [] := by simp [intoVecListP]
@[simp] theorem intoVecListP_cons (pre sp c cs) :
    intoVecListP pre sp (c :: cs) = intoVecP pre sp c ++ intoVecListP pre sp cs := by
  simp [intoVecListP]
@[simp] theorem intoVecP_leaf (pre sp k ls s) :
    intoVecP pre sp (leaf k ls s) = [(leaf k (pre ++ ls) s).inheritSpan sp] := by simp [intoVecP]
@[simp] theorem intoVecP_multi (pre sp cs ls s) :
    intoVecP pre sp (multi cs ls s)
      = intoVecListP (pre ++ ls) (s.or sp) cs := by
  simp [intoVecP]

/-- a value is a leaf -/
def isLeaf : Err → Bool
  | leaf .. => true
  | multi .. => false

theorem inheritSpan_leaf (k ls s sp) : ∃ s', (leaf k ls s).inheritSpan sp = leaf k ls s' := by
  cases sp with
  | none => exact ⟨s, rfl⟩
  | some x => cases s <;> simp [inheritSpan, withSpan]

mutual
theorem intoVecP_allLeaf (pre sp) (e : Err) : ∀ x ∈ intoVecP pre sp e, x.isLeaf = true := by
  cases e with
  | leaf k ls s =>
      intro x hx
      obtain ⟨s', hs⟩ := inheritSpan_leaf k (pre ++ ls) s sp
      simp [hs] at hx; subst hx; rfl
  | multi cs ls s =>
      intro x hx
      simp at hx
      exact intoVecListP_allLeaf _ _ cs x hx
theorem intoVecListP_allLeaf (pre sp) (es : List Err) : ∀ x ∈ intoVecListP pre sp es, x.isLeaf = true := by
  cases es with
  | nil => intro x hx; simp at hx
  | cons c cs =>
      intro x hx
      simp at hx
      rcases hx with h | h
      · exact intoVecP_allLeaf pre sp c x h
      · exact intoVecListP_allLeaf pre sp cs x h
end

mutual
theorem intoVecP_length (pre sp) (e : Err) : (intoVecP pre sp e).length = e.len := by
  cases e with
  | leaf k ls s => simp
  | multi cs ls s => simp; exact intoVecListP_length _ _ cs
theorem intoVecListP_length (pre sp) (es : List Err) : (intoVecListP pre sp es).length = lenList es := by
  cases es with
  | nil => simp
  | cons c cs => simp [intoVecP_length pre sp c, intoVecListP_length pre sp cs]
end

/-- on a list of leaves, `intoVecListP [] none` is the identity -/
theorem intoVecListP_leaves_id (es : List Err) (h : ∀ x ∈ es, x.isLeaf = true) :
    intoVecListP [] none es = es := by
  induction es with
  | nil => simp
  | cons c cs ih =>
      have hc := h c (by simp)
      cases c with
      | leaf k ls s =>
          simp [inheritSpan]
          exact ih (fun x hx => h x (by simp [hx]))
      | multi cs' ls s => simp [isLeaf] at hc

theorem lenList_leaves (es : List Err) (h : ∀ x ∈ es, x.isLeaf = true) : lenList es = es.length := by
  induction es with
  | nil => simp
  | cons c cs ih =>
      have hc := h c (by simp)
      cases c with
      | leaf k ls s => simp [ih (fun x hx => h x (by simp [hx]))]; omega
      | multi cs' ls s => simp [isLeaf] at hc

/-- leaves of a `WF` tree: at least one, and a bundle has at least two -/
theorem lenList_ge_length (es : List Err) (h : ∀ c ∈ es, 1 ≤ c.len) : es.length ≤ lenList es := by
  induction es with
  | nil => simp
  | cons c cs ih =>
      have := h c (by simp)
      have := ih (fun x hx => h x (by simp [hx]))
      simp; omega

theorem WF_len_pos {e : Err} (h : WF e) : 1 ≤ e.len := by
  induction h with
  | leaf k ls s => simp
  | multi cs ls s h2 _ ih =>
      simp
      have := lenList_ge_length cs ih
      omega

theorem WF_multi_len {cs ls s} (h : WF (multi cs ls s)) : 2 ≤ (multi cs ls s).len := by
  cases h with
  | multi _ _ _ h2 hall =>
      simp
      have := lenList_ge_length cs (fun c hc => WF_len_pos (hall c hc))
      omega

end Err
