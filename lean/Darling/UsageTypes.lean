/-
  Mirror of `syn::Type` and friends, as far as the usage analysis (core/src/usage) looks.
  Data only (shared by model and spec).
-/

mutual
inductive SType where
  | path (qself : Option SType) (p : SPath)
  | ref (lt : Option String) (elem : SType)
  | ptr (elem : SType)
  | slice (elem : SType)
  | array (elem : SType)                               -- the length expression is not inspected
  | tuple (elems : List SType)
  | bareFn (inputs : List SType) (output : Option SType)
  | paren (elem : SType)
  | group (elem : SType)
  | traitObject (bounds : List SBound)
  | implTrait (bounds : List SBound)
  | opaque                                             -- Macro | Verbatim | Infer | Never
inductive SPath where
  | mk (global : Bool) (segs : List SSeg)
inductive SSeg where
  | mk (ident : String) (args : SArgs)
inductive SArgs where
  | none
  | angle (args : List SGArg)
  | paren (inputs : List SType) (output : Option SType)
inductive SGArg where
  | ty (t : SType)
  | assocTy (t : SType)
  | constraint (bounds : List SBound)
  | lifetime (l : String)
  | other                                              -- Const | AssocConst
inductive SBound where
  /-- `for<'a: 'b, ..> Path`: the binder's lifetimes with their bounds, then the trait path -/
  | trait (binder : List (String × List String)) (p : SPath)
  | lifetime (l : String)
end
