import Darling.Error
/-
  Model of the did-you-mean machinery (core/src/error/kind.rs: `did_you_mean`,
  `ErrorUnknownField::{with_alts, add_alts}`; core/src/error/mod.rs:
  `add_sibling_alts_for_unknown_field`).

  The similarity measure is external (`strsim::jaro_winkler`): candidates arrive as
  `(name, score)` pairs, scores being natural numbers (bit patterns of non-negative f64s).
  `thr` is the threshold literal of the source (regenerated table `Generated.Facts.threshold`).
-/

namespace Suggest

/-- one iteration of the `for pv in alternates` loop of `did_you_mean` -/
def dymStep (thr : Nat) (cand : Option (Nat × String)) (pv : String × Nat) : Option (Nat × String) :=
  let confidence := pv.2
  if confidence > thr && (cand.isNone || (match cand with | some c => c.1 < confidence | none => false))
  then some (confidence, pv.1) else cand

/-- `did_you_mean(field, alternates)` with the `suggestions` feature on -/
def didYouMean (thr : Nat) (alts : List (String × Nat)) : Option (Nat × String) :=
  alts.foldl (dymStep thr) none

/-- `did_you_mean` with the `suggestions` feature off -/
def didYouMeanOff (_alts : List (String × Nat)) : Option (Nat × String) := none

/-- `ErrorUnknownField::add_alts` -/
def addAlts (thr : Nat) (cur : Option (Nat × String)) (alts : List (String × Nat)) : Option (Nat × String) :=
  match didYouMean thr alts with
  | some bna =>
      match cur with
      | some c => if bna.1 > c.1 then some bna else cur
      | none => some bna
  | none => cur

mutual
/-- `Error::add_sibling_alts_for_unknown_field`; `scores n` are the candidates' scores against the
    unknown name `n` (each unknown-field leaf has its own name, hence its own scores) -/
def addSiblingAlts (thr : Nat) (scores : String → List (String × Nat)) : Err → Err
  | .leaf k ls sp =>
      if !ls.isEmpty then .leaf k ls sp else
      match k with
      | .unknownField n dym => .leaf (.unknownField n (addAlts thr dym (scores n))) ls sp
      | k => .leaf k ls sp
  | .multi cs ls sp =>
      if !ls.isEmpty then .multi cs ls sp else
      .multi (addSiblingAltsList thr scores cs) ls sp
def addSiblingAltsList (thr : Nat) (scores : String → List (String × Nat)) : List Err → List Err
  | [] => []
  | c :: cs => addSiblingAlts thr scores c :: addSiblingAltsList thr scores cs
end

end Suggest
