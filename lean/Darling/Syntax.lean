import Darling.Error
/-
  Mirror of the `syn` attribute syntax darling inspects.  Inputs arrive *already parsed*: the
  harness serialises the real syn tree (with byte-range spans).  Nodes that darling treats as
  opaque carry their printed token string (`toks`).
-/

structure Path where
  global : Bool              -- leading `::`
  segs : List String         -- segment identifiers
  plain : Bool               -- every segment has empty arguments
  toks : String              -- `to_token_stream().to_string()`
  span : Span
  first : Span := span       -- span of the first segment's identifier
  deriving Repr, Inhabited, BEq, DecidableEq

namespace Path
/-- `util::path_to_string` -/
def toStr (p : Path) : String := "::".intercalate p.segs
/-- `syn::Path::get_ident` -/
def getIdent (p : Path) : Option String :=
  match p.global, p.segs, p.plain with
  | false, [s], true => some s
  | _, _, _ => none
/-- `Path::is_ident(name)` -/
def isIdent (p : Path) (name : String) : Bool := p.getIdent == some name
end Path

inductive LitV where
  | str (s : String)
  | bool (b : Bool)
  | char (c : Char)
  | int (digits : String) (suffix : String)     -- `base10_digits()`, `suffix()`
  | float (digits : String) (suffix : String)
  | byteStr
  | byte
  | cstr
  | verbatim
  deriving Repr, Inhabited, BEq, DecidableEq

structure Lit where
  v : LitV
  toks : String
  span : Span
  deriving Repr, Inhabited, BEq, DecidableEq

/-- name used by `Error::unexpected_lit_type` -/
def Lit.typeName (l : Lit) : String :=
  match l.v with
  | .str _ => "string"
  | .byteStr => "byte string"
  | .byte => "byte"
  | .char _ => "char"
  | .int _ _ => "int"
  | .float _ _ => "float"
  | .bool _ => "bool"
  | .verbatim => "verbatim"
  | .cstr => "unknown"     -- `Lit::CStr` falls in the `_ => "unknown"` arm

inductive Expr where
  | lit (l : Lit)
  | path (p : Path) (span : Span)                       -- `Expr::Path` without qself
  | qpath (p : Path) (toks : String) (span : Span)      -- `Expr::Path` with a qualified self; `p` = its `.path`
  | group (e : Expr) (span : Span)                      -- invisible group
  | array (es : List Expr) (toks : String) (span : Span)
  | other (kind : String) (toks : String) (span : Span) -- kind as named by `unexpected_expr_type`
  deriving Repr, Inhabited, BEq

namespace Expr
def span : Expr → Span
  | lit l => l.span
  | path _ s => s
  | qpath _ _ s => s
  | group _ s => s
  | array _ _ s => s
  | other _ _ s => s
def kindName : Expr → String
  | lit _ => "lit"
  | path _ _ => "path"
  | qpath _ _ _ => "path"
  | group _ _ => "group"
  | array _ _ _ => "array"
  | other k _ _ => k
end Expr

mutual
inductive Meta where
  | path (p : Path)
  /-- `Meta::List`: `items` is the result of `NestedMeta::parse_meta_list(tokens)` when it
      succeeds; `bad = some (message, span)` when it fails (then `items = []`);
      `tokSpan` = `list.tokens.span()` (none for an empty token stream) -/
  | list (p : Path) (items : List NestedMeta) (bad : Option (String × Span)) (tokSpan : Option Span)
         (toks : String) (span : Span)
  | nameValue (p : Path) (e : Expr) (toks : String) (span : Span)
inductive NestedMeta where
  | item (m : Meta)
  | lit (l : Lit)
end

instance : Inhabited Meta := ⟨.path default⟩
instance : Inhabited NestedMeta := ⟨.lit default⟩

namespace Meta
def path' : Meta → Path
  | path p => p
  | list p _ _ _ _ _ => p
  | nameValue p _ _ _ => p
def span : Meta → Span
  | path p => p.span
  | list _ _ _ _ _ s => s
  | nameValue _ _ _ s => s
def toks : Meta → String
  | path p => p.toks
  | list _ _ _ _ t _ => t
  | nameValue _ _ t _ => t
end Meta

namespace NestedMeta
def span : NestedMeta → Span
  | item m => m.span
  | lit l => l.span
end NestedMeta

/-- `Error::unexpected_lit_type` -/
def Err.unexpectedLitType (l : Lit) : Err := .leaf (.unexpectedType l.typeName) [] (some l.span)
/-- `Error::unexpected_expr_type` -/
def Err.unexpectedExprType (e : Expr) : Err := .leaf (.unexpectedType e.kindName) [] (some e.span)
/-- `Error::unsupported_format` -/
def Err.unsupportedFormat (f : String) : Err := Err.new (.unexpectedFormat f)
/-- `Error::unknown_value` -/
def Err.unknownValue (v : String) : Err := Err.new (.unknownValue v)
/-- `Error::custom` -/
def Err.custom (s : String) : Err := Err.new (.custom s)

/-- printed tokens of an expression (`to_token_stream().to_string()`); an invisible group prints
    as its content -/
def Expr.toks : Expr → String
  | .lit l => l.toks
  | .path p _ => p.toks
  | .qpath _ t _ => t
  | .group g _ => g.toks
  | .array _ t _ => t
  | .other _ t _ => t
