import Darling.Sexp
import Darling.Error
/-
  Wire encoding of spans, kinds and error trees, and the canonical *observation* of an error
  (what the harness can read off a real `darling::Error` through its public API).
-/
open Sexp

namespace Codec

/-- an explicit span at the macro call site (`0..0` outside a proc macro) carries no position
    and is observed like an absent one -/
def spanToSexp : Option Span → Sexp
  | some s => if s.lo == 0 && s.hi == 0 then atom "none" else tagged "sp" [nat s.lo, nat s.hi]
  | none => atom "none"

def spanOf? : Sexp → Option (Option Span)
  | .atom "none" => some none
  | .list [.atom "sp", a, b] => do
      let lo ← a.asNat?
      let hi ← b.asNat?
      pure (some ⟨lo, hi⟩)
  | _ => none

def span1? (x : Sexp) : Option Span :=
  match spanOf? x with
  | some (some s) => some s
  | _ => none

def strs? : Sexp → Option (List String)
  | .list xs => xs.mapM Sexp.asStr?
  | _ => none

def optStr? : Sexp → Option (Option String)
  | .atom "none" => some none
  | .str s => some (some s)
  | _ => none

def kindOf? : Sexp → Option Kind
  | .list [.atom "custom", .str s] => some (.custom s)
  | .list [.atom "dup", .str s] => some (.duplicateField s)
  | .list [.atom "missing", .str s] => some (.missingField s)
  | .list [.atom "shape", .str o, e] => do
      let e ← optStr? e
      pure (.unsupportedShape o e)
  | .list [.atom "unknown", .str n, .atom "none"] => some (.unknownField n none)
  | .list [.atom "unknown", .str n, .list [.atom "dym", sc, .str alt]] => do
      let sc ← sc.asNat?
      pure (.unknownField n (some (sc, alt)))
  | .list [.atom "format", .str s] => some (.unexpectedFormat s)
  | .list [.atom "type", .str s] => some (.unexpectedType s)
  | .list [.atom "value", .str s] => some (.unknownValue s)
  | .list [.atom "toofew", n] => do pure (.tooFewItems (← n.asNat?))
  | .list [.atom "toomany", n] => do pure (.tooManyItems (← n.asNat?))
  | _ => none

partial def errOf? : Sexp → Option Err
  | .list [.atom "leaf", k, ls, sp] => do
      pure (.leaf (← kindOf? k) (← strs? ls) (← spanOf? sp))
  | .list [.atom "multi", .list cs, ls, sp] => do
      pure (.multi (← cs.mapM errOf?) (← strs? ls) (← spanOf? sp))
  | _ => none

/-- one flattened leaf as the harness sees it: `Display`, explicit span -/
def rowOf (e : Err) : Sexp := tagged "r" [.str e.display, spanToSexp e.span]

def synRowOf (r : Option Span × String) : Sexp := tagged "s" [.str r.2, spanToSexp r.1]

/-- canonical observation of an error value through the public API:
    `len()`, `to_string()`, `explicit_span()`, the rows of `flatten().into_iter()`,
    the number of items of `into_iter()`, the rows of `syn::Error::from(e).into_iter()` -/
def obsErr (e : Err) : Sexp :=
  tagged "e" [
    tagged "len" [nat e.len],
    tagged "disp" [.str e.display],
    tagged "span" [spanToSexp e.span],
    tagged "flat" (match e.flatten with
      | .ok f => f.intoIter.map rowOf
      | _ => [atom "panic"]),
    tagged "iter" [nat e.intoIter.length],
    tagged "syn" (e.toSyn.map synRowOf)]

end Codec
