import Darling.Error
/-
  `ident_case::RenameRule` (external crate, v1.0.1), modelled literally — including the byte
  slicing `s[..1]` that panics on an empty string or a non-ASCII first character.
  ASCII-exact; `char::is_uppercase` is approximated by ASCII upper case (non-ASCII identifiers are
  outside the generated corpus except as panic witnesses).
-/

inductive RenameRule where
  | none | lower | pascal | camel | snake | screaming | kebab
  deriving Repr, DecidableEq, Inhabited

namespace RenameRule

def ofString? : String → Option RenameRule
  | "lowercase" => some .lower
  | "PascalCase" => some .pascal
  | "camelCase" => some .camel
  | "snake_case" => some .snake
  | "SCREAMING_SNAKE_CASE" => some .screaming
  | "kebab-case" => some .kebab
  | _ => Option.none

def lowerAscii (c : Char) : Char := if 'A' ≤ c ∧ c ≤ 'Z' then Char.ofNat (c.toNat + 32) else c
def upperAscii (c : Char) : Char := if 'a' ≤ c ∧ c ≤ 'z' then Char.ofNat (c.toNat - 32) else c
def isUpperAscii (c : Char) : Bool := 'A' ≤ c && c ≤ 'Z'

/-- `s[..1].to_ascii_lowercase() + &s[1..]` -/
def lowerFirst (s : List Char) : Outcome (List Char) :=
  match s with
  | [] => .panic "byte index 1 is out of bounds"
  | c :: rest => if c.toNat < 128 then .ok (lowerAscii c :: rest) else .panic "byte index 1 is not a char boundary"

def snakeVariant : Bool → List Char → List Char
  | _, [] => []
  | first, c :: rest =>
      (if !first && isUpperAscii c then ['_'] else []) ++ [lowerAscii c] ++ snakeVariant false rest

/-- `RenameRule::apply_to_variant` -/
def applyToVariant (r : RenameRule) (v : String) : Outcome String :=
  let cs := v.toList
  match r with
  | .none | .pascal => .ok v
  | .lower => .ok (String.ofList (cs.map lowerAscii))
  | .camel => (lowerFirst cs).map String.ofList
  | .snake => .ok (String.ofList (snakeVariant true cs))
  | .screaming => .ok (String.ofList ((snakeVariant true cs).map upperAscii))
  | .kebab => .ok (String.ofList ((snakeVariant true cs).map (fun c => if c == '_' then '-' else c)))

def pascalField : Bool → List Char → List Char
  | _, [] => []
  | cap, c :: rest =>
      if c == '_' then pascalField true rest
      else if cap then upperAscii c :: pascalField false rest
      else c :: pascalField false rest

/-- `RenameRule::apply_to_field` -/
def applyToField (r : RenameRule) (f : String) : Outcome String :=
  let cs := f.toList
  match r with
  | .none | .lower | .snake => .ok f
  | .pascal => .ok (String.ofList (pascalField true cs))
  | .camel => (lowerFirst (pascalField true cs)).map String.ofList
  | .screaming => .ok (String.ofList (cs.map upperAscii))
  | .kebab => .ok (String.ofList (cs.map (fun c => if c == '_' then '-' else c)))

end RenameRule
