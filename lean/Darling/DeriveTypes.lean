import Darling.Syntax
import Darling.Suggest
/-
  Data describing a derived struct receiver at run time (`codegen::Field` / `TraitImpl` with the
  external behaviour attached), plus its purely declarative accessors.  Shared by the model
  (Derive/Struct.lean) and the specifications.
-/

namespace Derive

/-- where a field's default comes from (`codegen::DefaultExpression`) -/
inductive DefaultSrc (ν : Type) where
  | inherit                 -- `__default.<ident>`
  | value (v : ν)           -- `path()` or `Default::default()`

/-- `codegen::Field`, with its external behaviour attached -/
structure SField (ν : Type) where
  ident : String
  name : String
  /-- `identity::<fn(&Meta) -> Result<_>>(with)(__inner) #post_transform` -/
  conv : Meta → Outcome ν
  /-- `<ty as FromMeta>::from_none()` -/
  fromNone : Option ν
  /-- `FromMeta::from_list(&__flatten)` of the field's type -/
  fromList : List NestedMeta → Outcome ν
  dflt : Option (DefaultSrc ν)
  skip : Bool
  multiple : Bool
  flatten : Bool

/-- `Field::as_name` -/
def SField.asName {ν} (f : SField ν) : Option String := if f.skip || f.flatten then none else some f.name

structure SStruct (ν : Type) where
  fields : List (SField ν)
  allowUnknown : Bool
  /-- `let __default: Self = …;` as a map from field ident to value -/
  containerDefault : Option (String → ν)
  /-- `Ok(Self { .. })` -/
  build : List (String × ν) → ν
  /-- `Vec<T>` of a `multiple` field -/
  mkList : List ν → ν
  /-- container-level `.map(f)` / `.and_then(f)` -/
  post : ν → Outcome ν
  /-- strsim score (external) and threshold -/
  score : String → String → Nat
  thr : Nat

variable {ν : Type}

/-- the names `unknown_field_with_alts` is given -/
def SStruct.names (r : SStruct ν) : List String := r.fields.filterMap (·.asName)

/-- `Error::unknown_field_with_alts(name, names)` / `unknown_field(name)` -/
def SStruct.unknownErr (r : SStruct ν) (name : String) : Err :=
  Err.new (.unknownField name (Suggest.didYouMean r.thr (r.names.map (fun a => (a, r.score name a)))))

/-- the match arm an item name selects: the first addressable field with that name -/
def SStruct.arm (r : SStruct ν) (name : String) : Option (SField ν) :=
  r.fields.find? (fun f => !f.skip && !f.flatten && f.name == name)

def SStruct.hasFlatten (r : SStruct ν) : Bool := r.fields.any (·.flatten)


end Derive
