import Darling.FromMeta.Hooks
/-
  Built-in scalar implementors of `FromMeta` (core/src/from_meta.rs): `()`, `bool`, `char`,
  `String`, `PathBuf`, the 24 integer targets (`from_meta_num!`), the two float targets
  (`from_meta_float!`).  Generic in the result type via injections, so that the theorems do
  not depend on the driver's value universe.
-/

/-- an integer target: `u8 … i128`, `usize/isize` (pointer width in `bits`), and their NonZero forms -/
structure IntSpec where
  name : String
  signed : Bool
  bits : Nat
  nonzero : Bool
  deriving Repr, DecidableEq, Inhabited

namespace IntSpec
def lo (s : IntSpec) : Int := if s.signed then -(2 ^ (s.bits - 1) : Nat) else 0
def hi (s : IntSpec) : Int := if s.signed then (2 ^ (s.bits - 1) : Nat) - 1 else (2 ^ s.bits : Nat) - 1
/-- the values the target type can hold -/
def holds (s : IntSpec) (v : Int) : Bool := s.lo ≤ v && v ≤ s.hi && (!s.nonzero || v != 0)
end IntSpec

inductive IntErr where
  | empty | invalidDigit | posOverflow | negOverflow | zero
  deriving Repr, DecidableEq

/-- `impl Display for ParseIntError` -/
def IntErr.msg : IntErr → String
  | .empty => "cannot parse integer from empty string"
  | .invalidDigit => "invalid digit found in string"
  | .posOverflow => "number too large to fit in target type"
  | .negOverflow => "number too small to fit in target type"
  | .zero => "number would be zero for non-zero type"

namespace Scalars

def digitVal (c : Char) : Option Nat :=
  if '0' ≤ c ∧ c ≤ '9' then some (c.toNat - '0'.toNat) else none

/-- the digit fold of `from_str_radix(_, 10)`: all ASCII digits ↦ their decimal value -/
def parseDigits : List Char → Option Nat
  | cs => cs.foldl (fun acc c => match acc, digitVal c with
      | some n, some d => some (n * 10 + d)
      | _, _ => none) (some 0)

/-- `<N as FromStr>::from_str` for the integer targets (std), as darling uses it -/
def parseIntStd (sp : IntSpec) (s : String) : Except IntErr Int :=
  let finish (neg : Bool) (ds : List Char) : Except IntErr Int :=
    match parseDigits ds with
    | none => .error .invalidDigit
    | some n =>
        let v : Int := if neg then -(n : Int) else n
        if v < sp.lo then .error .negOverflow
        else if v > sp.hi then .error .posOverflow
        else if sp.nonzero && v == 0 then .error .zero
        else .ok v
  match s.toList with
  | [] => .error .empty
  | ['+'] => .error .invalidDigit
  | ['-'] => .error .invalidDigit
  | '+' :: rest => finish false rest
  | '-' :: rest => if sp.signed then finish true rest else .error .invalidDigit
  | cs => finish false cs

variable {α : Type}

/-- `impl FromMeta for ()` -/
def unitHooks (u : α) : Hooks α := { fromWord? := some (.ok u) }

/-- `impl FromMeta for bool` -/
def boolHooks (inj : Bool → α) : Hooks α :=
  { fromWord? := some (.ok (inj true)),
    fromBool? := some (fun b => .ok (inj b)),
    fromString? := some (fun s =>
      if s = "true" then .ok (inj true) else if s = "false" then .ok (inj false)
      else .err (Err.unknownValue s)) }

/-- `impl FromMeta for char` -/
def charHooks (inj : Char → α) : Hooks α :=
  { fromChar? := some (fun c => .ok (inj c)),
    fromString? := some (fun s =>
      match s.toList with
      | [c] => .ok (inj c)
      | _ => .err (Err.new (.unexpectedType "string"))) }

/-- `impl FromMeta for String` / `PathBuf` -/
def stringHooks (inj : String → α) : Hooks α :=
  { fromString? := some (fun s => .ok (inj s)) }

def numFromString (sp : IntSpec) (inj : Int → α) (s : String) : Outcome α :=
  match parseIntStd sp s with
  | .ok v => .ok (inj v)
  | .error _ => .err (Err.unknownValue s)

/-- `from_meta_num!`: `from_value` -/
def numFromValue (sp : IntSpec) (inj : Int → α) (l : Lit) : Outcome α :=
  (match l.v with
   | .str s => numFromString sp inj s
   | .int digits _ =>
       -- `s.base10_parse::<$ty>().map_err(Error::from)`: a `syn::Error` at the literal
       match parseIntStd sp digits with
       | .ok v => .ok (inj v)
       | .error e => .err (.leaf (.custom e.msg) [] (some l.span))
   | _ => .err (Err.unexpectedLitType l)).mapErr (·.withSpan l.span)

def numHooks (sp : IntSpec) (inj : Int → α) : Hooks α :=
  { fromString? := some (numFromString sp inj), fromValue? := some (numFromValue sp inj) }

/-- `from_meta_float!`; `parseF` is std's float parser (external) -/
def floatFromString (parseF : String → Option Nat) (inj : Nat → α) (s : String) : Outcome α :=
  match parseF s with
  | some b => .ok (inj b)
  | none => .err (Err.unknownValue s)

def floatFromValue (parseF : String → Option Nat) (failMsg : String) (inj : Nat → α) (l : Lit) : Outcome α :=
  (match l.v with
   | .str s => floatFromString parseF inj s
   | .float digits _ =>
       match parseF digits with
       | some b => .ok (inj b)
       | none => .err (.leaf (.custom failMsg) [] (some l.span))
   | .int digits _ =>
       -- an integer literal denotes a number too: its digits go through the same parser
       match parseF digits with
       | some b => .ok (inj b)
       | none => .err (.leaf (.custom failMsg) [] (some l.span))
   | _ => .err (Err.unexpectedLitType l)).mapErr (·.withSpan l.span)

def floatHooks (parseF : String → Option Nat) (inj : Nat → α) : Hooks α :=
  { fromString? := some (floatFromString parseF inj),
    fromValue? := some (floatFromValue parseF "invalid float literal" inj) }

end Scalars
