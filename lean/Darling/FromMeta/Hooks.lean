import Darling.Syntax
/-
  The `FromMeta` trait (core/src/from_meta.rs) as a record of optional overrides plus the default
  routing.  `none` = the method is left at the trait's default body.
-/

structure Hooks (α : Type) where
  fromNestedMeta? : Option (NestedMeta → Outcome α) := none
  fromMeta?   : Option (Meta → Outcome α) := none
  fromNone    : Option α := none
  fromWord?   : Option (Outcome α) := none
  fromList?   : Option (List NestedMeta → Outcome α) := none
  fromValue?  : Option (Lit → Outcome α) := none
  fromExpr?   : Option (Expr → Outcome α) := none
  fromChar?   : Option (Char → Outcome α) := none
  fromString? : Option (String → Outcome α) := none
  fromBool?   : Option (Bool → Outcome α) := none

instance {α : Type} : Inhabited (Hooks α) := ⟨{}⟩

namespace Hooks
variable {α : Type}

def fromWord (h : Hooks α) : Outcome α :=
  match h.fromWord? with
  | some r => r
  | none => .err (Err.unsupportedFormat "word")

def fromList (h : Hooks α) (items : List NestedMeta) : Outcome α :=
  match h.fromList? with
  | some f => f items
  | none => .err (Err.unsupportedFormat "list")

def fromChar (h : Hooks α) (c : Char) : Outcome α :=
  match h.fromChar? with
  | some f => f c
  | none => .err (Err.new (.unexpectedType "char"))

def fromString (h : Hooks α) (s : String) : Outcome α :=
  match h.fromString? with
  | some f => f s
  | none => .err (Err.new (.unexpectedType "string"))

def fromBool (h : Hooks α) (b : Bool) : Outcome α :=
  match h.fromBool? with
  | some f => f b
  | none => .err (Err.new (.unexpectedType "bool"))

/-- default body of `from_value` -/
def fromValueD (h : Hooks α) (l : Lit) : Outcome α :=
  (match l.v with
   | .bool b => h.fromBool b
   | .str s => h.fromString s
   | .char c => h.fromChar c
   | _ => .err (Err.unexpectedLitType l)).mapErr (·.withSpan l.span)

def fromValue (h : Hooks α) (l : Lit) : Outcome α :=
  match h.fromValue? with
  | some f => f l
  | none => h.fromValueD l

/-- default body of `from_expr` -/
def fromExprD (h : Hooks α) : Expr → Outcome α
  | .lit l => (h.fromValue l).mapErr (·.withSpan l.span)
  | .group g sp => (fromExprD h g).mapErr (·.withSpan sp)
  | e => (Outcome.err (Err.unexpectedExprType e)).mapErr (·.withSpan e.span)

def fromExpr (h : Hooks α) (e : Expr) : Outcome α :=
  match h.fromExpr? with
  | some f => f e
  | none => h.fromExprD e

/-- default body of `from_meta` -/
def fromMetaD (h : Hooks α) (m : Meta) : Outcome α :=
  match m with
  | .path _ => h.fromWord.mapErr (·.withSpan m.span)
  | .list _ items bad _ _ _ =>
      match bad with
      | some (msg, sp) => .err (.leaf (.custom msg) [] (some sp))   -- `?` on `parse_meta_list`
      | none => (h.fromList items).mapErr (·.withSpan m.span)
  | .nameValue _ e _ _ => (h.fromExpr e).mapErr (·.withSpan m.span)

def fromMeta (h : Hooks α) (m : Meta) : Outcome α :=
  match h.fromMeta? with
  | some f => f m
  | none => h.fromMetaD m

/-- default body of `from_nested_meta` -/
def fromNestedMetaD (h : Hooks α) (n : NestedMeta) : Outcome α :=
  (match n with
   | .lit l => h.fromValue l
   | .item m => h.fromMeta m).mapErr (·.withSpan n.span)

def fromNestedMeta (h : Hooks α) (n : NestedMeta) : Outcome α :=
  match h.fromNestedMeta? with
  | some f => f n
  | none => h.fromNestedMetaD n

end Hooks
