import Darling.Error
/-
  Token-level model of darling's own parser, `NestedMeta::parse_meta_list`
  (core/src/ast/data.rs: `impl Parse for NestedMeta`, driven by
  `Punctuated::<NestedMeta, Token![,]>::parse_terminated`).

  The token stream is the list of top-level token trees.  syn's own parsers are parameters:
  `lit i` is `<syn::Lit as Parse>::parse` started at token `i` (how many token trees it consumes and
  what it read), `meta i` is `<syn::Meta as Parse>::parse` started at token `i`.  darling's code is
  the look-ahead that chooses between them and the comma discipline around them.
-/
namespace ParseList

inductive TokKind where
  | ident (name : String)                 -- any identifier, keywords and raw identifiers included
  | punct (c : Char) (joint : Bool)
  | literal
  | group
  deriving Repr, Inhabited, DecidableEq

structure Tok where
  kind : TokKind
  span : Span
  deriving Repr, Inhabited

structure SynOracle where
  lit : Nat → Option (Nat × String)
  meta_ : Nat → Except (String × Option Span) (Nat × String)

inductive Item where
  | lit (toks : String)
  | item (toks : String)
  deriving Repr, Inhabited, DecidableEq

abbrev Result := Except (String × Option Span) (List Item)

section
variable (toks : List Tok) (o : SynOracle)

def tokAt (i : Nat) : Option Tok := toks[i]?

def isAnyIdent (i : Nat) : Bool :=
  match tokAt toks i with
  | some ⟨.ident _, _⟩ => true
  | _ => false

/-- `peek(syn::LitBool)` -/
def isBoolIdent (i : Nat) : Bool :=
  match tokAt toks i with
  | some ⟨.ident n, _⟩ => n == "true" || n == "false"
  | _ => false

/-- `peek(Token![=])` at `i` (`=`, also as the first character of `==` / `=>`) -/
def isEq (i : Nat) : Bool :=
  match tokAt toks i with
  | some ⟨.punct '=' _, _⟩ => true
  | _ => false

/-- `peek(Token![::])` at `i` -/
def isColon2 (i : Nat) : Bool :=
  match tokAt toks i, tokAt toks (i + 1) with
  | some ⟨.punct ':' true, _⟩, some ⟨.punct ':' _, _⟩ => true
  | _, _ => false

def isComma (i : Nat) : Bool :=
  match tokAt toks i with
  | some ⟨.punct ',' _, _⟩ => true
  | _ => false

def spanAt (i : Nat) : Option Span := (tokAt toks i).map (·.span)

inductive Branch where
  | lit | item | reject
  deriving DecidableEq, Repr

/-- the `if / else if / else` of `impl Parse for NestedMeta` -/
def branch (i : Nat) : Branch :=
  if (o.lit i).isSome && !(isBoolIdent toks i && isEq toks (i + 1)) then .lit
  else if isAnyIdent toks i || (isColon2 toks i && isAnyIdent toks (i + 2)) then .item
  else .reject

/-- one `NestedMeta::parse` at token `i`: the item and the index after it -/
def itemAt (i : Nat) : Except (String × Option Span) (Item × Nat) :=
  match branch toks o i with
  | .lit => (match o.lit i with
      | some (len, s) => .ok (.lit s, i + len)
      | none => .error ("unreachable: peek(Lit) held", none))
  | .item => (match o.meta_ i with
      | .ok (len, s) => .ok (.item s, i + len)
      | .error e => .error e)
  | .reject => .error ("expected identifier or literal", spanAt toks i)

/-- `Punctuated::parse_terminated`: value, then either the end or a comma, repeatedly -/
def parseFrom : Nat → Nat → List Item → Result
  | 0, _, _ => .error ("fuel", none)
  | fuel + 1, i, acc =>
      if i ≥ toks.length then .ok acc else
      match itemAt toks o i with
      | .error e => .error e
      | .ok (it, j) =>
          if j ≥ toks.length then .ok (acc ++ [it])
          else if isComma toks j then parseFrom fuel (j + 1) (acc ++ [it])
          else .error ("expected `,`", spanAt toks j)

def parseList : Result := parseFrom toks o (toks.length + 1) 0 []

end
end ParseList
