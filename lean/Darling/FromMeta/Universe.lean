import Darling.Val
import Darling.FromMeta.Scalars
import Darling.FromMeta.Wrappers
import Darling.FromMeta.SynTypes
import Darling.FromMeta.Maps
/-
  The closed universe of target types on which the model is executed, and `hooksOf`.
  External parsers (std float parsing, syn grammar parsers on string contents) arrive as an
  `Oracle` whose entries the harness obtains from the real functions.
-/

structure Oracle where
  /-- `str::parse::<fN>()`: width, input ↦ bit pattern -/
  floats : List (Nat × String × Option Nat) := []
  /-- syn grammar parsers on a string: kind, input ↦ printed tokens -/
  syns : List (String × String × Option String) := []
  /-- `LitStr::parse::<ExprArray>()`: input ↦ the array expression -/
  arrs : List (String × Option Expr) := []
  /-- values of user-supplied nullary functions / `Default` impls, evaluated by the harness -/
  vals : List (String × Val) := []
  /-- strsim scores `(unknown name, candidate) ↦ bits` -/
  scores : List (String × String × Nat) := []

namespace Oracle
def parseFloat (o : Oracle) (w : Nat) (s : String) : Option Nat :=
  match o.floats.find? (fun r => r.1 == w && r.2.1 == s) with
  | some r => r.2.2
  | none => none
def parseSyn (o : Oracle) (kind s : String) : Option String :=
  match o.syns.find? (fun r => r.1 == kind && r.2.1 == s) with
  | some r => r.2.2
  | none => none
def val? (o : Oracle) (key : String) : Option Val := (o.vals.find? (·.1 == key)).map (·.2)
def score (o : Oracle) (a b : String) : Nat :=
  match o.scores.find? (fun r => r.1 == a && r.2.1 == b) with
  | some r => r.2.2
  | none => 0
def merge (a b : Oracle) : Oracle :=
  { floats := a.floats ++ b.floats, syns := a.syns ++ b.syns, arrs := a.arrs ++ b.arrs,
    vals := a.vals ++ b.vals, scores := a.scores ++ b.scores }
def parseArr (o : Oracle) (s : String) : Option Expr :=
  match o.arrs.find? (fun r => r.1 == s) with
  | some r => r.2
  | none => none
end Oracle

inductive Ty where
  | unit | bool | char | string | pathBuf
  | int (spec : IntSpec)
  | float (bits : Nat)
  | atomicBool | flag
  | option (t : Ty) | ptr (t : Ty) | result (t : Ty) | resultMeta (t : Ty)
  | override (t : Ty) | spanned (t : Ty) | withOrig (t : Ty)
  | probe (mask : Nat) (mode : Nat)
  | synExpr | synPath | synIdent | identString
  | synExprTy (v : SynTypes.ExprVariant)
  | synParse (kind : String)
  | wherePreds | renameRule | punctuated (kind : String)
  | lit | litKind (k : SynTypes.LitKind) | vecLit (k : SynTypes.LitKind)
  | numArray (spec : IntSpec)
  | synMeta | ignored | pathList | callable
  | map (key : Maps.KeyKind) (ordered : Bool) (t : Ty)
  | vec (t : Ty)                 -- only as the type of a `multiple` field (no FromMeta impl of its own)
  | recv (name : String)         -- a derived receiver of the corpus, by name
  deriving Repr, Inhabited

namespace Probe
/-- C15 probe implementer: overrides the hooks selected by `mask`
    (bit 0 word, 1 list, 2 bool, 3 string, 4 char, 5 generic-literal (`from_value`),
    6 expression (`from_expr`)); an overridden hook reports which hook ran (or, for a
    failing probe, returns a span-less custom error naming it — mode 1 — or an unspanned bundle of two — mode 2) -/
def ret (mode : Nat) (tag : String) : Outcome Val :=
  match mode with
  | 0 => .ok (.str tag)
  | 1 => .err (Err.custom ("probe:" ++ tag))
  | _ => .err (.multi [Err.custom ("probe:" ++ tag), Err.custom ("probe2:" ++ tag)] [] none)   -- an unspanned bundle

def bit (mask i : Nat) : Bool := (mask / 2 ^ i) % 2 == 1

def hooks (mask : Nat) (failing : Nat) : Hooks Val :=
  { fromWord?   := if bit mask 0 then some (ret failing "word") else none,
    fromList?   := if bit mask 1 then some (fun items => ret failing ("list:" ++ toString items.length)) else none,
    fromBool?   := if bit mask 2 then some (fun b => ret failing ("bool:" ++ toString b)) else none,
    fromString? := if bit mask 3 then some (fun s => ret failing ("string:" ++ s)) else none,
    fromChar?   := if bit mask 4 then some (fun c => ret failing ("char:" ++ toString c.toNat)) else none,
    fromValue?  := if bit mask 5 then some (fun l => ret failing ("value:" ++ l.toks)) else none,
    fromExpr?   := if bit mask 6 then some (fun e => ret failing ("expr:" ++ e.kindName)) else none }
end Probe

/-- `impl FromStr for ident_case::RenameRule` (external crate) -/
def renameRuleNames : List String :=
  ["lowercase", "PascalCase", "camelCase", "snake_case", "SCREAMING_SNAKE_CASE", "kebab-case"]

/-- `recvHooks` resolves derived receivers of the corpus (driver environment) -/
def hooksOf (o : Oracle) (recvHooks : String → Hooks Val := fun _ => {}) : Ty → Hooks Val
  | .unit => Scalars.unitHooks .unit
  | .bool => Scalars.boolHooks .bool
  | .char => Scalars.charHooks .char
  | .string => Scalars.stringHooks .str
  | .pathBuf => Scalars.stringHooks .str
  | .int sp => Scalars.numHooks sp .int
  | .float w => Scalars.floatHooks (o.parseFloat w) .float
  | .atomicBool => Wrappers.atomicBoolHooks .bool
  | .flag => Wrappers.flagHooks .flag
  | .option t => Wrappers.optionOf .some .none (hooksOf o recvHooks t)
  | .ptr t => Wrappers.ptrOf .ptr (hooksOf o recvHooks t)
  | .result t => Wrappers.resultOf .okv .errv (hooksOf o recvHooks t)
  | .resultMeta t => Wrappers.resultMetaOf .okm (fun m => .errm m.toks) (hooksOf o recvHooks t)
  | .override t => Wrappers.overrideOf .explicit .inherit (hooksOf o recvHooks t)
  | .spanned t => Wrappers.spannedOf .spanned (hooksOf o recvHooks t)
  | .withOrig t => Wrappers.withOriginalOf (fun v m => .withOrig v m.toks) (hooksOf o recvHooks t)
  | .probe mask mode => Probe.hooks mask mode
  | .synExpr => SynTypes.exprHooks (o.parseSyn "Expr") .toks
  | .synPath => SynTypes.pathHooks (o.parseSyn "Path") .toks
  | .synIdent => SynTypes.identHooks (o.parseSyn "Ident") .toks
  | .identString => SynTypes.identStringHooks (o.parseSyn "Ident") .toks
  | .synExprTy v => SynTypes.synExprHooks v (o.parseSyn (match v with
      | .array => "ExprArray" | .path => "ExprPath" | .range => "ExprRange")) .toks
  | .synParse kind => SynTypes.synParseHooks (o.parseSyn kind) .toks
  | .wherePreds => SynTypes.wherePredsHooks (o.parseSyn "WherePreds") .toks
  | .renameRule => SynTypes.renameRuleHooks renameRuleNames .str
  | .punctuated kind => SynTypes.punctuatedHooks (o.parseSyn kind) .toks
  | .lit => SynTypes.litHooks .toks
  | .litKind k => SynTypes.litKindHooks k .toks
  | .vecLit k => SynTypes.vecLitHooks k o.parseArr .toks .list
  | .numArray sp => SynTypes.numArrayHooks sp o.parseArr .int .list
  | .synMeta => SynTypes.metaHooks .toks
  | .ignored => SynTypes.ignoredHooks .unit
  | .pathList => SynTypes.pathListHooks .toks .list
  | .callable => SynTypes.callableHooks .toks
  | .map key _ t => Maps.mapHooks key .map (hooksOf o recvHooks t)
  | .vec _ => {}
  | .recv n => recvHooks n
