import Darling.FromMeta.Universe
/-
  Executable vocabulary of the span theorems (C03): where the spans of an error tree lie, span
  well-formedness of the syntax handed to a conversion, and the per-item check of the array
  oracle.  Kept apart from the proofs so that the model driver can evaluate the hypotheses of
  `C03.corpus_allWithin` / `C03.builtin_allWithin` on every input of a run.
-/

/-- an optional span is absent or lies inside `A` -/
def Span.okIn (A : Span) : Option Span → Bool
  | none => true
  | some s => s.within A

mutual
/-- every node of the tree that carries a span carries one inside `A` -/
def Err.allWithin (A : Span) : Err → Bool
  | .leaf _ _ s => Span.okIn A s
  | .multi cs _ s => Span.okIn A s && Err.allWithinList A cs
def Err.allWithinList (A : Span) : List Err → Bool
  | [] => true
  | c :: cs => Err.allWithin A c && Err.allWithinList A cs
end

mutual
/-- no node of the tree carries a span -/
def Err.unspanned : Err → Bool
  | .leaf _ _ s => s.isNone
  | .multi cs _ s => s.isNone && Err.unspannedList cs
def Err.unspannedList : List Err → Bool
  | [] => true
  | c :: cs => Err.unspanned c && Err.unspannedList cs
end

def Err.AllWithin (A : Span) (e : Err) : Prop := e.allWithin A = true
def Err.Unspanned (e : Err) : Prop := e.unspanned = true

mutual
/-- span well-formedness of an expression: the inner expression of a group lies inside the group,
    the elements of an array lie inside the array (a literal expression's span *is* its literal's
    span by `Expr.span`) -/
def Expr.spanWF : Expr → Bool
  | .lit _ => true
  | .path _ _ => true
  | .qpath _ _ _ => true
  | .group e sp => e.span.within sp && Expr.spanWF e
  | .array es _ sp => Expr.spanWFList sp es
  | .other _ _ _ => true
/-- every expression of the list lies inside `A` and is well-formed -/
def Expr.spanWFList (A : Span) : List Expr → Bool
  | [] => true
  | e :: es => e.span.within A && Expr.spanWF e && Expr.spanWFList A es
end

mutual
/-- span well-formedness of a meta item: the path and the value expression of `name = value` lie
    inside the item and the value is well-formed; the path, every nested item and the span of a
    parse failure of the nested list lie inside a list item, and the nested items are well-formed -/
def Meta.spanWF : Meta → Bool
  | .path _ => true
  | .list p items bad _ _ sp =>
      p.span.within sp
        && (match bad with
            | some (_, b) => b.within sp
            | none => true)
        && NestedMeta.spanWFList sp items
  | .nameValue p e _ sp => p.span.within sp && e.span.within sp && e.spanWF
def NestedMeta.spanWF : NestedMeta → Bool
  | .item m => Meta.spanWF m
  | .lit _ => true
/-- every nested item of the list lies inside `A` and is well-formed -/
def NestedMeta.spanWFList (A : Span) : List NestedMeta → Bool
  | [] => true
  | n :: ns => n.span.within A && NestedMeta.spanWF n && NestedMeta.spanWFList A ns
end

/-- every answer of the `ExprArray` oracle is well-formed and lies inside `A` (executable) -/
def Oracle.arrsWithin (o : Oracle) (A : Span) : Bool :=
  o.arrs.all (fun r => match r.2 with
    | some x => x.spanWF && x.span.within A
    | none => true)

/-- the target types whose conversion consults the `ExprArray` oracle, hereditarily -/
def Ty.usesArr : Ty → Bool
  | .vecLit _ => true
  | .numArray _ => true
  | .option t => t.usesArr
  | .ptr t => t.usesArr
  | .result t => t.usesArr
  | .resultMeta t => t.usesArr
  | .override t => t.usesArr
  | .spanned t => t.usesArr
  | .withOrig t => t.usesArr
  | .map _ _ t => t.usesArr
  | _ => false
