import Darling.FromMeta.Hooks
/-
  The `map!` macro body of core/src/from_meta.rs (`from_list` of `HashMap<K, V, S>` and
  `BTreeMap<K, V>` for K ∈ {String, syn::Ident, syn::Path}) — one definition, as in the source.
-/

namespace Maps

inductive KeyKind where
  | string | ident | path
  deriving Repr, DecidableEq, Inhabited

/-- `KeyFromPath::from_path`; keys are identified by a string (`path_to_string` for String keys,
    the identifier, the printed path for Path keys) -/
def keyOf (k : KeyKind) (p : Path) : Except Err String :=
  match k with
  | .string => .ok p.toStr
  | .path => .ok p.toks
  | .ident =>
      match p.getIdent with
      | some i => .ok i
      | none => .error (.leaf (.custom "Key must be an identifier") [] (some p.span))

/-- `KeyFromPath::to_display` -/
def keyDisplay (k : KeyKind) (key : String) (p : Path) : String :=
  match k with
  | .path => p.toStr   -- `path_to_string(self)`
  | _ => key

structure St (α : Type) where
  errs : List Err := []
  seen : List String := []
  map : List (String × α) := []

/-- `errors.handle(value)` for a three-valued value: a panic aborts everything -/
inductive Step (α : Type) where
  | cont (s : St α)
  | panic (m : String)

variable {α : Type}

/-- one iteration of `for item in pairs` -/
def step (k : KeyKind) (h : Hooks α) (s : St α) (item : NestedMeta) : Step α :=
  match item with
  | .lit _ => .cont { s with errs := s.errs ++ [Err.unsupportedFormat "expression"] }
  | .item inner =>
      let path := inner.path'
      -- `FromMeta::from_meta(inner).map_err(|e| e.at_path(&path))`
      match (h.fromMeta inner).mapErr (·.at path.toStr) with
      | .panic m => .panic m
      | value =>
        match keyOf k path with
        | .error e =>
            -- push the key error, then surface the value error even under an invalid key
            let errs := s.errs ++ [e]
            let errs := match value with
              | .err ve => errs ++ [ve]
              | _ => errs
            .cont { s with errs := errs }
        | .ok key =>
            let alreadySeen := s.seen.contains key
            let errs := if alreadySeen
              then s.errs ++ [(Err.new (.duplicateField (keyDisplay k key path))).withSpan path.span]
              else s.errs
            match value with
            | .ok v =>
                if alreadySeen then .cont { errs := errs, seen := s.seen ++ [key], map := s.map }
                else .cont { errs := errs, seen := s.seen ++ [key], map := s.map ++ [(key, v)] }
            | .err ve => .cont { errs := errs ++ [ve], seen := s.seen ++ [key], map := s.map }
            | .panic m => .panic m

def loop (k : KeyKind) (h : Hooks α) : St α → List NestedMeta → Step α
  | s, [] => .cont s
  | s, item :: rest =>
      match step k h s item with
      | .cont s' => loop k h s' rest
      | .panic m => .panic m

/-- `from_list` of the `map!` macro -/
def fromList (k : KeyKind) (h : Hooks α) (items : List NestedMeta) : Outcome (List (String × α)) :=
  match loop k h {} items with
  | .panic m => .panic m
  | .cont s =>
      -- `errors.finish_with(map)`
      if s.errs.isEmpty then .ok s.map
      else Err.bundleErr s.errs

def mapHooks {β : Type} (k : KeyKind) (inj : List (String × α) → β) (h : Hooks α) : Hooks β :=
  { fromList? := some (fun items => (fromList k h items).map inj) }

end Maps
