import Darling.FromMeta.Hooks
import Darling.FromMeta.Scalars
/-
  Wrapper implementors (core/src/from_meta.rs, core/src/util/{over_ride,spanned_value,
  with_original,flag}.rs) as functions on hook records.
-/
namespace Wrappers
variable {α β : Type}

/-- `impl<T: FromMeta> FromMeta for Option<T>` -/
def optionOf (some' : α → β) (none' : β) (h : Hooks α) : Hooks β :=
  { fromNone := some none',
    fromMeta? := some (fun m => (h.fromMeta m).map some') }

/-- `smart_pointer_t!`: Box / Rc / Arc / RefCell -/
def ptrOf (wrap : α → β) (h : Hooks α) : Hooks β :=
  { fromNone := h.fromNone.map wrap,
    fromList? := some (fun items => (h.fromList items).map wrap),
    fromMeta? := some (fun m => (h.fromMeta m).map wrap) }

/-- `impl<T: FromMeta> FromMeta for darling::Result<T>`; a panic of the inner conversion is a
    panic of the wrapper -/
def resultOf (ok' : α → β) (err' : Err → β) (h : Hooks α) : Hooks β :=
  let lift : Outcome α → Outcome β := fun r => match r with
    | .ok v => .ok (ok' v)
    | .err e => .ok (err' e)
    | .panic m => .panic m
  { fromNone := h.fromNone.map ok',
    fromList? := some (fun items => lift (h.fromList items)),
    fromMeta? := some (fun m => lift (h.fromMeta m)) }

/-- `impl<T: FromMeta> FromMeta for Result<T, Meta>` -/
def resultMetaOf (ok' : α → β) (err' : Meta → β) (h : Hooks α) : Hooks β :=
  { fromMeta? := some (fun m => match h.fromMeta m with
      | .ok v => .ok (ok' v)
      | .err _ => .ok (err' m)
      | .panic p => .panic p) }

/-- `impl<T: FromMeta> FromMeta for Override<T>` -/
def overrideOf (explicit' : α → β) (inherit' : β) (h : Hooks α) : Hooks β :=
  { fromWord? := some (.ok inherit'),
    fromMeta? := some (fun m => match m with
      | .path _ => .ok inherit'
      | _ => (h.fromMeta m).map explicit'),
    fromList? := some (fun items => (h.fromList items).map explicit'),
    fromValue? := some (fun l => (h.fromValue l).map explicit'),
    fromChar? := some (fun c => (h.fromChar c).map explicit'),
    fromString? := some (fun s => (h.fromString s).map explicit'),
    fromBool? := some (fun b => (h.fromBool b).map explicit') }

/-- `impl<T: FromMeta> FromMeta for SpannedValue<T>` -/
def spannedOf (mk : α → Option Span → β) (h : Hooks α) : Hooks β :=
  { fromMeta? := some (fun m =>
      match (h.fromMeta m).mapErr (·.withSpan m.span) with
      | .ok v =>
          let sp : Option Span := match m with
            | .path p => some p.span
            | .list _ _ _ tokSpan _ _ => tokSpan
            | .nameValue _ e _ _ => some e.span
          .ok (mk v sp)
      | .err e => .err e
      | .panic p => .panic p),
    fromNestedMeta? := some (fun n =>
      ((h.fromNestedMeta n).map (fun v => mk v (some n.span))).mapErr (·.withSpan n.span)),
    fromValue? := some (fun l =>
      ((h.fromValue l).map (fun v => mk v (some l.span))).mapErr (·.withSpan l.span)),
    fromExpr? := some (fun e =>
      ((h.fromExpr e).map (fun v => mk v (some e.span))).mapErr (·.withSpan e.span)) }

/-- `with_original!(FromMeta, from_meta, syn::Meta)` -/
def withOriginalOf (mk : α → Meta → β) (h : Hooks α) : Hooks β :=
  { fromMeta? := some (fun m => (h.fromMeta m).map (fun v => mk v m)) }

/-- `impl FromMeta for Flag` -/
def flagHooks (mk : Option Span → β) : Hooks β :=
  { fromNone := some (mk none),
    fromMeta? := some (fun m => match m with
      | .path p => .ok (mk (some p.span))
      | _ =>
        -- `Err(<()>::from_meta(mi).unwrap_err())`
        match (Scalars.unitHooks ()).fromMeta m with
        | .err e => .err e
        | .ok _ => .panic "called `Result::unwrap_err()` on an `Ok` value"
        | .panic p => .panic p) }

/-- `impl FromMeta for AtomicBool` -/
def atomicBoolHooks (inj : Bool → β) : Hooks β :=
  { fromMeta? := some (fun m =>
      ((Scalars.boolHooks inj).fromMeta m).mapErr (·.withSpan m.span)) }

end Wrappers
