import Darling.FromMeta.Hooks
import Darling.FromMeta.Scalars
/-
  Syntax-valued implementors (core/src/from_meta.rs, core/src/util/{path_list,callable,
  ident_string,parse_expr}.rs).  syn's grammar parsers on string contents are external:
  `parse kind s` = printed tokens of `syn::parse_str::<kind>(s)`; `parseArr s` = the parsed
  `ExprArray` as an expression node.
-/
namespace SynTypes
variable {α : Type}

/-- `Error::unknown_lit_str_value(v)` = `unknown_value(v.value()).with_span(v)` -/
def unknownLitStr (s : String) (l : Lit) : Err := (Err.unknownValue s).withSpan l.span

/-- the `from_value` shared by every string-parsed syntax type:
    string ↦ parse contents, else `unexpected_lit_type` -/
def parsedFromValue (parse : String → Option String) (tok : String → α) (l : Lit) : Outcome α :=
  match l.v with
  | .str s => (match parse s with
      | some t => .ok (tok t)
      | none => .err (unknownLitStr s l))
  | _ => .err (Err.unexpectedLitType l)

def parsedFromString (parse : String → Option String) (tok : String → α) (s : String) : Outcome α :=
  match parse s with
  | some t => .ok (tok t)
  | none => .err (Err.unknownValue s)

/-- `impl FromMeta for syn::Expr` -/
def exprFromExpr (parse : String → Option String) (tok : String → α) : Expr → Outcome α
  | .lit l => (match l.v with
      | .str _ => parsedFromValue parse tok l
      | _ => .ok (tok l.toks))
  | .group g _ => exprFromExpr parse tok g
  | e => .ok (tok e.toks)

def exprHooks (parse : String → Option String) (tok : String → α) : Hooks α :=
  { fromExpr? := some (exprFromExpr parse tok),
    fromString? := some (parsedFromString parse tok),
    fromValue? := some (parsedFromValue parse tok) }

/-- `impl FromMeta for syn::Path` -/
def pathFromExpr (parse : String → Option String) (tok : String → α) : Expr → Outcome α
  | .lit l => parsedFromValue parse tok l
  | .path p _ => .ok (tok p.toks)
  | .group g _ => pathFromExpr parse tok g
  | e => .err (Err.unexpectedExprType e)

def pathHooks (parse : String → Option String) (tok : String → α) : Hooks α :=
  { fromExpr? := some (pathFromExpr parse tok),
    fromString? := some (parsedFromString parse tok),
    fromValue? := some (parsedFromValue parse tok) }

/-- `impl FromMeta for syn::Ident` -/
def identFromExpr (parse : String → Option String) (tok : String → α) : Expr → Outcome α
  | .lit l => parsedFromValue parse tok l
  | .path p sp => (match p.getIdent with
      | some i => .ok (tok i)
      | none => .err (Err.unexpectedExprType (.path p sp)))
  | .group g _ => identFromExpr parse tok g
  | e => .err (Err.unexpectedExprType e)

def identHooks (parse : String → Option String) (tok : String → α) : Hooks α :=
  { fromExpr? := some (identFromExpr parse tok),
    fromString? := some (parsedFromString parse tok),
    fromValue? := some (parsedFromValue parse tok) }

/-- `IdentString`: `Ident::from_meta(item).map(IdentString::from)` -/
def identStringHooks (parse : String → Option String) (tok : String → α) : Hooks α :=
  { fromMeta? := some (fun m => (identHooks parse tok).fromMeta m) }

/-- which expression nodes `from_syn_expr_type!($ty, $variant)` takes as they are -/
inductive ExprVariant where
  | array | path | range
  deriving Repr, DecidableEq, Inhabited

def ExprVariant.isVariant : ExprVariant → Expr → Bool
  | .array, .array _ _ _ => true
  | .path, .path _ _ => true
  | .path, .qpath _ _ _ => true
  | .range, .other "range" _ _ => true
  | _, _ => false

/-- `from_syn_expr_type!`: `from_expr` -/
def synExprFromExpr (v : ExprVariant) (parse : String → Option String) (tok : String → α) : Expr → Outcome α
  | .group g _ => synExprFromExpr v parse tok g
  | .lit l => parsedFromValue parse tok l
  | e => if v.isVariant e then .ok (tok e.toks) else .err (Err.unexpectedExprType e)

def synExprHooks (v : ExprVariant) (parse : String → Option String) (tok : String → α) : Hooks α :=
  { fromExpr? := some (synExprFromExpr v parse tok),
    fromValue? := some (parsedFromValue parse tok) }

/-- `from_syn_parse!` (syn::Type…, Visibility, WhereClause): string-only -/
def synParseHooks (parse : String → Option String) (tok : String → α) : Hooks α :=
  { fromString? := some (parsedFromString parse tok),
    fromValue? := some (parsedFromValue parse tok) }

/-- `impl FromMeta for Vec<syn::WherePredicate>`: the clause parser on `"where " ++ s`;
    `parse` here is the WhereClause parser, the result is the printed predicate list -/
def wherePredsHooks (parsePreds : String → Option String) (tok : String → α) : Hooks α :=
  { fromString? := some (fun s => parsedFromString parsePreds tok ("where " ++ s)),
    fromValue? := some (fun l => match l.v with
      | .str s => (match parsePreds ("where " ++ s) with
          | some t => .ok (tok t)
          | none => .err (unknownLitStr ("where " ++ s) l))
      | _ => .err (Err.unexpectedLitType l)) }

/-- `impl FromMeta for ident_case::RenameRule` -/
def renameRuleHooks (known : List String) (mk : String → α) : Hooks α :=
  { fromString? := some (fun s => if known.contains s then .ok (mk s) else .err (Err.unknownValue s)) }

/-- `Punctuated<T, P>`: `from_value` only -/
def punctuatedHooks (parse : String → Option String) (tok : String → α) : Hooks α :=
  { fromValue? := some (parsedFromValue parse tok) }

/-- `impl FromMeta for syn::Lit` -/
def litHooks (tok : String → α) : Hooks α :=
  { fromValue? := some (fun l => .ok (tok l.toks)) }

/-- literal kinds of `from_meta_lit!` -/
inductive LitKind where
  | int | float | str | byte | byteStr | char | bool | verbatim
  deriving Repr, DecidableEq, Inhabited

def LitKind.matchesLit : LitKind → Lit → Bool
  | .int, l => (match l.v with | .int _ _ => true | _ => false)
  | .float, l => (match l.v with | .float _ _ => true | _ => false)
  | .str, l => (match l.v with | .str _ => true | _ => false)
  | .byte, l => (match l.v with | .byte => true | _ => false)
  | .byteStr, l => (match l.v with | .byteStr => true | _ => false)
  | .char, l => (match l.v with | .char _ => true | _ => false)
  | .bool, l => (match l.v with | .bool _ => true | _ => false)
  | .verbatim, l => (match l.v with | .verbatim => true | _ => false)

def litKindFromValue (k : LitKind) (tok : String → α) (l : Lit) : Outcome α :=
  if k.matchesLit l then .ok (tok l.toks) else .err (Err.unexpectedLitType l)

def litKindHooks (k : LitKind) (tok : String → α) : Hooks α :=
  { fromValue? := some (litKindFromValue k tok) }

/-- `.iter().map(f).collect::<Result<Vec<_>>>()`: stops at the first error -/
def collectFirstErr {β γ : Type} (f : β → Outcome γ) : List β → Outcome (List γ)
  | [] => .ok []
  | x :: xs => match f x with
      | .ok v => (collectFirstErr f xs).map (v :: ·)
      | .err e => .err e
      | .panic m => .panic m

/-- `Vec<$impl_ty>` of `from_meta_lit!`: `from_expr` -/
def vecLitFromExpr (k : LitKind) (parseArr : String → Option Expr) (tok : String → α) (injL : List α → α) :
    Expr → Outcome α
  | .array es _ _ => (collectFirstErr (fun e => (litKindHooks k tok).fromExpr e) es).map injL
  | .lit l =>
      -- `Self::from_value`: `ExprArray::from_value(value)?` then `from_expr(Expr::Array(..))`
      (match l.v with
       | .str s => (match parseArr s with
           | some (.array es _ _) => (collectFirstErr (fun e => (litKindHooks k tok).fromExpr e) es).map injL
           | _ => .err (unknownLitStr s l))
       | _ => .err (Err.unexpectedLitType l))
  | .group g _ => vecLitFromExpr k parseArr tok injL g
  | e => .err (Err.unexpectedExprType e)

def vecLitHooks (k : LitKind) (parseArr : String → Option Expr) (tok : String → α) (injL : List α → α) : Hooks α :=
  { fromList? := some (fun items => (collectFirstErr (fun n => (litKindHooks k tok).fromNestedMeta n) items).map injL),
    fromValue? := some (fun l => vecLitFromExpr k parseArr tok injL (.lit l)),
    fromExpr? := some (vecLitFromExpr k parseArr tok injL) }

/-- the literal an element of a numeric array stands for: the invisible groups around it are
    peeled to any depth (`while let Expr::Group(group) = inner { inner = &group.expr }`) -/
def numElemLit : Expr → Option Lit
  | .group g _ => numElemLit g
  | .lit l => some l
  | _ => none

/-- one element of a numeric array (`from_numeric_array!`); the error of a non-literal carries
    the span of the element as written (`with_span(expr)`, the outermost node) -/
def numElem (sp : IntSpec) (inj : Int → α) (e : Expr) : Outcome α :=
  match numElemLit e with
  | some l => Scalars.numFromValue sp inj l
  | none => .err ((Err.custom "Expected array of unsigned integers").withSpan e.span)

def numArrayFromExpr (sp : IntSpec) (parseArr : String → Option Expr) (inj : Int → α) (injL : List α → α) :
    Expr → Outcome α
  | .array es _ _ => (collectFirstErr (numElem sp inj) es).map injL
  | .lit l =>
      (match l.v with
       | .str s => (match parseArr s with
           | some (.array es _ _) => (collectFirstErr (numElem sp inj) es).map injL
           | _ => .err (unknownLitStr s l))
       | _ => .err (Err.unexpectedLitType l))
  | .group g _ => numArrayFromExpr sp parseArr inj injL g
  | e => .err (Err.unexpectedExprType e)

def numArrayHooks (sp : IntSpec) (parseArr : String → Option Expr) (inj : Int → α) (injL : List α → α) : Hooks α :=
  { fromExpr? := some (numArrayFromExpr sp parseArr inj injL),
    fromValue? := some (fun l => numArrayFromExpr sp parseArr inj injL (.lit l)) }

/-- `impl FromMeta for syn::Meta` -/
def metaHooks (tok : String → α) : Hooks α :=
  { fromMeta? := some (fun m => .ok (tok m.toks)) }

/-- `impl FromMeta for Ignored` -/
def ignoredHooks (v : α) : Hooks α :=
  { fromMeta? := some (fun _ => .ok v) }

/-- `impl FromMeta for PathList` (stops at the first non-word) -/
def pathListFromList {β : Type} (f : Path → β) : List NestedMeta → Outcome (List β)
  | [] => .ok []
  | .item (.path p) :: rest => (pathListFromList f rest).map (f p :: ·)
  | n :: _ => .err ((Err.new (.unexpectedType "non-word")).withSpan n.span)

def pathListHooks (tok : String → α) (injL : List α → α) : Hooks α :=
  { fromList? := some (fun items => (pathListFromList (fun p => tok p.toks) items).map injL) }

/-- `impl FromMeta for Callable`: `from_expr` (a path or a closure; an invisible group is
    looked through, like the default `FromMeta::from_expr`) -/
def callableFromExpr (tok : String → α) : Expr → Outcome α
  | .group g _ => callableFromExpr tok g
  | .path p _ => .ok (tok p.toks)
  | .qpath _ t _ => .ok (tok t)
  | .other "closure" t _ => .ok (tok t)
  | e => .err (Err.unexpectedExprType e)

/-- `impl FromMeta for Callable` -/
def callableHooks (tok : String → α) : Hooks α :=
  { fromExpr? := some (callableFromExpr tok) }

/-- `util::parse_expr::preserve_str_literal` -/
def preserveStrLiteral (tok : String → α) (m : Meta) : Outcome α :=
  match m with
  | .path _ => .err ((Err.unsupportedFormat "path").withSpan m.span)
  | .list _ _ _ _ _ _ => .err ((Err.unsupportedFormat "list").withSpan m.span)
  | .nameValue _ e _ _ => .ok (tok e.toks)

/-- the string literal a value is once its invisible groups are peeled
    (`while let Expr::Group(group) = value { value = &group.expr }`, then the test
    `Expr::Lit(ExprLit { lit: Lit::Str(_), .. })`) -/
def strLitOf : Expr → Option Lit
  | .group g _ => strLitOf g
  | .lit l => (match l.v with
      | .str _ => some l
      | _ => none)
  | _ => none

/-- `util::parse_expr::parse_str_literal`: only a string literal's contents are parsed; every
    other value (any other literal included) is returned as written -/
def parseStrLiteral (parse : String → Option String) (tok : String → α) (m : Meta) : Outcome α :=
  match m with
  | .path _ => .err ((Err.unsupportedFormat "path").withSpan m.span)
  | .list _ _ _ _ _ _ => .err ((Err.unsupportedFormat "list").withSpan m.span)
  | .nameValue _ e _ _ =>
      match strLitOf e with
      | some l => parsedFromValue parse tok l
      | none => .ok (tok e.toks)

end SynTypes
