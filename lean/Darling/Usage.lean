import Darling.UsageTypes
/-
  Model of core/src/usage/{type_params,lifetimes}.rs: `uses_type_params`, `uses_lifetimes`,
  following the impl blocks one by one.  Sets are lists (order irrelevant; compared as sets).
  `declare` = `options.include_type_path_qself()` (Purpose::Declare).
-/

namespace Usage

/-- `Ident::unraw`: `r#T` and `T` are the same name -/
def unraw (s : String) : String :=
  match s.toList with
  | 'r' :: '#' :: rest => String.ofList rest
  | _ => s

/-- `impl UsesTypeParams for Ident`: `type_set.iter().filter(|v| v.unraw() == self.unraw())` -/
def identHits (S : List String) (i : String) : List String := S.filter (fun v => unraw v == unraw i)

mutual
/-- `impl UsesTypeParams for syn::Type` -/
def tyParams (declare : Bool) (S : List String) : SType → List String
  | .path q p =>
      -- `impl UsesTypeParams for syn::TypePath`
      pathParams declare S p ++ (if declare then optTyParams declare S q else [])
  | .ref _ e => tyParams declare S e
  | .ptr e => tyParams declare S e
  | .slice e => tyParams declare S e
  | .array e => tyParams declare S e
  | .tuple es => tysParams declare S es
  | .bareFn ins out => tysParams declare S ins ++ optTyParams declare S out
  | .paren e => tyParams declare S e
  | .group e => tyParams declare S e
  | .traitObject bs => boundsParams declare S bs
  | .implTrait bs => boundsParams declare S bs
  | .opaque => []
def optTyParams (declare : Bool) (S : List String) : Option SType → List String
  | none => []
  | some t => tyParams declare S t
def tysParams (declare : Bool) (S : List String) : List SType → List String
  | [] => []
  | t :: ts => tyParams declare S t ++ tysParams declare S ts
/-- `impl UsesTypeParams for syn::Path` -/
def pathParams (declare : Bool) (S : List String) : SPath → List String
  | .mk global segs =>
      (match segs with
       | [] => []
       | .mk ident _ :: _ => if global then [] else identHits S ident) ++ segsParams declare S segs
def segsParams (declare : Bool) (S : List String) : List SSeg → List String
  | [] => []
  | .mk _ args :: rest => argsParams declare S args ++ segsParams declare S rest
/-- `impl UsesTypeParams for syn::PathArguments` -/
def argsParams (declare : Bool) (S : List String) : SArgs → List String
  | .none => []
  | .angle as => gargsParams declare S as
  | .paren ins out => tysParams declare S ins ++ optTyParams declare S out
def gargsParams (declare : Bool) (S : List String) : List SGArg → List String
  | [] => []
  | a :: as => gargParams declare S a ++ gargsParams declare S as
/-- `impl UsesTypeParams for syn::GenericArgument` -/
def gargParams (declare : Bool) (S : List String) : SGArg → List String
  | .ty t => tyParams declare S t
  | .assocTy t => tyParams declare S t
  | .constraint bs => boundsParams declare S bs
  | .lifetime _ => []
  | .other => []
def boundsParams (declare : Bool) (S : List String) : List SBound → List String
  | [] => []
  | b :: bs => boundParams declare S b ++ boundsParams declare S bs
/-- `impl UsesTypeParams for syn::TypeParamBound` (`TraitBound`: `path` only) -/
def boundParams (declare : Bool) (S : List String) : SBound → List String
  | .trait _ p => pathParams declare S p
  | .lifetime _ => []
end

/-- `impl UsesLifetimes for Lifetime` -/
def ltHits (L : List String) (l : String) : List String := L.filter (· == l)

def ltsHits (L : List String) : List String → List String
  | [] => []
  | l :: ls => ltHits L l ++ ltsHits L ls

/-- `BoundLifetimes.lifetimes`: each `LifetimeParam` contributes `lifetime, bounds` -/
def binderLts (L : List String) : List (String × List String) → List String
  | [] => []
  | (l, bs) :: rest => ltHits L l ++ ltsHits L bs ++ binderLts L rest

mutual
/-- `impl UsesLifetimes for syn::Type` -/
def tyLts (declare : Bool) (L : List String) : SType → List String
  | .path q p => pathLts declare L p ++ (if declare then optTyLts declare L q else [])
  | .ref lt e => (match lt with | some l => ltHits L l | none => []) ++ tyLts declare L e
  | .ptr e => tyLts declare L e
  | .slice e => tyLts declare L e
  | .array e => tyLts declare L e
  | .tuple es => tysLts declare L es
  | .bareFn ins out => tysLts declare L ins ++ optTyLts declare L out
  | .paren e => tyLts declare L e
  | .group e => tyLts declare L e
  | .traitObject bs => boundsLts declare L bs
  | .implTrait bs => boundsLts declare L bs
  | .opaque => []
def optTyLts (declare : Bool) (L : List String) : Option SType → List String
  | none => []
  | some t => tyLts declare L t
def tysLts (declare : Bool) (L : List String) : List SType → List String
  | [] => []
  | t :: ts => tyLts declare L t ++ tysLts declare L ts
def pathLts (declare : Bool) (L : List String) : SPath → List String
  | .mk _ segs => segsLts declare L segs
def segsLts (declare : Bool) (L : List String) : List SSeg → List String
  | [] => []
  | .mk _ args :: rest => argsLts declare L args ++ segsLts declare L rest
def argsLts (declare : Bool) (L : List String) : SArgs → List String
  | .none => []
  | .angle as => gargsLts declare L as
  | .paren ins out => tysLts declare L ins ++ optTyLts declare L out
def gargsLts (declare : Bool) (L : List String) : List SGArg → List String
  | [] => []
  | a :: as => gargLts declare L a ++ gargsLts declare L as
def gargLts (declare : Bool) (L : List String) : SGArg → List String
  | .ty t => tyLts declare L t
  | .assocTy t => tyLts declare L t
  | .constraint bs => boundsLts declare L bs
  | .lifetime l => ltHits L l
  | .other => []
def boundsLts (declare : Bool) (L : List String) : List SBound → List String
  | [] => []
  | b :: bs => boundLts declare L b ++ boundsLts declare L bs
def boundLts (declare : Bool) (L : List String) : SBound → List String
  | .trait binder p => pathLts declare L p ++ binderLts L binder
  | .lifetime l => ltHits L l
end

/-- a field as the bounds computation sees it -/
structure BField where
  ty : SType
  skip : Bool

/-- `TraitImpl::used_type_params` for a struct body: declared parameters used by non-skipped fields -/
def usedInFields (declared : List String) (fields : List BField) : List String :=
  tysParams false declared ((fields.filter (fun f => !f.skip)).map (·.ty))

/-- … for an enum body: non-skipped variants, their non-skipped fields -/
def usedInVariants (declared : List String) : List (Bool × List BField) → List String
  | [] => []
  | (skip, fs) :: rest => (if skip then [] else usedInFields declared fs) ++ usedInVariants declared rest

/-- `compute_impl_bounds`: which declared type parameters get the trait bound pushed -/
def boundedParams (declared : List String) (used : List String) : List String :=
  declared.filter (fun p => used.contains p)

end Usage
