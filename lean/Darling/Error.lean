/-
  Model of `darling_core::error` (core/src/error/mod.rs, core/src/error/kind.rs).

  The model mirrors the code construct by construct:
    * `Err`      = `Error { kind, locations, span }`, with `ErrorKind::Multiple` as `multi`
    * `Kind`     = the ten leaf kinds of `ErrorKind`
    * `multiple` = `Error::multiple` (panics on the empty list, returns the single element of a
                   one-element list, otherwise a fresh bundle with no locations and no span)
    * `at`       = `Error::at` (insert at index 0)
    * `withSpan` = `Error::with_span` (first writer wins)
    * `intoVec`  = `Error::into_vec`; written with an accumulated location prefix so that it is
                   structurally recursive; `intoVecCode` is the literal "prepend_at, then
                   recurse" shape and `Lemmas/Error.lean` proves them equal.
    * `len`, `display`, `toSyn`, `intoIter` = `Error::len`, `Display`, `From<Error> for
                   syn::Error`, `IntoIterator`.
  Scores of did-you-mean suggestions are natural numbers (the harness sends the IEEE bit pattern
  of the non-negative f64, which is order-isomorphic).
-/

structure Span where
  lo : Nat
  hi : Nat
  deriving DecidableEq, Repr, Inhabited, BEq

namespace Span
/-- `a` lies inside `b` -/
def within (a b : Span) : Bool := b.lo ≤ a.lo && a.hi ≤ b.hi
/-- `Span::join` outside a proc macro: the hull of two ranges -/
def join (a b : Span) : Span := ⟨min a.lo b.lo, max a.hi b.hi⟩
end Span

inductive Kind where
  | custom (s : String)
  | duplicateField (n : String)
  | missingField (n : String)
  | unsupportedShape (observed : String) (expected : Option String)
  | unknownField (n : String) (dym : Option (Nat × String))
  | unexpectedFormat (f : String)
  | unexpectedType (t : String)
  | unknownValue (v : String)
  | tooFewItems (n : Nat)
  | tooManyItems (n : Nat)
  deriving DecidableEq, Repr, Inhabited, BEq

/-- `impl Display for ErrorKind`, leaf kinds -/
def Kind.msg : Kind → String
  | .custom s => s
  | .duplicateField f => "Duplicate field `" ++ f ++ "`"
  | .missingField f => "Missing field `" ++ f ++ "`"
  | .unknownField n dym =>
      "Unknown field: `" ++ n ++ "`" ++
        (match dym with
         | some (_, alt) => ". Did you mean `" ++ alt ++ "`?"
         | none => "")
  | .unsupportedShape obs exp =>
      "Unsupported shape `" ++ obs ++ "`" ++
        (match exp with
         | some e => ". Expected " ++ e ++ "."
         | none => "")
  | .unexpectedFormat f => "Unexpected meta-item format `" ++ f ++ "`"
  | .unexpectedType t => "Unexpected type `" ++ t ++ "`"
  | .unknownValue v => "Unknown literal value `" ++ v ++ "`"
  | .tooFewItems n => "Too few items: Expected at least " ++ toString n
  | .tooManyItems n => "Too many items: Expected no more than " ++ toString n

inductive Err where
  | leaf (k : Kind) (locs : List String) (span : Option Span)
  | multi (cs : List Err) (locs : List String) (span : Option Span)
  deriving Repr, Inhabited, BEq

/-- three-valued result: every `panic!`/`expect`/`unreachable!` on a modelled path is explicit -/
inductive Outcome (α : Type) where
  | ok (a : α)
  | err (e : Err)
  | panic (msg : String)
  deriving Repr, Inhabited

namespace Outcome
def map {α β} (f : α → β) : Outcome α → Outcome β
  | ok a => ok (f a)
  | err e => err e
  | panic m => panic m
def bind {α β} (x : Outcome α) (f : α → Outcome β) : Outcome β :=
  match x with
  | ok a => f a
  | err e => err e
  | panic m => panic m
def mapErr {α} (f : Err → Err) : Outcome α → Outcome α
  | ok a => ok a
  | err e => err (f e)
  | panic m => panic m
def isPanic {α} : Outcome α → Bool
  | panic _ => true
  | _ => false
def isOk {α} : Outcome α → Bool
  | ok _ => true
  | _ => false
end Outcome

namespace Err

def locs : Err → List String
  | leaf _ l _ => l
  | multi _ l _ => l

def span : Err → Option Span
  | leaf _ _ s => s
  | multi _ _ s => s

/-- `Error::new(kind)` -/
def new (k : Kind) : Err := leaf k [] none

/-- `Error::multiple` -/
def multiple : List Err → Outcome Err
  | [] => .panic "Can't deal with 0 errors"
  | [e] => .ok e
  | es => .ok (multi es [] none)

/-- `Err(Error::multiple(errors))` as the failing arm of `Accumulator::finish_with` -/
def bundleErr {α : Type} (errs : List Err) : Outcome α :=
  match multiple errs with
  | .ok e => .err e
  | .err e => .err e
  | .panic m => .panic m

/-- `Error::at`: `self.locations.insert(0, location)` -/
def «at» (e : Err) (l : String) : Err :=
  match e with
  | leaf k ls s => leaf k (l :: ls) s
  | multi cs ls s => multi cs (l :: ls) s

/-- `Error::with_span`: only when no span is present -/
def withSpan (e : Err) (sp : Span) : Err :=
  match e with
  | leaf k ls none => leaf k ls (some sp)
  | multi cs ls none => multi cs ls (some sp)
  | e => e

/-- `Error::prepend_at` -/
def prependAt (e : Err) (pre : List String) : Err :=
  if pre.isEmpty then e else
  match e with
  | leaf k ls s => leaf k (pre ++ ls) s
  | multi cs ls s => multi cs (pre ++ ls) s

/-- span handed down to a child by `into_vec`: the child keeps its own span if it has one -/
def inheritSpan (e : Err) (sp : Option Span) : Err :=
  match sp with
  | none => e
  | some s => e.withSpan s

mutual
/-- `ErrorKind::len` / `Error::len` -/
def len : Err → Nat
  | leaf _ _ _ => 1
  | multi cs _ _ => lenList cs
def lenList : List Err → Nat
  | [] => 0
  | c :: cs => len c + lenList cs
end

mutual
/-- `Error::into_vec` with the locations (and the span, see `Error::into_vec`) of the enclosing
    bundles accumulated in `pre` / `sp` -/
def intoVecP (pre : List String) (sp : Option Span) : Err → List Err
  | leaf k ls s => [(leaf k (pre ++ ls) s).inheritSpan sp]
  | multi cs ls s => intoVecListP (pre ++ ls) (s.or sp) cs
def intoVecListP (pre : List String) (sp : Option Span) : List Err → List Err
  | [] => []
  | c :: cs => intoVecP pre sp c ++ intoVecListP pre sp cs
end

def intoVec (e : Err) : List Err := intoVecP [] none e

/-- `Error::flatten` -/
def flatten (e : Err) : Outcome Err := multiple (intoVec e)

def locSuffix (ls : List String) : String :=
  if ls.isEmpty then "" else " at " ++ "/".intercalate ls

/-- `ErrorKind::Multiple` formatting, given the children's renderings -/
def kindMulti : List String → String
  | [s] => s
  | ss => "Multiple errors: (" ++ ", ".intercalate ss ++ ")"

mutual
/-- `impl Display for Error` (and for `ErrorKind::Multiple`) -/
def display : Err → String
  | leaf k ls _ => k.msg ++ locSuffix ls
  | multi cs ls _ => kindMulti (displayList cs) ++ locSuffix ls
def displayList : List Err → List String
  | [] => []
  | c :: cs => display c :: displayList cs
end

/-- `kind.to_string()`: the message without the location suffix -/
def kindDisplay : Err → String
  | leaf k _ _ => k.msg
  | multi cs _ _ => kindMulti (displayList cs)

/-- one `syn::Error` message: explicit span ↦ kind only; no span ↦ full display (with path) -/
def synRow (e : Err) : Option Span × String :=
  match e.span with
  | some s => (some s, e.kindDisplay)
  | none => (none, e.display)

/-- `impl From<Error> for syn::Error`, as the list of `(span, message)` of the combined error -/
def toSyn (e : Err) : List (Option Span × String) :=
  if e.len = 1 then [e.synRow]
  else (intoVec e).map synRow

/-- `impl IntoIterator for Error`: one level -/
def intoIter : Err → List Err
  | multi cs _ _ => cs
  | e => [e]

end Err
