import Darling.Props.C03Recv
import Darling.FromMeta.Universe
import Darling.FromMeta.SpanWF
/-
  C03, built-in conversions — discharge of the converter contract `C03.ConvSpans` for the whole
  universe of built-in target types: every span that occurs anywhere in an error returned by a
  built-in conversion of an item lies inside that item.

  Vocabulary (all executable `Bool` functions, so that a driver can evaluate them):
    * `Err.allWithin A e`   — every node of the error tree `e` that has a span has it inside `A`;
    * `Err.unspanned e`     — no node of `e` has a span;
    * `Expr.spanWF`, `Meta.spanWF`, `NestedMeta.spanWF` — children lie inside their parents;
    * `Oracle.arrsWithin o A` — every array the `LitStr::parse::<ExprArray>` oracle can return is
      span-well-formed and lies inside `A` (trusted fact about syn: `LitStr::parse` re-spans the
      parsed tokens to the literal, which lies inside the item).

  The contract `Hooks.SpansIn A h` is stated relative to an *ambient* span `A` (the item under
  consideration): handed a span-well-formed piece of syntax that lies inside `A`, every overridden
  method of `h` returns only errors all of whose spans lie inside `A`; the methods that are handed
  no syntax (`from_word`, `from_string`, `from_bool`, `from_char`) return errors without any span
  (their caller's default method then attaches the item's span).  Quantified over all `A` this is
  the tight statement "inside the piece of syntax that was handed in" (`SpansIn.tight_*`); the
  ambient form is what survives the two implementors that consult the array oracle, whose answer
  is keyed by the string contents alone.
-/
open Scalars Wrappers SynTypes

/-! ### vocabulary -/

/-- the oracle hypothesis, for the item with span `A` under consideration -/
def OracleArrWithin (o : Oracle) (A : Span) : Prop :=
  ∀ s x, o.parseArr s = some x → x.spanWF = true ∧ x.span.within A = true

namespace Outcome
variable {α β : Type}
/-- every error this outcome can be has all its spans inside `A` -/
def ErrsIn (A : Span) (o : Outcome α) : Prop := ∀ e, o = .err e → e.AllWithin A
/-- every error this outcome can be has no span at all -/
def ErrsUnspanned (o : Outcome α) : Prop := ∀ e, o = .err e → e.Unspanned
end Outcome

namespace Hooks
variable {α : Type}

/-- **the span contract of an implementor**, relative to the ambient item span `A`: every
    overridden method that is handed well-formed syntax inside `A` returns only errors whose spans
    all lie inside `A`; the methods that are handed no syntax return span-less errors -/
structure SpansIn (A : Span) (h : Hooks α) : Prop where
  nested : ∀ f, h.fromNestedMeta? = some f →
    ∀ n, n.spanWF = true → n.span.within A = true → (f n).ErrsIn A
  meta_ : ∀ f, h.fromMeta? = some f →
    ∀ m, m.spanWF = true → m.span.within A = true → (f m).ErrsIn A
  word : ∀ r, h.fromWord? = some r → r.ErrsUnspanned
  list : ∀ f, h.fromList? = some f →
    ∀ items, NestedMeta.spanWFList A items = true → (f items).ErrsIn A
  value : ∀ f, h.fromValue? = some f → ∀ l, l.span.within A = true → (f l).ErrsIn A
  expr : ∀ f, h.fromExpr? = some f →
    ∀ x, x.spanWF = true → x.span.within A = true → (f x).ErrsIn A
  char : ∀ f, h.fromChar? = some f → ∀ c, (f c).ErrsUnspanned
  string : ∀ f, h.fromString? = some f → ∀ s, (f s).ErrsUnspanned
  bool : ∀ f, h.fromBool? = some f → ∀ b, (f b).ErrsUnspanned

end Hooks

namespace C03
variable {α β : Type}

/-! ### spans -/

theorem within_trans {a b c : Span} (h1 : a.within b = true) (h2 : b.within c = true) :
    a.within c = true := by
  simp only [Span.within, Bool.and_eq_true, decide_eq_true_eq] at *
  omega

/-! ### error trees -/

mutual
theorem unspanned_allWithin (A : Span) : (e : Err) → e.unspanned = true → e.allWithin A = true
  | .leaf _ _ s, h => by
      cases s with
      | none => simp only [Err.allWithin, Span.okIn]
      | some s => simp [Err.unspanned] at h
  | .multi cs _ s, h => by
      cases s with
      | none =>
          simp only [Err.unspanned, Option.isNone_none, Bool.true_and] at h
          simp only [Err.allWithin, Span.okIn, Bool.true_and]
          exact unspannedList_allWithin A cs h
      | some s => simp [Err.unspanned] at h
theorem unspannedList_allWithin (A : Span) :
    (es : List Err) → Err.unspannedList es = true → Err.allWithinList A es = true
  | [], _ => by simp only [Err.allWithinList]
  | c :: cs, h => by
      simp only [Err.unspannedList, Bool.and_eq_true] at h
      simp only [Err.allWithinList, Bool.and_eq_true]
      exact ⟨unspanned_allWithin A c h.1, unspannedList_allWithin A cs h.2⟩
end

theorem _root_.Err.Unspanned.allWithin {e : Err} (h : e.Unspanned) (A : Span) : e.AllWithin A :=
  unspanned_allWithin A e h

theorem okIn_mono {A B : Span} (hAB : A.within B = true) :
    (s : Option Span) → Span.okIn A s = true → Span.okIn B s = true
  | none, _ => rfl
  | some _, h => within_trans h hAB

mutual
theorem allWithin_mono {A B : Span} (hAB : A.within B = true) :
    (e : Err) → e.allWithin A = true → e.allWithin B = true
  | .leaf _ _ s, h => by
      simp only [Err.allWithin] at h ⊢
      exact okIn_mono hAB s h
  | .multi cs _ s, h => by
      simp only [Err.allWithin, Bool.and_eq_true] at h ⊢
      exact ⟨okIn_mono hAB s h.1, allWithinList_mono hAB cs h.2⟩
theorem allWithinList_mono {A B : Span} (hAB : A.within B = true) :
    (es : List Err) → Err.allWithinList A es = true → Err.allWithinList B es = true
  | [], _ => by simp only [Err.allWithinList]
  | c :: cs, h => by
      simp only [Err.allWithinList, Bool.and_eq_true] at h ⊢
      exact ⟨allWithin_mono hAB c h.1, allWithinList_mono hAB cs h.2⟩
end

theorem _root_.Err.AllWithin.mono {A B : Span} {e : Err} (h : e.AllWithin A) (hAB : A.within B = true) :
    e.AllWithin B := allWithin_mono hAB e h

/-- the top node's span, in particular, lies inside `A` -/
theorem _root_.Err.AllWithin.span {A : Span} {e : Err} (h : e.AllWithin A) (s : Span) (hs : e.span = some s) :
    s.within A = true := by
  cases e with
  | leaf k ls sp =>
      simp only [Err.span] at hs; subst hs
      simpa only [Err.AllWithin, Err.allWithin, Span.okIn] using h
  | multi cs ls sp =>
      simp only [Err.span] at hs; subst hs
      simp only [Err.AllWithin, Err.allWithin, Span.okIn, Bool.and_eq_true] at h
      exact h.1

theorem _root_.Err.AllWithin.withSpan {A sp : Span} {e : Err} (h : e.AllWithin A) (hs : sp.within A = true) :
    (e.withSpan sp).AllWithin A := by
  cases e with
  | leaf k ls s =>
      cases s with
      | none => simpa only [Err.withSpan, Err.AllWithin, Err.allWithin, Span.okIn] using hs
      | some s => exact h
  | multi cs ls s =>
      cases s with
      | none =>
          simp only [Err.AllWithin, Err.allWithin, Span.okIn, Bool.true_and] at h
          simp only [Err.withSpan, Err.AllWithin, Err.allWithin, Span.okIn, Bool.and_eq_true]
          exact ⟨hs, h⟩
      | some s => exact h

theorem _root_.Err.AllWithin.at {A : Span} {e : Err} (h : e.AllWithin A) (l : String) : (e.at l).AllWithin A := by
  cases e with
  | leaf k ls s => exact h
  | multi cs ls s => exact h

theorem allWithinList_of_forall (A : Span) :
    (es : List Err) → (∀ e ∈ es, e.AllWithin A) → Err.allWithinList A es = true
  | [], _ => by simp only [Err.allWithinList]
  | c :: cs, h => by
      simp only [Err.allWithinList, Bool.and_eq_true]
      exact ⟨h c (List.mem_cons_self ..),
        allWithinList_of_forall A cs (fun e he => h e (List.mem_cons_of_mem _ he))⟩

/-- `Error::multiple` of errors inside `A` is inside `A` (the fresh bundle has no span) -/
theorem multiple_allWithin {A : Span} {es : List Err} {e : Err} (h : ∀ x ∈ es, x.AllWithin A)
    (hm : Err.multiple es = .ok e) : e.AllWithin A := by
  match es, h, hm with
  | [x], h, hm =>
      simp only [Err.multiple, Outcome.ok.injEq] at hm; subst hm
      exact h _ (List.mem_singleton.mpr rfl)
  | x :: y :: r, h, hm =>
      simp only [Err.multiple, Outcome.ok.injEq] at hm; subst hm
      simp only [Err.AllWithin, Err.allWithin, Span.okIn, Bool.true_and]
      exact allWithinList_of_forall A _ h

/-! ### outcomes -/

theorem errsIn_ok (A : Span) (a : α) : (Outcome.ok a).ErrsIn A := by intro e h; cases h
theorem errsIn_panic (A : Span) (m : String) : (Outcome.panic m : Outcome α).ErrsIn A := by
  intro e h; cases h
theorem errsIn_err {A : Span} {e : Err} (h : e.AllWithin A) : (Outcome.err e : Outcome α).ErrsIn A := by
  intro e' h'; cases h'; exact h
theorem unsp_ok (a : α) : (Outcome.ok a).ErrsUnspanned := by intro e h; cases h
theorem unsp_err {e : Err} (h : e.Unspanned) : (Outcome.err e : Outcome α).ErrsUnspanned := by
  intro e' h'; cases h'; exact h

theorem _root_.Outcome.ErrsIn.map {A : Span} {o : Outcome α} (h : o.ErrsIn A) (f : α → β) : (o.map f).ErrsIn A := by
  cases o with
  | ok a => exact errsIn_ok A _
  | err e => exact errsIn_err (h e rfl)
  | panic m => exact errsIn_panic A m

theorem _root_.Outcome.ErrsUnspanned.map {o : Outcome α} (h : o.ErrsUnspanned) (f : α → β) : (o.map f).ErrsUnspanned := by
  cases o with
  | ok a => exact unsp_ok _
  | err e => exact unsp_err (h e rfl)
  | panic m => intro e h'; cases h'

/-- `.map_err(|e| e.with_span(x))` with `x` inside `A` -/
theorem _root_.Outcome.ErrsIn.withSpan {A sp : Span} {o : Outcome α} (h : o.ErrsIn A) (hs : sp.within A = true) :
    (o.mapErr (·.withSpan sp)).ErrsIn A := by
  cases o with
  | ok a => exact errsIn_ok A _
  | err e => exact errsIn_err ((h e rfl).withSpan hs)
  | panic m => exact errsIn_panic A m

/-- `.map_err(|e| e.at(l))` -/
theorem _root_.Outcome.ErrsIn.at {A : Span} {o : Outcome α} (h : o.ErrsIn A) (l : String) :
    (o.mapErr (·.at l)).ErrsIn A := by
  cases o with
  | ok a => exact errsIn_ok A _
  | err e => exact errsIn_err ((h e rfl).at l)
  | panic m => exact errsIn_panic A m

theorem _root_.Outcome.ErrsUnspanned.errsIn {o : Outcome α} (h : o.ErrsUnspanned) (A : Span) : o.ErrsIn A :=
  fun e he => (h e he).allWithin A

/-- a span-less error that the default method then spans with the item -/
theorem _root_.Outcome.ErrsUnspanned.withSpan {A sp : Span} {o : Outcome α} (h : o.ErrsUnspanned) (hs : sp.within A = true) :
    (o.mapErr (·.withSpan sp)).ErrsIn A := (h.errsIn A).withSpan hs

/-! the error constructors -/

theorem unsp_new (k : Kind) : (Err.new k).Unspanned := rfl
theorem unsp_unsupportedFormat (f : String) : (Err.unsupportedFormat f).Unspanned := rfl
theorem unsp_unknownValue (v : String) : (Err.unknownValue v).Unspanned := rfl
theorem unsp_custom (v : String) : (Err.custom v).Unspanned := rfl

theorem leaf_allWithin {A s : Span} (k : Kind) (ls : List String) (h : s.within A = true) :
    (Err.leaf k ls (some s)).AllWithin A := h
theorem unexpectedLitType_allWithin {A : Span} (l : Lit) (h : l.span.within A = true) :
    (Err.unexpectedLitType l).AllWithin A := h
theorem unexpectedExprType_allWithin {A : Span} (x : Expr) (h : x.span.within A = true) :
    (Err.unexpectedExprType x).AllWithin A := h
theorem unknownLitStr_allWithin {A : Span} (s : String) (l : Lit) (h : l.span.within A = true) :
    (unknownLitStr s l).AllWithin A := h

/-! ### well-formed lists -/

theorem exprWFList_mem {A : Span} : (es : List Expr) → Expr.spanWFList A es = true →
    ∀ e ∈ es, e.spanWF = true ∧ e.span.within A = true
  | [], _, e, he => by cases he
  | x :: xs, h, e, he => by
      simp only [Expr.spanWFList, Bool.and_eq_true] at h
      rcases List.mem_cons.mp he with rfl | he'
      · exact ⟨h.1.2, h.1.1⟩
      · exact exprWFList_mem xs h.2 e he'

theorem nestedWFList_mem {A : Span} : (ns : List NestedMeta) → NestedMeta.spanWFList A ns = true →
    ∀ n ∈ ns, n.spanWF = true ∧ n.span.within A = true
  | [], _, n, hn => by cases hn
  | x :: xs, h, n, hn => by
      simp only [NestedMeta.spanWFList, Bool.and_eq_true] at h
      rcases List.mem_cons.mp hn with rfl | hn'
      · exact ⟨h.1.2, h.1.1⟩
      · exact nestedWFList_mem xs h.2 n hn'

/-- a list that is well-formed inside `B` is well-formed inside any `A` that contains `B` -/
theorem nestedWFList_mono {A B : Span} (hBA : B.within A = true) :
    (ns : List NestedMeta) → NestedMeta.spanWFList B ns = true → NestedMeta.spanWFList A ns = true
  | [], _ => by simp only [NestedMeta.spanWFList]
  | x :: xs, h => by
      simp only [NestedMeta.spanWFList, Bool.and_eq_true] at h ⊢
      exact ⟨⟨within_trans h.1.1 hBA, h.1.2⟩, nestedWFList_mono hBA xs h.2⟩

theorem exprWFList_mono {A B : Span} (hBA : B.within A = true) :
    (es : List Expr) → Expr.spanWFList B es = true → Expr.spanWFList A es = true
  | [], _ => by simp only [Expr.spanWFList]
  | x :: xs, h => by
      simp only [Expr.spanWFList, Bool.and_eq_true] at h ⊢
      exact ⟨⟨within_trans h.1.1 hBA, h.1.2⟩, exprWFList_mono hBA xs h.2⟩

/-! ### closure of the contract under the default routing (`trait FromMeta`'s default methods) -/

section routing
variable {A : Span} {h : Hooks α}
open Hooks

theorem _root_.Hooks.SpansIn.fromWord (c : h.SpansIn A) : h.fromWord.ErrsUnspanned := by
  unfold Hooks.fromWord
  cases hw : h.fromWord? with
  | some r => exact c.word r hw
  | none => exact unsp_err (unsp_unsupportedFormat _)

theorem _root_.Hooks.SpansIn.fromList (c : h.SpansIn A) (items : List NestedMeta)
    (hi : NestedMeta.spanWFList A items = true) : (h.fromList items).ErrsIn A := by
  unfold Hooks.fromList
  cases hw : h.fromList? with
  | some f => exact c.list f hw items hi
  | none => exact errsIn_err ((unsp_unsupportedFormat _).allWithin A)

theorem _root_.Hooks.SpansIn.fromChar (c : h.SpansIn A) (ch : Char) : (h.fromChar ch).ErrsUnspanned := by
  unfold Hooks.fromChar
  cases hw : h.fromChar? with
  | some f => exact c.char f hw ch
  | none => exact unsp_err (unsp_new _)

theorem _root_.Hooks.SpansIn.fromString (c : h.SpansIn A) (s : String) : (h.fromString s).ErrsUnspanned := by
  unfold Hooks.fromString
  cases hw : h.fromString? with
  | some f => exact c.string f hw s
  | none => exact unsp_err (unsp_new _)

theorem _root_.Hooks.SpansIn.fromBool (c : h.SpansIn A) (b : Bool) : (h.fromBool b).ErrsUnspanned := by
  unfold Hooks.fromBool
  cases hw : h.fromBool? with
  | some f => exact c.bool f hw b
  | none => exact unsp_err (unsp_new _)

theorem _root_.Hooks.SpansIn.fromValue (c : h.SpansIn A) (l : Lit) (hl : l.span.within A = true) :
    (h.fromValue l).ErrsIn A := by
  unfold Hooks.fromValue
  cases hw : h.fromValue? with
  | some f => exact c.value f hw l hl
  | none =>
      unfold Hooks.fromValueD
      refine Outcome.ErrsIn.withSpan ?_ hl
      cases l.v <;> first
        | exact (c.fromBool _).errsIn A
        | exact (c.fromString _).errsIn A
        | exact (c.fromChar _).errsIn A
        | exact errsIn_err (unexpectedLitType_allWithin l hl)

theorem _root_.Hooks.SpansIn.fromExprD (c : h.SpansIn A) :
    (x : Expr) → x.spanWF = true → x.span.within A = true → (h.fromExprD x).ErrsIn A
  | .lit l, _, hA => by
      simp only [Hooks.fromExprD]; exact (c.fromValue l hA).withSpan hA
  | .group g sp, hwf, hA => by
      simp only [Expr.spanWF, Bool.and_eq_true] at hwf
      simp only [Hooks.fromExprD]
      exact (Hooks.SpansIn.fromExprD c g hwf.2 (within_trans hwf.1 hA)).withSpan hA
  | .path p s, _, hA => by
      simp only [Hooks.fromExprD]
      exact (errsIn_err (unexpectedExprType_allWithin _ hA)).withSpan hA
  | .qpath p t s, _, hA => by
      simp only [Hooks.fromExprD]
      exact (errsIn_err (unexpectedExprType_allWithin _ hA)).withSpan hA
  | .array es t s, _, hA => by
      simp only [Hooks.fromExprD]
      exact (errsIn_err (unexpectedExprType_allWithin _ hA)).withSpan hA
  | .other k t s, _, hA => by
      simp only [Hooks.fromExprD]
      exact (errsIn_err (unexpectedExprType_allWithin _ hA)).withSpan hA

theorem _root_.Hooks.SpansIn.fromExpr (c : h.SpansIn A) (x : Expr) (hwf : x.spanWF = true)
    (hA : x.span.within A = true) : (h.fromExpr x).ErrsIn A := by
  unfold Hooks.fromExpr
  cases hw : h.fromExpr? with
  | some f => exact c.expr f hw x hwf hA
  | none => exact c.fromExprD x hwf hA

/-- **closure under the default `from_meta`** -/
theorem _root_.Hooks.SpansIn.fromMeta (c : h.SpansIn A) (m : Meta) (hwf : m.spanWF = true)
    (hA : m.span.within A = true) : (h.fromMeta m).ErrsIn A := by
  unfold Hooks.fromMeta
  cases hw : h.fromMeta? with
  | some f => exact c.meta_ f hw m hwf hA
  | none =>
      unfold Hooks.fromMetaD
      cases m with
      | path p => exact c.fromWord.withSpan hA
      | list p items bad ts t sp =>
          simp only [Meta.span] at hA
          simp only [Meta.spanWF, Bool.and_eq_true] at hwf
          cases bad with
          | some b =>
              obtain ⟨msg, bs⟩ := b
              exact errsIn_err (leaf_allWithin _ _ (within_trans hwf.1.2 hA))
          | none => exact (c.fromList items (nestedWFList_mono hA items hwf.2)).withSpan hA
      | nameValue p e t sp =>
          simp only [Meta.span] at hA
          simp only [Meta.spanWF, Bool.and_eq_true] at hwf
          exact (c.fromExpr e hwf.2 (within_trans hwf.1.2 hA)).withSpan hA

theorem _root_.Hooks.SpansIn.fromNestedMeta (c : h.SpansIn A) (n : NestedMeta) (hwf : n.spanWF = true)
    (hA : n.span.within A = true) : (h.fromNestedMeta n).ErrsIn A := by
  unfold Hooks.fromNestedMeta
  cases hw : h.fromNestedMeta? with
  | some f => exact c.nested f hw n hwf hA
  | none =>
      unfold Hooks.fromNestedMetaD
      refine Outcome.ErrsIn.withSpan ?_ hA
      cases n with
      | lit l => exact c.fromValue l hA
      | item m => exact c.fromMeta m hwf hA

end routing

/-! ### scalars -/

theorem unit_spansIn (A : Span) (u : α) : (unitHooks u).SpansIn A := by
  constructor <;> intro f hf <;> simp [unitHooks] at hf
  subst hf; exact unsp_ok _

theorem bool_spansIn (A : Span) (inj : Bool → α) : (boolHooks inj).SpansIn A := by
  constructor <;> intro f hf <;> simp [boolHooks] at hf
  · subst hf; exact unsp_ok _
  · subst hf; intro s; simp only; split
    · exact unsp_ok _
    · split
      · exact unsp_ok _
      · exact unsp_err (unsp_unknownValue _)
  · subst hf; intro b; exact unsp_ok _

theorem char_spansIn (A : Span) (inj : Char → α) : (charHooks inj).SpansIn A := by
  constructor <;> intro f hf <;> simp [charHooks] at hf
  · subst hf; intro c; exact unsp_ok _
  · subst hf; intro s; simp only; split
    · exact unsp_ok _
    · exact unsp_err (unsp_new _)

theorem string_spansIn (A : Span) (inj : String → α) : (stringHooks inj).SpansIn A := by
  constructor <;> intro f hf <;> simp [stringHooks] at hf
  subst hf; intro s; exact unsp_ok _

theorem numFromString_unsp (sp : IntSpec) (inj : Int → α) (s : String) :
    (numFromString sp inj s).ErrsUnspanned := by
  unfold numFromString
  cases parseIntStd sp s
  · exact unsp_err (unsp_unknownValue _)
  · exact unsp_ok _

theorem numFromValue_errsIn {A : Span} (sp : IntSpec) (inj : Int → α) (l : Lit)
    (hl : l.span.within A = true) : (numFromValue sp inj l).ErrsIn A := by
  unfold numFromValue
  refine Outcome.ErrsIn.withSpan ?_ hl
  cases l.v
  case str s => exact (numFromString_unsp sp inj _).errsIn A
  case int d sfx =>
    simp only []
    split
    · exact errsIn_ok A _
    · exact errsIn_err (leaf_allWithin _ _ hl)
  all_goals exact errsIn_err (unexpectedLitType_allWithin l hl)

theorem num_spansIn (A : Span) (sp : IntSpec) (inj : Int → α) : (numHooks sp inj).SpansIn A := by
  constructor <;> intro f hf <;> simp [numHooks] at hf
  · subst hf; intro l hl; exact numFromValue_errsIn sp inj l hl
  · subst hf; intro s; exact numFromString_unsp sp inj s

theorem float_spansIn (A : Span) (parseF : String → Option Nat) (inj : Nat → α) :
    (floatHooks parseF inj).SpansIn A := by
  have hs : ∀ s, (floatFromString parseF inj s).ErrsUnspanned := by
    intro s; unfold floatFromString
    cases parseF s
    · exact unsp_err (unsp_unknownValue _)
    · exact unsp_ok _
  constructor <;> intro f hf <;> simp [floatHooks] at hf
  · subst hf; intro l hl
    unfold floatFromValue
    refine Outcome.ErrsIn.withSpan ?_ hl
    cases l.v
    case str s => exact (hs _).errsIn A
    case float d sfx =>
      simp only []
      split
      · exact errsIn_ok A _
      · exact errsIn_err (leaf_allWithin _ _ hl)
    case int d sfx =>
      simp only []
      split
      · exact errsIn_ok A _
      · exact errsIn_err (leaf_allWithin _ _ hl)
    all_goals exact errsIn_err (unexpectedLitType_allWithin l hl)
  · subst hf; exact hs

/-! ### wrappers preserve the contract -/

theorem option_spansIn {A : Span} (some' : α → β) (none' : β) (h : Hooks α) (c : h.SpansIn A) :
    (optionOf some' none' h).SpansIn A := by
  constructor <;> intro f hf <;> simp [optionOf] at hf
  subst hf; intro m hwf hA; exact (c.fromMeta m hwf hA).map _

theorem ptr_spansIn {A : Span} (wrap : α → β) (h : Hooks α) (c : h.SpansIn A) : (ptrOf wrap h).SpansIn A := by
  constructor <;> intro f hf <;> simp [ptrOf] at hf
  · subst hf; intro m hwf hA; exact (c.fromMeta m hwf hA).map _
  · subst hf; intro items hi; exact (c.fromList items hi).map _

/-- `darling::Result<T>` never returns an error of its own -/
theorem result_spansIn {A : Span} (ok' : α → β) (err' : Err → β) (h : Hooks α) :
    (resultOf ok' err' h).SpansIn A := by
  have lift : ∀ o : Outcome α, (match o with
      | .ok v => Outcome.ok (ok' v) | .err e => .ok (err' e) | .panic m => .panic m : Outcome β).ErrsIn A := by
    intro o
    cases o with
    | ok v => exact errsIn_ok A _
    | err e => exact errsIn_ok A _
    | panic m => exact errsIn_panic A m
  constructor <;> intro f hf <;> simp [resultOf] at hf
  · subst hf; intro m _ _; exact lift _
  · subst hf; intro items _; exact lift _

theorem resultMeta_spansIn {A : Span} (ok' : α → β) (err' : Meta → β) (h : Hooks α) :
    (resultMetaOf ok' err' h).SpansIn A := by
  constructor <;> intro f hf <;> simp [resultMetaOf] at hf
  subst hf; intro m _ _
  simp only []
  cases h.fromMeta m with
  | ok v => exact errsIn_ok A _
  | err e => exact errsIn_ok A _
  | panic p => exact errsIn_panic A p

theorem override_spansIn {A : Span} (explicit' : α → β) (inherit' : β) (h : Hooks α) (c : h.SpansIn A) :
    (overrideOf explicit' inherit' h).SpansIn A := by
  constructor <;> intro f hf <;> simp [overrideOf] at hf
  · subst hf; intro m hwf hA
    cases m with
    | path p => exact errsIn_ok A _
    | list _ _ _ _ _ _ => exact (c.fromMeta _ hwf hA).map _
    | nameValue _ _ _ _ => exact (c.fromMeta _ hwf hA).map _
  · subst hf; exact unsp_ok _
  · subst hf; intro items hi; exact (c.fromList items hi).map _
  · subst hf; intro l hl; exact (c.fromValue l hl).map _
  · subst hf; intro ch; exact (c.fromChar ch).map _
  · subst hf; intro s; exact (c.fromString s).map _
  · subst hf; intro b; exact (c.fromBool b).map _

theorem spanned_spansIn {A : Span} (mk : α → Option Span → β) (h : Hooks α) (c : h.SpansIn A) :
    (spannedOf mk h).SpansIn A := by
  constructor <;> intro f hf <;> simp [spannedOf] at hf
  · subst hf; intro n hwf hA; exact ((c.fromNestedMeta n hwf hA).map _).withSpan hA
  · subst hf; intro m hwf hA
    have := (c.fromMeta m hwf hA).withSpan hA
    simp only
    cases hm : (h.fromMeta m).mapErr (·.withSpan m.span) with
    | ok v => exact errsIn_ok A _
    | err e => exact errsIn_err (this e hm)
    | panic p => exact errsIn_panic A p
  · subst hf; intro l hl; exact ((c.fromValue l hl).map _).withSpan hl
  · subst hf; intro x hwf hA; exact ((c.fromExpr x hwf hA).map _).withSpan hA

theorem withOriginal_spansIn {A : Span} (mk : α → Meta → β) (h : Hooks α) (c : h.SpansIn A) :
    (withOriginalOf mk h).SpansIn A := by
  constructor <;> intro f hf <;> simp [withOriginalOf] at hf
  subst hf; intro m hwf hA; exact (c.fromMeta m hwf hA).map _

/-- `Flag`: the error of `<()>::from_meta` on the same item is handed on unchanged -/
theorem flag_spansIn (A : Span) (mk : Option Span → β) : (flagHooks mk).SpansIn A := by
  have pass : ∀ o : Outcome Unit, o.ErrsIn A → (match o with
      | .err e => Outcome.err e
      | .ok _ => .panic "called `Result::unwrap_err()` on an `Ok` value"
      | .panic p => .panic p : Outcome β).ErrsIn A := by
    intro o ho
    cases o with
    | ok v => exact errsIn_panic A _
    | err e => exact errsIn_err (ho e rfl)
    | panic m => exact errsIn_panic A m
  constructor <;> intro f hf <;> simp [flagHooks] at hf
  subst hf; intro m hwf hA
  cases m with
  | path p => exact errsIn_ok A _
  | list p items bad ts t s => exact pass _ ((unit_spansIn A ()).fromMeta _ hwf hA)
  | nameValue p e t s => exact pass _ ((unit_spansIn A ()).fromMeta _ hwf hA)

theorem atomicBool_spansIn (A : Span) (inj : Bool → β) : (atomicBoolHooks inj).SpansIn A := by
  constructor <;> intro f hf <;> simp [atomicBoolHooks] at hf
  subst hf; intro m hwf hA; exact ((bool_spansIn A inj).fromMeta m hwf hA).withSpan hA

/-! ### shared string-parsed conversions -/

theorem parsedFromValue_errsIn {A : Span} (parse : String → Option String) (tok : String → α) (l : Lit)
    (hl : l.span.within A = true) : (parsedFromValue parse tok l).ErrsIn A := by
  unfold parsedFromValue
  split
  · split
    · exact errsIn_ok A _
    · exact errsIn_err (unknownLitStr_allWithin _ l hl)
  · exact errsIn_err (unexpectedLitType_allWithin l hl)

theorem parsedFromString_unsp (parse : String → Option String) (tok : String → α) (s : String) :
    (parsedFromString parse tok s).ErrsUnspanned := by
  unfold parsedFromString
  split
  · exact unsp_ok _
  · exact unsp_err (unsp_unknownValue _)

/-! ### syn::Expr, syn::Path, syn::Ident, IdentString -/

theorem exprFromExpr_errsIn {A : Span} (parse : String → Option String) (tok : String → α) :
    (x : Expr) → x.spanWF = true → x.span.within A = true → (exprFromExpr parse tok x).ErrsIn A
  | .lit l, _, hA => by
      simp only [exprFromExpr]; split
      · exact parsedFromValue_errsIn parse tok l hA
      · exact errsIn_ok A _
  | .group g _, hwf, hA => by
      simp only [Expr.spanWF, Bool.and_eq_true] at hwf
      simp only [exprFromExpr]
      exact exprFromExpr_errsIn parse tok g hwf.2 (within_trans hwf.1 hA)
  | .path _ _, _, _ => by simp only [exprFromExpr]; exact errsIn_ok A _
  | .qpath _ _ _, _, _ => by simp only [exprFromExpr]; exact errsIn_ok A _
  | .array _ _ _, _, _ => by simp only [exprFromExpr]; exact errsIn_ok A _
  | .other _ _ _, _, _ => by simp only [exprFromExpr]; exact errsIn_ok A _

theorem expr_spansIn (A : Span) (parse : String → Option String) (tok : String → α) :
    (exprHooks parse tok).SpansIn A := by
  constructor <;> intro f hf <;> simp [exprHooks] at hf
  · subst hf; intro l hl; exact parsedFromValue_errsIn parse tok l hl
  · subst hf; exact exprFromExpr_errsIn parse tok
  · subst hf; exact parsedFromString_unsp parse tok

theorem pathFromExpr_errsIn {A : Span} (parse : String → Option String) (tok : String → α) :
    (x : Expr) → x.spanWF = true → x.span.within A = true → (pathFromExpr parse tok x).ErrsIn A
  | .lit l, _, hA => by simp only [pathFromExpr]; exact parsedFromValue_errsIn parse tok l hA
  | .group g _, hwf, hA => by
      simp only [Expr.spanWF, Bool.and_eq_true] at hwf
      simp only [pathFromExpr]
      exact pathFromExpr_errsIn parse tok g hwf.2 (within_trans hwf.1 hA)
  | .path _ _, _, _ => by simp only [pathFromExpr]; exact errsIn_ok A _
  | .qpath _ _ _, _, hA => by
      simp only [pathFromExpr]; exact errsIn_err (unexpectedExprType_allWithin _ hA)
  | .array _ _ _, _, hA => by
      simp only [pathFromExpr]; exact errsIn_err (unexpectedExprType_allWithin _ hA)
  | .other _ _ _, _, hA => by
      simp only [pathFromExpr]; exact errsIn_err (unexpectedExprType_allWithin _ hA)

theorem path_spansIn (A : Span) (parse : String → Option String) (tok : String → α) :
    (pathHooks parse tok).SpansIn A := by
  constructor <;> intro f hf <;> simp [pathHooks] at hf
  · subst hf; intro l hl; exact parsedFromValue_errsIn parse tok l hl
  · subst hf; exact pathFromExpr_errsIn parse tok
  · subst hf; exact parsedFromString_unsp parse tok

theorem identFromExpr_errsIn {A : Span} (parse : String → Option String) (tok : String → α) :
    (x : Expr) → x.spanWF = true → x.span.within A = true → (identFromExpr parse tok x).ErrsIn A
  | .lit l, _, hA => by simp only [identFromExpr]; exact parsedFromValue_errsIn parse tok l hA
  | .group g _, hwf, hA => by
      simp only [Expr.spanWF, Bool.and_eq_true] at hwf
      simp only [identFromExpr]
      exact identFromExpr_errsIn parse tok g hwf.2 (within_trans hwf.1 hA)
  | .path _ _, _, hA => by
      simp only [identFromExpr]; split
      · exact errsIn_ok A _
      · exact errsIn_err (unexpectedExprType_allWithin _ hA)
  | .qpath _ _ _, _, hA => by
      simp only [identFromExpr]; exact errsIn_err (unexpectedExprType_allWithin _ hA)
  | .array _ _ _, _, hA => by
      simp only [identFromExpr]; exact errsIn_err (unexpectedExprType_allWithin _ hA)
  | .other _ _ _, _, hA => by
      simp only [identFromExpr]; exact errsIn_err (unexpectedExprType_allWithin _ hA)

theorem ident_spansIn (A : Span) (parse : String → Option String) (tok : String → α) :
    (identHooks parse tok).SpansIn A := by
  constructor <;> intro f hf <;> simp [identHooks] at hf
  · subst hf; intro l hl; exact parsedFromValue_errsIn parse tok l hl
  · subst hf; exact identFromExpr_errsIn parse tok
  · subst hf; exact parsedFromString_unsp parse tok

theorem identString_spansIn (A : Span) (parse : String → Option String) (tok : String → α) :
    (identStringHooks parse tok).SpansIn A := by
  constructor <;> intro f hf <;> simp [identStringHooks] at hf
  subst hf; intro m hwf hA; exact (ident_spansIn A parse tok).fromMeta m hwf hA

/-! ### `from_syn_expr_type!`, `from_syn_parse!`, where-predicates, RenameRule, Punctuated -/

theorem synExprFromExpr_errsIn {A : Span} (v : ExprVariant) (parse : String → Option String)
    (tok : String → α) :
    (x : Expr) → x.spanWF = true → x.span.within A = true → (synExprFromExpr v parse tok x).ErrsIn A
  | .lit l, _, hA => by simp only [synExprFromExpr]; exact parsedFromValue_errsIn parse tok l hA
  | .group g _, hwf, hA => by
      simp only [Expr.spanWF, Bool.and_eq_true] at hwf
      simp only [synExprFromExpr]
      exact synExprFromExpr_errsIn v parse tok g hwf.2 (within_trans hwf.1 hA)
  | .path _ _, _, hA => by
      simp only [synExprFromExpr]; split
      · exact errsIn_ok A _
      · exact errsIn_err (unexpectedExprType_allWithin _ hA)
  | .qpath _ _ _, _, hA => by
      simp only [synExprFromExpr]; split
      · exact errsIn_ok A _
      · exact errsIn_err (unexpectedExprType_allWithin _ hA)
  | .array _ _ _, _, hA => by
      simp only [synExprFromExpr]; split
      · exact errsIn_ok A _
      · exact errsIn_err (unexpectedExprType_allWithin _ hA)
  | .other _ _ _, _, hA => by
      simp only [synExprFromExpr]; split
      · exact errsIn_ok A _
      · exact errsIn_err (unexpectedExprType_allWithin _ hA)

theorem synExpr_spansIn (A : Span) (v : ExprVariant) (parse : String → Option String) (tok : String → α) :
    (synExprHooks v parse tok).SpansIn A := by
  constructor <;> intro f hf <;> simp [synExprHooks] at hf
  · subst hf; intro l hl; exact parsedFromValue_errsIn parse tok l hl
  · subst hf; exact synExprFromExpr_errsIn v parse tok

theorem synParse_spansIn (A : Span) (parse : String → Option String) (tok : String → α) :
    (synParseHooks parse tok).SpansIn A := by
  constructor <;> intro f hf <;> simp [synParseHooks] at hf
  · subst hf; intro l hl; exact parsedFromValue_errsIn parse tok l hl
  · subst hf; exact parsedFromString_unsp parse tok

theorem wherePreds_spansIn (A : Span) (parsePreds : String → Option String) (tok : String → α) :
    (wherePredsHooks parsePreds tok).SpansIn A := by
  constructor <;> intro f hf <;> simp [wherePredsHooks] at hf
  · subst hf; intro l hl; simp only []
    split
    · split
      · exact errsIn_ok A _
      · exact errsIn_err (unknownLitStr_allWithin _ l hl)
    · exact errsIn_err (unexpectedLitType_allWithin l hl)
  · subst hf; intro s; exact parsedFromString_unsp parsePreds tok _

theorem renameRule_spansIn (A : Span) (known : List String) (mk : String → α) :
    (renameRuleHooks known mk).SpansIn A := by
  constructor <;> intro f hf <;> simp [renameRuleHooks] at hf
  subst hf; intro s; simp only []
  split
  · exact unsp_ok _
  · exact unsp_err (unsp_unknownValue _)

theorem punctuated_spansIn (A : Span) (parse : String → Option String) (tok : String → α) :
    (punctuatedHooks parse tok).SpansIn A := by
  constructor <;> intro f hf <;> simp [punctuatedHooks] at hf
  subst hf; intro l hl; exact parsedFromValue_errsIn parse tok l hl

/-! ### literals -/

theorem lit_spansIn (A : Span) (tok : String → α) : (litHooks tok).SpansIn A := by
  constructor <;> intro f hf <;> simp [litHooks] at hf
  subst hf; intro l _; exact errsIn_ok A _

theorem litKindFromValue_errsIn {A : Span} (k : LitKind) (tok : String → α) (l : Lit)
    (hl : l.span.within A = true) : (litKindFromValue k tok l).ErrsIn A := by
  unfold litKindFromValue
  split
  · exact errsIn_ok A _
  · exact errsIn_err (unexpectedLitType_allWithin l hl)

theorem litKind_spansIn (A : Span) (k : LitKind) (tok : String → α) : (litKindHooks k tok).SpansIn A := by
  constructor <;> intro f hf <;> simp [litKindHooks] at hf
  subst hf; intro l hl; exact litKindFromValue_errsIn k tok l hl

/-- `collect::<Result<Vec<_>>>()` hands on the first element error unchanged -/
theorem collectFirstErr_errsIn {A : Span} {γ δ : Type} (f : γ → Outcome δ) :
    (xs : List γ) → (∀ x ∈ xs, (f x).ErrsIn A) → (collectFirstErr f xs).ErrsIn A
  | [], _ => by simp only [collectFirstErr]; exact errsIn_ok A _
  | x :: xs, hf => by
      simp only [collectFirstErr]
      have hx := hf x (List.mem_cons_self ..)
      cases h : f x with
      | ok v =>
          exact (collectFirstErr_errsIn f xs (fun y hy => hf y (List.mem_cons_of_mem _ hy))).map _
      | err e => exact errsIn_err (hx e h)
      | panic m => exact errsIn_panic A m

/-- the elements of a well-formed array inside `A` are well-formed and inside `A` -/
theorem array_elems {A : Span} {es : List Expr} {t : String} {sp : Span}
    (hwf : (Expr.array es t sp).spanWF = true) (hA : (Expr.array es t sp).span.within A = true) :
    ∀ e ∈ es, e.spanWF = true ∧ e.span.within A = true := by
  simp only [Expr.spanWF] at hwf
  simp only [Expr.span] at hA
  exact exprWFList_mem es (exprWFList_mono hA es hwf)

theorem vecLitFromExpr_errsIn {A : Span} (k : LitKind) (parseArr : String → Option Expr)
    (hp : ∀ s x, parseArr s = some x → x.spanWF = true ∧ x.span.within A = true)
    (tok : String → α) (injL : List α → α) :
    (x : Expr) → x.spanWF = true → x.span.within A = true → (vecLitFromExpr k parseArr tok injL x).ErrsIn A
  | .array es t sp, hwf, hA => by
      simp only [vecLitFromExpr]
      have hes := array_elems hwf hA
      exact (collectFirstErr_errsIn _ es
        (fun e he => (litKind_spansIn A k tok).fromExpr e (hes e he).1 (hes e he).2)).map _
  | .lit l, _, hA => by
      simp only [vecLitFromExpr]
      split
      · split
        · rename_i s _ es t sp heq
          have hes := array_elems (hp _ _ heq).1 (hp _ _ heq).2
          exact (collectFirstErr_errsIn _ es
            (fun e he => (litKind_spansIn A k tok).fromExpr e (hes e he).1 (hes e he).2)).map _
        · exact errsIn_err (unknownLitStr_allWithin _ l hA)
      · exact errsIn_err (unexpectedLitType_allWithin l hA)
  | .group g _, hwf, hA => by
      simp only [Expr.spanWF, Bool.and_eq_true] at hwf
      simp only [vecLitFromExpr]
      exact vecLitFromExpr_errsIn k parseArr hp tok injL g hwf.2 (within_trans hwf.1 hA)
  | .path _ _, _, hA => by
      simp only [vecLitFromExpr]; exact errsIn_err (unexpectedExprType_allWithin _ hA)
  | .qpath _ _ _, _, hA => by
      simp only [vecLitFromExpr]; exact errsIn_err (unexpectedExprType_allWithin _ hA)
  | .other _ _ _, _, hA => by
      simp only [vecLitFromExpr]; exact errsIn_err (unexpectedExprType_allWithin _ hA)

theorem vecLit_spansIn (A : Span) (k : LitKind) (parseArr : String → Option Expr)
    (hp : ∀ s x, parseArr s = some x → x.spanWF = true ∧ x.span.within A = true)
    (tok : String → α) (injL : List α → α) : (vecLitHooks k parseArr tok injL).SpansIn A := by
  constructor <;> intro f hf <;> simp [vecLitHooks] at hf
  · subst hf; intro items hi
    have hn := nestedWFList_mem items hi
    exact (collectFirstErr_errsIn _ items
      (fun n hm => (litKind_spansIn A k tok).fromNestedMeta n (hn n hm).1 (hn n hm).2)).map _
  · subst hf; intro l hl; exact vecLitFromExpr_errsIn k parseArr hp tok injL (.lit l) rfl hl
  · subst hf; exact vecLitFromExpr_errsIn k parseArr hp tok injL

/-- the literal under the invisible groups of a well-formed element lies inside the element -/
theorem numElemLit_within {A : Span} :
    (x : Expr) → (l : Lit) → numElemLit x = some l → x.spanWF = true → x.span.within A = true →
      l.span.within A = true
  | .group g _, l, h, hwf, hA => by
      simp only [Expr.spanWF, Bool.and_eq_true] at hwf
      simp only [numElemLit] at h
      exact numElemLit_within g l h hwf.2 (within_trans hwf.1 hA)
  | .lit l', l, h, _, hA => by
      simp only [numElemLit, Option.some.injEq] at h
      subst h; exact hA
  | .path _ _, _, h, _, _ => by simp [numElemLit] at h
  | .qpath _ _ _, _, h, _, _ => by simp [numElemLit] at h
  | .array _ _ _, _, h, _, _ => by simp [numElemLit] at h
  | .other _ _ _, _, h, _, _ => by simp [numElemLit] at h

theorem numElem_errsIn {A : Span} (sp : IntSpec) (inj : Int → α) (x : Expr) (hwf : x.spanWF = true)
    (hA : x.span.within A = true) : (numElem sp inj x).ErrsIn A := by
  have hu : ((Err.custom "Expected array of unsigned integers").withSpan x.span).AllWithin A :=
    ((unsp_custom _).allWithin A).withSpan hA
  unfold numElem
  split
  · rename_i l hl
    exact numFromValue_errsIn sp inj _ (numElemLit_within x l hl hwf hA)
  · exact errsIn_err hu

theorem numArrayFromExpr_errsIn {A : Span} (sp : IntSpec) (parseArr : String → Option Expr)
    (hp : ∀ s x, parseArr s = some x → x.spanWF = true ∧ x.span.within A = true)
    (inj : Int → α) (injL : List α → α) :
    (x : Expr) → x.spanWF = true → x.span.within A = true →
      (numArrayFromExpr sp parseArr inj injL x).ErrsIn A
  | .array es t s, hwf, hA => by
      simp only [numArrayFromExpr]
      have hes := array_elems hwf hA
      exact (collectFirstErr_errsIn _ es
        (fun e he => numElem_errsIn sp inj e (hes e he).1 (hes e he).2)).map _
  | .lit l, _, hA => by
      simp only [numArrayFromExpr]
      split
      · split
        · rename_i s _ es t asp heq
          have hes := array_elems (hp _ _ heq).1 (hp _ _ heq).2
          exact (collectFirstErr_errsIn _ es
            (fun e he => numElem_errsIn sp inj e (hes e he).1 (hes e he).2)).map _
        · exact errsIn_err (unknownLitStr_allWithin _ l hA)
      · exact errsIn_err (unexpectedLitType_allWithin l hA)
  | .group g _, hwf, hA => by
      simp only [Expr.spanWF, Bool.and_eq_true] at hwf
      simp only [numArrayFromExpr]
      exact numArrayFromExpr_errsIn sp parseArr hp inj injL g hwf.2 (within_trans hwf.1 hA)
  | .path _ _, _, hA => by
      simp only [numArrayFromExpr]; exact errsIn_err (unexpectedExprType_allWithin _ hA)
  | .qpath _ _ _, _, hA => by
      simp only [numArrayFromExpr]; exact errsIn_err (unexpectedExprType_allWithin _ hA)
  | .other _ _ _, _, hA => by
      simp only [numArrayFromExpr]; exact errsIn_err (unexpectedExprType_allWithin _ hA)

theorem numArray_spansIn (A : Span) (sp : IntSpec) (parseArr : String → Option Expr)
    (hp : ∀ s x, parseArr s = some x → x.spanWF = true ∧ x.span.within A = true)
    (inj : Int → α) (injL : List α → α) : (numArrayHooks sp parseArr inj injL).SpansIn A := by
  constructor <;> intro f hf <;> simp [numArrayHooks] at hf
  · subst hf; intro l hl; exact numArrayFromExpr_errsIn sp parseArr hp inj injL (.lit l) rfl hl
  · subst hf; exact numArrayFromExpr_errsIn sp parseArr hp inj injL

/-! ### syn::Meta, Ignored, PathList, Callable -/

theorem meta_spansIn (A : Span) (tok : String → α) : (metaHooks tok).SpansIn A := by
  constructor <;> intro f hf <;> simp [metaHooks] at hf
  subst hf; intro m _ _; exact errsIn_ok A _

theorem ignored_spansIn (A : Span) (v : α) : (ignoredHooks v).SpansIn A := by
  constructor <;> intro f hf <;> simp [ignoredHooks] at hf
  subst hf; intro m _ _; exact errsIn_ok A _

theorem pathListFromList_errsIn {A : Span} {γ : Type} (f : Path → γ) :
    (items : List NestedMeta) → NestedMeta.spanWFList A items = true → (pathListFromList f items).ErrsIn A
  | [], _ => by simp only [pathListFromList]; exact errsIn_ok A _
  | .item (.path p) :: rest, hi => by
      simp only [NestedMeta.spanWFList, Bool.and_eq_true] at hi
      simp only [pathListFromList]; exact (pathListFromList_errsIn f rest hi.2).map _
  | .item (.list _ _ _ _ _ _) :: _, hi => by
      simp only [NestedMeta.spanWFList, Bool.and_eq_true] at hi
      simp only [pathListFromList]
      exact errsIn_err (((unsp_new _).allWithin A).withSpan hi.1.1)
  | .item (.nameValue _ _ _ _) :: _, hi => by
      simp only [NestedMeta.spanWFList, Bool.and_eq_true] at hi
      simp only [pathListFromList]
      exact errsIn_err (((unsp_new _).allWithin A).withSpan hi.1.1)
  | .lit _ :: _, hi => by
      simp only [NestedMeta.spanWFList, Bool.and_eq_true] at hi
      simp only [pathListFromList]
      exact errsIn_err (((unsp_new _).allWithin A).withSpan hi.1.1)

theorem pathList_spansIn (A : Span) (tok : String → α) (injL : List α → α) :
    (pathListHooks tok injL).SpansIn A := by
  constructor <;> intro f hf <;> simp [pathListHooks] at hf
  subst hf; intro items hi; exact (pathListFromList_errsIn _ items hi).map _

theorem callableFromExpr_errsIn {A : Span} (tok : String → α) :
    (x : Expr) → x.spanWF = true → x.span.within A = true → (callableFromExpr tok x).ErrsIn A
  | .group g _, hwf, hA => by
      simp only [Expr.spanWF, Bool.and_eq_true] at hwf
      simp only [callableFromExpr]
      exact callableFromExpr_errsIn tok g hwf.2 (within_trans hwf.1 hA)
  | .other k t s, _, hA => by
      unfold callableFromExpr
      split <;> first
        | exact errsIn_ok A _
        | exact errsIn_err (unexpectedExprType_allWithin _ hA)
        | simp_all
  | .path _ _, _, _ => by simp only [callableFromExpr]; exact errsIn_ok A _
  | .qpath _ _ _, _, _ => by simp only [callableFromExpr]; exact errsIn_ok A _
  | .lit _, _, hA => by
      simp only [callableFromExpr]; exact errsIn_err (unexpectedExprType_allWithin _ hA)
  | .array _ _ _, _, hA => by
      simp only [callableFromExpr]; exact errsIn_err (unexpectedExprType_allWithin _ hA)

theorem callable_spansIn (A : Span) (tok : String → α) : (callableHooks tok).SpansIn A := by
  constructor <;> intro f hf <;> simp [callableHooks] at hf
  subst hf; exact callableFromExpr_errsIn tok

/-! ### keyed collections (`map!`) -/

/-- the name of a well-formed item lies inside the item -/
theorem path'_within {m : Meta} (hwf : m.spanWF = true) : m.path'.span.within m.span = true := by
  cases m with
  | path p => exact within_refl _
  | list p items bad ts t sp =>
      simp only [Meta.spanWF, Bool.and_eq_true] at hwf; exact hwf.1.1
  | nameValue p e t sp =>
      simp only [Meta.spanWF, Bool.and_eq_true] at hwf; exact hwf.1.1

/-- every error of the list has all its spans inside `A` -/
def ErrsAll (A : Span) (es : List Err) : Prop := ∀ e ∈ es, e.AllWithin A

theorem ErrsAll.push {A : Span} {es : List Err} {e : Err} (h : ErrsAll A es) (he : e.AllWithin A) :
    ErrsAll A (es ++ [e]) := by
  intro x hx
  rcases List.mem_append.mp hx with h1 | h1
  · exact h x h1
  · rw [List.mem_singleton.mp h1]; exact he

theorem keyOf_error {A : Span} (k : Maps.KeyKind) (p : Path) (e : Err) (hp : p.span.within A = true)
    (h : Maps.keyOf k p = .error e) : e.AllWithin A := by
  cases k with
  | string => simp [Maps.keyOf] at h
  | path => simp [Maps.keyOf] at h
  | ident =>
      simp only [Maps.keyOf] at h
      split at h
      · cases h
      · cases h; exact leaf_allWithin _ _ hp

/-- one iteration of the `map!` loop keeps every recorded error inside `A` -/
theorem step_errs {A : Span} (k : Maps.KeyKind) (h : Hooks α) (c : h.SpansIn A) (s s' : Maps.St α)
    (item : NestedMeta) (hwf : item.spanWF = true) (hA : item.span.within A = true)
    (hs : ErrsAll A s.errs) (hstep : Maps.step k h s item = .cont s') : ErrsAll A s'.errs := by
  cases item with
  | lit l =>
      simp only [Maps.step, Maps.Step.cont.injEq] at hstep; subst hstep
      exact hs.push ((unsp_unsupportedFormat _).allWithin A)
  | item inner =>
      have hpA : inner.path'.span.within A = true := within_trans (path'_within hwf) hA
      have hdup : ∀ key, ((Err.new (.duplicateField (Maps.keyDisplay k key inner.path'))).withSpan
          inner.path'.span).AllWithin A := fun key => ((unsp_new _).allWithin A).withSpan hpA
      have hv := (c.fromMeta inner hwf hA).at inner.path'.toStr
      simp only [Maps.step] at hstep
      cases hval : (h.fromMeta inner).mapErr (·.at inner.path'.toStr) with
      | panic msg => rw [hval] at hstep; cases hstep
      | ok v =>
          rw [hval] at hstep
          simp only [] at hstep
          cases hk : Maps.keyOf k inner.path' with
          | error ke =>
              rw [hk] at hstep
              simp only [Maps.Step.cont.injEq] at hstep; subst hstep
              exact hs.push (keyOf_error k _ ke hpA hk)
          | ok key =>
              rw [hk] at hstep
              simp only [] at hstep
              by_cases hseen : s.seen.contains key = true
              · simp only [hseen, if_true, Maps.Step.cont.injEq] at hstep; subst hstep
                exact hs.push (hdup key)
              · simp only [hseen, Bool.false_eq_true, if_false, Maps.Step.cont.injEq] at hstep; subst hstep
                exact hs
      | err ve =>
          have hve : ve.AllWithin A := hv ve hval
          rw [hval] at hstep
          simp only [] at hstep
          cases hk : Maps.keyOf k inner.path' with
          | error ke =>
              rw [hk] at hstep
              simp only [Maps.Step.cont.injEq] at hstep; subst hstep
              exact (hs.push (keyOf_error k _ ke hpA hk)).push hve
          | ok key =>
              rw [hk] at hstep
              simp only [] at hstep
              by_cases hseen : s.seen.contains key = true
              · simp only [hseen, if_true, Maps.Step.cont.injEq] at hstep; subst hstep
                exact (hs.push (hdup key)).push hve
              · simp only [hseen, Bool.false_eq_true, if_false, Maps.Step.cont.injEq] at hstep; subst hstep
                exact hs.push hve

theorem loop_errs {A : Span} (k : Maps.KeyKind) (h : Hooks α) (c : h.SpansIn A) :
    (items : List NestedMeta) → NestedMeta.spanWFList A items = true → ∀ (s s' : Maps.St α),
      ErrsAll A s.errs → Maps.loop k h s items = .cont s' → ErrsAll A s'.errs
  | [], _, s, s', hs, hl => by
      simp only [Maps.loop, Maps.Step.cont.injEq] at hl; subst hl; exact hs
  | item :: rest, hi, s, s', hs, hl => by
      simp only [NestedMeta.spanWFList, Bool.and_eq_true] at hi
      simp only [Maps.loop] at hl
      cases hst : Maps.step k h s item with
      | panic m => rw [hst] at hl; cases hl
      | cont s1 =>
          rw [hst] at hl
          exact loop_errs k h c rest hi.2 s1 s' (step_errs k h c s s1 item hi.1.2 hi.1.1 hs hst) hl

/-- `Err(Error::multiple(errors))` of errors inside `A` -/
theorem bundleErr_errsIn {A : Span} {es : List Err} (h : ErrsAll A es) :
    (Err.bundleErr es : Outcome α).ErrsIn A := by
  unfold Err.bundleErr
  cases hm : Err.multiple es with
  | ok e => exact errsIn_err (multiple_allWithin h hm)
  | panic m => exact errsIn_panic A m
  | err e =>
      match es, hm with
      | [], hm => simp [Err.multiple] at hm
      | [x], hm => simp [Err.multiple] at hm
      | x :: y :: r, hm => simp [Err.multiple] at hm

theorem map_spansIn {A : Span} (k : Maps.KeyKind) (inj : List (String × α) → β) (h : Hooks α)
    (c : h.SpansIn A) : (Maps.mapHooks k inj h).SpansIn A := by
  constructor <;> intro f hf <;> simp [Maps.mapHooks] at hf
  subst hf; intro items hi
  refine Outcome.ErrsIn.map ?_ _
  unfold Maps.fromList
  cases hl : Maps.loop k h {} items with
  | panic m => exact errsIn_panic A m
  | cont s =>
      have hs : ErrsAll A s.errs :=
        loop_errs k h c items hi {} s (by intro e he; cases he) hl
      simp only []
      split
      · exact errsIn_ok A _
      · exact bundleErr_errsIn hs

/-! ### the C15 probe -/

theorem probe_ret_unsp (mode : Nat) (tag : String) : (Probe.ret mode tag).ErrsUnspanned := by
  unfold Probe.ret
  split
  · exact unsp_ok _
  · exact unsp_err rfl
  · exact unsp_err rfl

theorem probe_spansIn (A : Span) (mask mode : Nat) : (Probe.hooks mask mode).SpansIn A := by
  constructor <;> intro f hf <;> simp [Probe.hooks] at hf
  all_goals (obtain ⟨_, hf⟩ := hf; subst hf)
  · exact probe_ret_unsp _ _
  · intro items _; exact (probe_ret_unsp _ _).errsIn A
  · intro l _; exact (probe_ret_unsp _ _).errsIn A
  · intro x _ _; exact (probe_ret_unsp _ _).errsIn A
  all_goals (intro x; exact probe_ret_unsp _ _)

/-! ### the universe -/

theorem empty_spansIn (A : Span) : ({} : Hooks α).SpansIn A := by
  constructor <;> intro f hf <;> simp at hf

/-- the executable check of the oracle implies the oracle hypothesis -/
theorem oracle_arrsWithin {o : Oracle} {A : Span} (h : o.arrsWithin A = true) : OracleArrWithin o A := by
  intro s x hx
  unfold Oracle.parseArr at hx
  split at hx
  · rename_i r hr
    have hmem := List.mem_of_find?_eq_some hr
    have := (List.all_eq_true.mp h) r hmem
    rw [hx] at this
    simpa only [Bool.and_eq_true] using this
  · cases hx


/-- **every built-in conversion honours the span contract**, by induction over the universe of
    target types, given that the derived receivers of the environment do; the oracle hypothesis
    is needed only for the types that consult the oracle -/
theorem hooksOf_spansIn' (o : Oracle) (rh : String → Hooks Val) (A : Span)
    (hrh : ∀ n, (rh n).SpansIn A) :
    (t : Ty) → (t.usesArr = true → OracleArrWithin o A) → (hooksOf o rh t).SpansIn A
  | .unit, _ => by simp only [hooksOf]; exact unit_spansIn A _
  | .bool, _ => by simp only [hooksOf]; exact bool_spansIn A _
  | .char, _ => by simp only [hooksOf]; exact char_spansIn A _
  | .string, _ => by simp only [hooksOf]; exact string_spansIn A _
  | .pathBuf, _ => by simp only [hooksOf]; exact string_spansIn A _
  | .int sp, _ => by simp only [hooksOf]; exact num_spansIn A sp _
  | .float w, _ => by simp only [hooksOf]; exact float_spansIn A _ _
  | .atomicBool, _ => by simp only [hooksOf]; exact atomicBool_spansIn A _
  | .flag, _ => by simp only [hooksOf]; exact flag_spansIn A _
  | .option t, ho => by
      simp only [hooksOf]; exact option_spansIn _ _ _ (hooksOf_spansIn' o rh A hrh t ho)
  | .ptr t, ho => by
      simp only [hooksOf]; exact ptr_spansIn _ _ (hooksOf_spansIn' o rh A hrh t ho)
  | .result t, _ => by simp only [hooksOf]; exact result_spansIn _ _ _
  | .resultMeta t, _ => by simp only [hooksOf]; exact resultMeta_spansIn _ _ _
  | .override t, ho => by
      simp only [hooksOf]; exact override_spansIn _ _ _ (hooksOf_spansIn' o rh A hrh t ho)
  | .spanned t, ho => by
      simp only [hooksOf]; exact spanned_spansIn _ _ (hooksOf_spansIn' o rh A hrh t ho)
  | .withOrig t, ho => by
      simp only [hooksOf]; exact withOriginal_spansIn _ _ (hooksOf_spansIn' o rh A hrh t ho)
  | .probe mask mode, _ => by simp only [hooksOf]; exact probe_spansIn A mask mode
  | .synExpr, _ => by simp only [hooksOf]; exact expr_spansIn A _ _
  | .synPath, _ => by simp only [hooksOf]; exact path_spansIn A _ _
  | .synIdent, _ => by simp only [hooksOf]; exact ident_spansIn A _ _
  | .identString, _ => by simp only [hooksOf]; exact identString_spansIn A _ _
  | .synExprTy v, _ => by simp only [hooksOf]; exact synExpr_spansIn A v _ _
  | .synParse kind, _ => by simp only [hooksOf]; exact synParse_spansIn A _ _
  | .wherePreds, _ => by simp only [hooksOf]; exact wherePreds_spansIn A _ _
  | .renameRule, _ => by simp only [hooksOf]; exact renameRule_spansIn A _ _
  | .punctuated kind, _ => by simp only [hooksOf]; exact punctuated_spansIn A _ _
  | .lit, _ => by simp only [hooksOf]; exact lit_spansIn A _
  | .litKind k, _ => by simp only [hooksOf]; exact litKind_spansIn A k _
  | .vecLit k, ho => by simp only [hooksOf]; exact vecLit_spansIn A k _ (ho rfl) _ _
  | .numArray sp, ho => by simp only [hooksOf]; exact numArray_spansIn A sp _ (ho rfl) _ _
  | .synMeta, _ => by simp only [hooksOf]; exact meta_spansIn A _
  | .ignored, _ => by simp only [hooksOf]; exact ignored_spansIn A _
  | .pathList, _ => by simp only [hooksOf]; exact pathList_spansIn A _ _
  | .callable, _ => by simp only [hooksOf]; exact callable_spansIn A _
  | .map key _ t, ho => by
      simp only [hooksOf]; exact map_spansIn key _ _ (hooksOf_spansIn' o rh A hrh t ho)
  | .vec _, _ => by simp only [hooksOf]; exact empty_spansIn A
  | .recv n, _ => by simp only [hooksOf]; exact hrh n

/-- **every built-in conversion honours the span contract** (oracle hypothesis stated outright) -/
theorem hooksOf_spansIn (o : Oracle) (rh : String → Hooks Val) (A : Span)
    (hrh : ∀ n, (rh n).SpansIn A) (ho : OracleArrWithin o A) :
    ∀ t : Ty, (hooksOf o rh t).SpansIn A :=
  fun t => hooksOf_spansIn' o rh A hrh t (fun _ => ho)

/-- every span anywhere in the error a built-in `from_meta` returns for a well-formed item lies
    inside that item -/
theorem builtin_allWithin (o : Oracle) (rh : String → Hooks Val) (t : Ty) (m : Meta)
    (hrh : ∀ n, (rh n).SpansIn m.span) (ho : t.usesArr = true → OracleArrWithin o m.span)
    (hwf : m.spanWF = true) (e : Err) (he : (hooksOf o rh t).fromMeta m = .err e) :
    e.AllWithin m.span :=
  (hooksOf_spansIn' o rh m.span hrh t ho).fromMeta m hwf (within_refl _) e he

/-- … likewise when handed a nested item (the entry point used by derived receivers) -/
theorem builtin_nested_allWithin (o : Oracle) (rh : String → Hooks Val) (t : Ty) (n : NestedMeta)
    (hrh : ∀ k, (rh k).SpansIn n.span) (ho : t.usesArr = true → OracleArrWithin o n.span)
    (hwf : n.spanWF = true) (e : Err) (he : (hooksOf o rh t).fromNestedMeta n = .err e) :
    e.AllWithin n.span :=
  (hooksOf_spansIn' o rh n.span hrh t ho).fromNestedMeta n hwf (within_refl _) e he

/-- **the converter contract `ConvSpans` holds of every built-in conversion** (on well-formed
    items): the condition `ConvSpans` puts on a field converter `f.conv`, for
    `f.conv := (hooksOf o rh t).fromMeta` -/
theorem builtin_convSpans (o : Oracle) (rh : String → Hooks Val) (t : Ty) (m : Meta)
    (hrh : ∀ n, (rh n).SpansIn m.span) (ho : t.usesArr = true → OracleArrWithin o m.span)
    (hwf : m.spanWF = true) (e : Err) (he : (hooksOf o rh t).fromMeta m = .err e) :
    ∀ sp, e.span = some sp → sp.within m.span = true :=
  (builtin_allWithin o rh t m hrh ho hwf e he).span

/-! ### the tight reading: "inside the piece of syntax that was handed in"

An implementor that honours the contract for every ambient span returns, for a well-formed
piece of syntax, only errors whose spans lie inside that very piece. -/

section tight
variable {h : Hooks α}

theorem _root_.Hooks.SpansIn.tight_fromMeta (c : ∀ A, h.SpansIn A) (m : Meta) (hwf : m.spanWF = true) :
    (h.fromMeta m).ErrsIn m.span := (c m.span).fromMeta m hwf (within_refl _)

theorem _root_.Hooks.SpansIn.tight_fromNestedMeta (c : ∀ A, h.SpansIn A) (n : NestedMeta)
    (hwf : n.spanWF = true) : (h.fromNestedMeta n).ErrsIn n.span :=
  (c n.span).fromNestedMeta n hwf (within_refl _)

theorem _root_.Hooks.SpansIn.tight_fromExpr (c : ∀ A, h.SpansIn A) (x : Expr) (hwf : x.spanWF = true) :
    (h.fromExpr x).ErrsIn x.span := (c x.span).fromExpr x hwf (within_refl _)

theorem _root_.Hooks.SpansIn.tight_fromValue (c : ∀ A, h.SpansIn A) (l : Lit) :
    (h.fromValue l).ErrsIn l.span := (c l.span).fromValue l (within_refl _)

/-- for a list of items: inside any hull that contains all of them -/
theorem _root_.Hooks.SpansIn.tight_fromList (c : ∀ A, h.SpansIn A) (items : List NestedMeta) (hull : Span)
    (hi : NestedMeta.spanWFList hull items = true) : (h.fromList items).ErrsIn hull :=
  (c hull).fromList items hi

end tight

/-- the built-in types that do not consult the array oracle honour the contract for every ambient
    span, hence in its tight reading, with no oracle hypothesis at all -/
theorem hooksOf_spansIn_noOracle (o : Oracle) (rh : String → Hooks Val)
    (hrh : ∀ A n, (rh n).SpansIn A) (t : Ty) (ht : t.usesArr = false) :
    ∀ A, (hooksOf o rh t).SpansIn A :=
  fun A => hooksOf_spansIn' o rh A (hrh A) t (fun h => by rw [ht] at h; cases h)

/-! ### the receiver-level theorem under the contract restricted to the items at hand

`ConvSpans` quantifies over every item; the built-in conversions honour it on span-well-formed
items (for which the oracle hypothesis holds).  `ConvSpansOn P` is `ConvSpans` restricted to the
items satisfying `P`, and `coreLoop_placed` is re-derived under it for item lists all of whose
named items satisfy `P`. -/

section recv
open Derive
variable {ν : Type}

def ConvSpansOn (P : Meta → Prop) (s : SStruct ν) : Prop :=
  ∀ f ∈ s.fields, ∀ (m : Meta) (e : Err), P m → f.conv m = .err e →
    ∀ sp, e.span = some sp → sp.within m.span = true

theorem ConvSpans.on {s : SStruct ν} (hc : ConvSpans s) (P : Meta → Prop) : ConvSpansOn P s :=
  fun f hf m e _ he => hc f hf m e he

/-- `stepItem_placed` under the restricted contract -/
theorem stepItem_placed_on (P : Meta → Prop) (s : SStruct ν) (hc : ConvSpansOn P s) (xs : List NestedMeta)
    (st st' : PState ν) (it : NestedMeta) (hP : ∀ m, it = .item m → P m)
    (hp : ErrsPlaced xs st) (h : stepItem s st it = .ok st') : ErrsPlaced (xs ++ [it]) st' := by
  cases it with
  | lit l =>
      simp only [stepItem] at h
      cases h
      exact placed_push xs (.lit l) st _ hp
        (withSpan_within _ l.span (by intro s hs; simp [Err.unsupportedFormat, Err.new, Err.span] at hs))
  | item inner =>
      have hPi : P inner := hP inner rfl
      simp only [stepItem] at h
      cases ha : s.arm inner.path'.toStr with
      | none =>
          rw [ha] at h
          simp only [] at h
          by_cases hf : s.hasFlatten = true
          · simp only [hf, if_true] at h; cases h
            exact placed_mono xs _ _ (fun e he => hp e he)
          · simp only [hf] at h
            by_cases hu : s.allowUnknown = true
            · simp only [hu, if_true] at h; cases h; exact placed_mono xs _ st hp
            · simp only [hu] at h; cases h
              exact placed_push xs (.item inner) st _ hp
                (withSpan_within _ inner.span (by intro sp hs; simp [SStruct.unknownErr, Err.new, Err.span] at hs))
      | some f =>
          have hm := arm_mem' s _ f ha
          rw [ha] at h
          simp only [] at h
          by_cases hmul : f.multiple = true
          · simp only [hmul, if_true] at h
            cases hcv : f.conv inner with
            | ok v => rw [hcv] at h; cases h; exact placed_mono xs _ _ (fun e he => hp e he)
            | err e =>
                rw [hcv] at h; cases h
                exact placed_push xs (.item inner) st _ hp
                  (at_within _ _ _ (withSpan_within e inner.span (hc f hm inner e hPi hcv)))
            | panic m => rw [hcv] at h; cases h
          · simp only [hmul] at h
            by_cases hseen : (st.slot f.ident).seen = true
            · simp only [hseen] at h; cases h
              exact placed_push xs (.item inner) st _ hp
                (withSpan_within _ inner.span (by intro sp hs; simp [Err.new, Err.span] at hs))
            · simp only [hseen] at h
              cases hcv : f.conv inner with
              | ok v => rw [hcv] at h; cases h; exact placed_mono xs _ _ (fun e he => hp e he)
              | err e =>
                  rw [hcv] at h; cases h
                  exact placed_push xs (.item inner) (st.set f.ident { st.slot f.ident with seen := true, val := none })
                    ((e.withSpan inner.span).at f.name) (fun e' he' => hp e' he')
                    (at_within inner.span (e.withSpan inner.span) f.name
                      (withSpan_within e inner.span (hc f hm inner e hPi hcv)))
              | panic m => rw [hcv] at h; cases h

/-- `coreLoop_placed` under the restricted contract: every mistake the item loop reports is
    spanned inside the item at fault, for item lists whose named items satisfy `P` -/
theorem coreLoop_placed_on (P : Meta → Prop) (s : SStruct ν) (hc : ConvSpansOn P s) (items : List NestedMeta) :
    (∀ m, NestedMeta.item m ∈ items → P m) →
    ∀ (pre : List NestedMeta) (st st' : PState ν), ErrsPlaced pre st → coreLoop s st items = .ok st' →
      ErrsPlaced (pre ++ items) st' := by
  induction items with
  | nil => intro _ pre st st' hp h; simp only [coreLoop] at h; cases h; simpa using hp
  | cons it rest ih =>
      intro hP pre st st' hp h
      simp only [coreLoop] at h
      cases hs : stepItem s st it with
      | error m => rw [hs] at h; cases h
      | ok st1 =>
          rw [hs] at h
          have h1 := stepItem_placed_on P s hc pre st st1 it
            (fun m hm => hP m (by rw [hm]; exact List.mem_cons_self ..)) hp hs
          have := ih (fun m hm => hP m (List.mem_cons_of_mem _ hm)) (pre ++ [it]) st1 st' h1 h
          simpa using this

/-- what the built-in conversions need of an item: it is span-well-formed, and (for the types
    that consult them) the oracle and the environment's receivers behave for its span -/
def ItemOk (o : Oracle) (rh : String → Hooks Val) (m : Meta) : Prop :=
  m.spanWF = true ∧ OracleArrWithin o m.span ∧ ∀ n, (rh n).SpansIn m.span

/-- **a receiver all of whose fields are converted by built-in conversions satisfies the converter
    contract** on the items that are `ItemOk` -/
theorem builtin_convSpansOn (o : Oracle) (rh : String → Hooks Val) (s : SStruct Val)
    (hb : ∀ f ∈ s.fields, ∃ t : Ty, f.conv = (hooksOf o rh t).fromMeta) :
    ConvSpansOn (ItemOk o rh) s := by
  intro f hf m e hm he
  obtain ⟨t, ht⟩ := hb f hf
  rw [ht] at he
  exact builtin_convSpans o rh t m hm.2.2 (fun _ => hm.2.1) hm.1 e he

/-- … hence every mistake its item loop reports is spanned inside the item at fault -/
theorem builtin_coreLoop_placed (o : Oracle) (rh : String → Hooks Val) (s : SStruct Val)
    (hb : ∀ f ∈ s.fields, ∃ t : Ty, f.conv = (hooksOf o rh t).fromMeta)
    (items : List NestedMeta) (hok : ∀ m, NestedMeta.item m ∈ items → ItemOk o rh m)
    (st' : PState Val) (h : coreLoop s {} items = .ok st') : ErrsPlaced items st' := by
  have := coreLoop_placed_on (ItemOk o rh) s (builtin_convSpansOn o rh s hb) items hok [] {} st'
    (by intro e he; cases he) h
  simpa using this

end recv

/-! ### non-vacuity -/

private def pA : Path := { global := false, segs := ["a"], plain := true, toks := "a", span := ⟨0, 1⟩ }
private def u8 : IntSpec := { name := "u8", signed := false, bits := 8, nonzero := false }

/-- `a = "x"`, well-formed: name at 0..1, value at 4..7, item 0..7 -/
private def mGood : Meta := .nameValue pA (.lit ⟨.str "x", "\"x\"", ⟨4, 7⟩⟩) "a = \"x\"" ⟨0, 7⟩
/-- the same item with the value's span sticking out of the item -/
private def mBad : Meta := .nameValue pA (.lit ⟨.str "x", "\"x\"", ⟨4, 9⟩⟩) "a = \"x\"" ⟨0, 7⟩
/-- `a(b = 1, "s")` with a group around the value, all nested properly -/
private def mNested : Meta :=
  .list pA
    [.item (.nameValue { pA with toks := "b", segs := ["b"], span := ⟨2, 3⟩ }
        (.group (.lit ⟨.int "1" "", "1", ⟨6, 7⟩⟩) ⟨6, 7⟩) "b = 1" ⟨2, 7⟩),
     .lit ⟨.str "s", "\"s\"", ⟨9, 12⟩⟩]
    none (some ⟨2, 12⟩) "b = 1, \"s\"" ⟨0, 13⟩

example : mGood.spanWF = true := by decide
example : mBad.spanWF = false := by decide
example : mNested.spanWF = true := by decide

/-- the premises are satisfiable and the conclusion has content: `u8` applied to `a = "x"`
    fails (`Unknown literal value`) with an error spanned at the value (4..7), strictly inside the
    item (0..7) -/
example : ∃ e sp, (hooksOf {} (fun _ => {}) (.int u8)).fromMeta mGood = .err e
    ∧ e.span = some sp ∧ sp = ⟨4, 7⟩ ∧ sp.within mGood.span = true ∧ sp ≠ mGood.span :=
  ⟨_, _, rfl, rfl, rfl, by decide, by decide⟩

/-- … and this is an instance of the theorem (empty oracle, empty environment) -/
example (e : Err) (he : (hooksOf {} (fun _ => {}) (.int u8)).fromMeta mGood = .err e) :
    ∀ sp, e.span = some sp → sp.within mGood.span = true :=
  builtin_convSpans {} (fun _ => {}) (.int u8) mGood (fun _ => empty_spansIn _)
    (fun h => by cases h) (by decide) e he

/-- well-formedness is needed: on the ill-formed item the same conversion returns a span that
    sticks out of the item -/
example : ∃ e sp, (hooksOf {} (fun _ => {}) (.int u8)).fromMeta mBad = .err e
    ∧ e.span = some sp ∧ sp.within mBad.span = false :=
  ⟨_, _, rfl, rfl, by decide⟩

/-! the oracle: `Vec<LitInt>` applied to `a = "[1, x]"`, where the oracle's answer for the string
    contents is placed inside the literal (4..12) resp. somewhere else (100..108) -/
private def arrAt (base : Nat) : Expr :=
  .array [.lit ⟨.int "1" "", "1", ⟨base + 1, base + 2⟩⟩,
          .path { pA with toks := "x", segs := ["x"], span := ⟨base + 4, base + 5⟩ } ⟨base + 4, base + 5⟩]
    "[1, x]" ⟨base, base + 8⟩
private def oGood : Oracle := { arrs := [("[1, x]", some (arrAt 4))] }
private def oFar : Oracle := { arrs := [("[1, x]", some (arrAt 100))] }
private def mArr : Meta :=
  .nameValue pA (.lit ⟨.str "[1, x]", "\"[1, x]\"", ⟨4, 12⟩⟩) "a = \"[1, x]\"" ⟨0, 12⟩

example : mArr.spanWF = true := by decide
example : oGood.arrsWithin mArr.span = true := by decide
example : oFar.arrsWithin mArr.span = false := by decide

/-- with the oracle hypothesis: the element error (8..9) lies inside the item -/
example : ∃ e sp, (hooksOf oGood (fun _ => {}) (.vecLit .int)).fromMeta mArr = .err e
    ∧ e.span = some sp ∧ sp = ⟨8, 9⟩ ∧ sp.within mArr.span = true :=
  ⟨_, _, rfl, rfl, rfl, by decide⟩

example (e : Err) (he : (hooksOf oGood (fun _ => {}) (.vecLit .int)).fromMeta mArr = .err e) :
    ∀ sp, e.span = some sp → sp.within mArr.span = true :=
  builtin_convSpans oGood (fun _ => {}) (.vecLit .int) mArr (fun _ => empty_spansIn _)
    (fun _ => oracle_arrsWithin (by decide)) (by decide) e he

/-- the oracle hypothesis is needed: an answer placed elsewhere puts the error's span (104..105)
    outside the (well-formed) item -/
example : ∃ e sp, (hooksOf oFar (fun _ => {}) (.vecLit .int)).fromMeta mArr = .err e
    ∧ e.span = some sp ∧ sp.within mArr.span = false :=
  ⟨_, _, rfl, rfl, by decide⟩

/-- the oracle check is executable and not trivially true -/
example : Oracle.arrsWithin { arrs := [("[1]", some (.array [.lit ⟨.int "1" "", "1", ⟨5, 6⟩⟩] "[1]" ⟨4, 7⟩))] } ⟨0, 8⟩ = true := by
  decide
example : Oracle.arrsWithin { arrs := [("[1]", some (.array [.lit ⟨.int "1" "", "1", ⟨5, 6⟩⟩] "[1]" ⟨4, 7⟩))] } ⟨0, 5⟩ = false := by
  decide

/-- the error predicates are executable and not trivially true -/
example : (Err.multi [.leaf (.custom "x") [] (some ⟨2, 3⟩), .leaf (.custom "y") [] none] [] none).allWithin ⟨0, 4⟩ = true := by
  decide
example : (Err.multi [.leaf (.custom "x") [] (some ⟨2, 5⟩), .leaf (.custom "y") [] none] [] none).allWithin ⟨0, 4⟩ = false := by
  decide

end C03
