import Darling.Props.C02
import Darling.Props.C07Recv
/-
  C01 / C02 for the receivers of a corpus: the struct parser that `Env` assembles from a derived
  declaration satisfies the hypotheses of `C02.fromList_spec` / `C02.fromList_value`, provided only
  that the declaration's field identifiers are pairwise distinct (which Rust guarantees for any
  struct that compiles).  Hence, for every struct `FromMeta` receiver of every corpus, at every
  nesting depth and for every item list: the result is the declared field mapping when the list
  is mistake-free, and otherwise the bundle of exactly `Spec.C02.mistakes`.
-/
open Derive Options

namespace C01
open C02

/-- the assembled fields keep the identifiers of the declaration's fields -/
theorem semField_ident (env : Env.T) (rh : String → Hooks Val) (f : RField) : (Env.semField env rh f).ident = f.ident := rfl

theorem semStruct_fields (env : Env.T) (rh : String → Hooks Val) (core : RCore) (fields : List RField)
    (build : List (String × Val) → Val) :
    (Env.semStruct env rh core fields build).fields = fields.map (Env.semField env rh) := rfl

/-- pairwise distinct identifiers in the declaration give the two distinctness facts the struct
    theorems need -/
theorem semStruct_distinct (env : Env.T) (rh : String → Hooks Val) (core : RCore) (fields : List RField)
    (build : List (String × Val) → Val) (hd : fields.Pairwise (fun f g => f.ident ≠ g.ident)) :
    Distinct (Env.semStruct env rh core fields build) := by
  unfold Distinct
  rw [semStruct_fields]
  exact List.Pairwise.map _ (fun a b h => by simpa [semField_ident] using h) hd

theorem pairwise_inj {α β : Type} (k : α → β) : ∀ (l : List α), l.Pairwise (fun a b => k a ≠ k b) →
    ∀ a ∈ l, ∀ b ∈ l, k a = k b → a = b
  | [], _, a, ha, _, _, _ => by cases ha
  | x :: xs, hp, a, ha, b, hb, hk => by
      rw [List.pairwise_cons] at hp
      rcases List.mem_cons.mp ha with rfl | ha'
      · rcases List.mem_cons.mp hb with rfl | hb'
        · rfl
        · exact absurd hk (hp.1 b hb')
      · rcases List.mem_cons.mp hb with rfl | hb'
        · exact absurd hk.symm (hp.1 a ha')
        · exact pairwise_inj k xs hp.2 a ha' b hb' hk

theorem semStruct_wf (env : Env.T) (rh : String → Hooks Val) (hr : ∀ n, (rh n).NP) (core : RCore) (fields : List RField)
    (build : List (String × Val) → Val) (hd : fields.Pairwise (fun f g => f.ident ≠ g.ident)) :
    WF (Env.semStruct env rh core fields build) := by
  refine ⟨?_, ?_, ?_⟩
  · intro f hf g hg hfg
    rw [semStruct_fields] at hf hg
    obtain ⟨f0, hf0, rfl⟩ := List.mem_map.mp hf
    obtain ⟨g0, hg0, rfl⟩ := List.mem_map.mp hg
    have : f0 = g0 := pairwise_inj (·.ident) fields hd f0 hf0 g0 hg0 (by simpa [semField_ident] using hfg)
    rw [this]
  · intro f hf m msg
    rw [semStruct_fields] at hf
    obtain ⟨f0, _, rfl⟩ := List.mem_map.mp hf
    exact C07.semField_conv_ne_panic env rh hr f0 m msg
  · intro f hf items msg
    rw [semStruct_fields] at hf
    obtain ⟨f0, _, rfl⟩ := List.mem_map.mp hf
    exact C07.semField_fromList_ne_panic env rh hr f0 items msg

/-- **C01 + C02 for every struct receiver of every corpus**: the parser assembled for a declaration
    with pairwise distinct field identifiers returns the declared field mapping on a mistake-free
    item list and the bundle of exactly the mistakes otherwise — whatever the other receivers of
    the corpus are (`rh`), provided they do not panic (which `C07.recvHooksF_np` establishes). -/
theorem corpus_struct_spec (env : Env.T) (rh : String → Hooks Val) (hr : ∀ n, (rh n).NP) (core : RCore)
    (fields : List RField) (build : List (String × Val) → Val)
    (hd : fields.Pairwise (fun f g => f.ident ≠ g.ident)) (items : List NestedMeta) :
    let s := Env.semStruct env rh core fields build
    Derive.fromList s items = (match Spec.C02.mistakes s items with
      | [] => Spec.C01.expected s items
      | errs => Err.bundleErr errs) :=
  fromList_spec _ (semStruct_wf env rh hr core fields build hd) (semStruct_distinct env rh core fields build hd) items

/-- the same at the depth the driver uses -/
theorem corpus_struct_spec_at (env : Env.T) (fuel : Nat) (core : RCore) (fields : List RField)
    (build : List (String × Val) → Val) (hd : fields.Pairwise (fun f g => f.ident ≠ g.ident)) (items : List NestedMeta) :
    let s := Env.semStruct env (Env.recvHooksF fuel env) core fields build
    Derive.fromList s items = (match Spec.C02.mistakes s items with
      | [] => Spec.C01.expected s items
      | errs => Err.bundleErr errs) :=
  corpus_struct_spec env _ (fun n => C07.recvHooksF_np env fuel n) core fields build hd items

end C01
