import Darling.Props.C11
import Darling.FromMeta.Universe
/-
  C11 — an independent specification of the scalar conversions, written from the property text,
  and the end-to-end theorem `model = specification` for every target and every meta item.

  The specification has four small layers, none of which calls a step function of the model:

    1. `decimal`    what number a digit string writes (positional notation), validated against
                    Lean's own decimal printer (`decimal_toDigits`, `stdInt_toString`);
    2. `stdInt` …   what the target type's standard parsing accepts (sign rule, range, NonZero);
    3. `Written`    how the user wrote the value, as far as the property distinguishes
                    (bare word / list / quoted / unquoted number / …), read off the syntax tree;
    4. `expected`   the table "target × written form ↦ value, or rejected".

  Main theorems (all unconditional: every target, float included, every input):
  `scalar_conforms` (every `Meta`), `nested_conforms` (the `NestedMeta` entry point),
  `plain_decimal_quoted` / `plain_decimal_unquoted` (in range means that value, otherwise a
  spanned error, for every integer and every `IntSpec`), `quoted_unquoted_same` (integer and
  float targets), `float_from_integer_accepted`, `accepted_fits`, `never_panics`,
  `rejection_spanned`.

  History: the first version of this file needed a side condition excluding integer literals for float targets (the
  library rejected `f = 1` for a float target although it accepted `f = "1"`); `from_meta_float!`
  now reads an integer literal through the float parser, the model follows, and the side
  condition is gone.

  Reused from `Darling/Props/C11.lean`: `finish_ok_iff` and `parseIntStd_unfold` (the digit fold
  of the model is positional notation); everything else is proved here.
-/
open Scalars

namespace C11

/-! ## 1. Decimal notation -/

/-- an ASCII decimal digit -/
def isDec (c : Char) : Bool := '0' ≤ c && c ≤ '9'

/-- its numeric value -/
def digit (c : Char) : Nat := c.toNat - '0'.toNat

/-- the number a digit string writes: a digit followed by `k` more digits counts `10^k` times -/
def decimal : List Char → Nat
  | [] => 0
  | c :: cs => digit c * 10 ^ cs.length + decimal cs

/-- one or more decimal digits and nothing else -/
def numeral (ds : List Char) : Bool := !ds.isEmpty && ds.all isDec

/-! ## 2. The target types' standard parsing -/

/-- the values an integer target can hold: two's-complement range of its width, zero excluded
    for the NonZero forms -/
def fits (ty : IntSpec) (v : Int) : Bool :=
  (if ty.signed then decide (-(2 ^ (ty.bits - 1) : Int) ≤ v ∧ v < 2 ^ (ty.bits - 1))
   else decide (0 ≤ v ∧ v < 2 ^ ty.bits))
  && (!ty.nonzero || v != 0)

/-- an optional sign in front of the rest -/
def splitSign : List Char → Bool × List Char
  | [] => (false, [])
  | c :: ds => if c = '-' then (true, ds) else if c = '+' then (false, ds) else (false, c :: ds)

/-- `str::parse::<N>()` for an integer target: an optional `+`, or a `-` when the type is
    signed, then a numeral; the value must fit -/
def stdInt (ty : IntSpec) (s : String) : Option Int :=
  let (neg, ds) := splitSign s.toList
  let v : Int := if neg then -(decimal ds : Int) else decimal ds
  if numeral ds && (!neg || ty.signed) && fits ty v then some v else none

/-- `str::parse::<bool>()` -/
def stdBool (s : String) : Option Bool :=
  if s = "true" then some true else if s = "false" then some false else none

/-- `str::parse::<char>()`: a string of exactly one character -/
def stdChar (s : String) : Option Char :=
  if s.length = 1 then s.toList.head? else none

/-! ## 3. How a value is written -/

/-- the written forms the property distinguishes -/
inductive Written where
  /-- `name` -/
  | word
  /-- `name(...)` -/
  | list
  /-- `name = "s"` -/
  | quoted (s : String)
  /-- an unquoted integer literal: its sign and decimal digits (radix, underscores and suffix
      are not part of what is written, as far as the property is concerned) -/
  | integer (digits : String)
  /-- an unquoted float literal, likewise -/
  | fraction (digits : String)
  | boolLit (b : Bool)
  | charLit (c : Char)
  /-- any other literal (byte string, byte, C string, verbatim) -/
  | otherLiteral
  /-- a value that is not a literal -/
  | notLiteral
  deriving Repr, DecidableEq

def writtenLit (l : Lit) : Written :=
  match l.v with
  | .str s => .quoted s
  | .int d _ => .integer d
  | .float d _ => .fraction d
  | .bool b => .boolLit b
  | .char c => .charLit c
  | _ => .otherLiteral

/-- invisible groups are not written by anybody -/
def writtenExpr : Expr → Written
  | .lit l => writtenLit l
  | .group g _ => writtenExpr g
  | _ => .notLiteral

def written : Meta → Written
  | .path _ => .word
  | .list _ _ _ _ _ _ => .list
  | .nameValue _ e _ _ => writtenExpr e

def writtenNested : NestedMeta → Written
  | .lit l => writtenLit l
  | .item m => written m

/-! ## 4. What the conversion must return -/

inductive Target where
  | int (ty : IntSpec)
  | float
  | bool
  | char
  /-- `String` and `PathBuf` -/
  | text
  deriving Repr, DecidableEq

inductive Scalar where
  | int (v : Int)
  | float (bits : Nat)
  | bool (b : Bool)
  | char (c : Char)
  | text (s : String)
  deriving Repr, DecidableEq

/-- **the specification**.  `some v`: accepted with exactly that value; `none`: rejected.
    `parseF` is the float type's standard parsing (external). -/
def expected (parseF : String → Option Nat) : Target → Written → Option Scalar
  -- quoted: the string as it stands, through the target's standard parsing
  | .int ty, .quoted s => (stdInt ty s).map .int
  | .float,  .quoted s => (parseF s).map .float
  | .bool,   .quoted s => (stdBool s).map .bool
  | .char,   .quoted s => (stdChar s).map .char
  | .text,   .quoted s => some (.text s)
  -- unquoted: sign and decimal value, through the target's standard parsing
  | .int ty, .integer d => (stdInt ty d).map .int
  | .float,  .integer d => (parseF d).map .float
  | .float,  .fraction d => (parseF d).map .float
  | .bool,   .boolLit b => some (.bool b)
  | .char,   .charLit c => some (.char c)
  -- bool additionally accepts the bare word
  | .bool,   .word => some (.bool true)
  -- wrong literal kind, wrong meta form
  | _, _ => none

/-- the piece of the input a rejection points at: the value of `name = value` (inside its
    invisible groups), otherwise the item -/
def siteExpr : Expr → Span
  | .group g _ => siteExpr g
  | e => e.span

def site : Meta → Span
  | .path p => p.span
  | .list _ _ (some (_, sp)) _ _ _ => sp
  | .list _ _ none _ _ sp => sp
  | .nameValue _ e _ _ => siteExpr e

def siteNested : NestedMeta → Span
  | .lit l => l.span
  | .item m => site m

/-- the model's conversion for a target (the entries of `hooksOf` for the scalar types) -/
def hooks {α : Type} (parseF : String → Option Nat) (inj : Scalar → α) : Target → Hooks α
  | .int ty => numHooks ty (fun v => inj (.int v))
  | .float => floatHooks parseF (fun b => inj (.float b))
  | .bool => boolHooks (fun b => inj (.bool b))
  | .char => charHooks (fun c => inj (.char c))
  | .text => stringHooks (fun s => inj (.text s))

/-- an outcome conforms to a verdict: accepted means exactly that value; rejected means an
    error carrying the span `sp`; never a panic -/
def Conforms {α : Type} (o : Outcome α) (want : Option α) (sp : Span) : Prop :=
  match o with
  | .ok v => want = some v
  | .err e => want = none ∧ e.span = some sp
  | .panic _ => False

/-! ## 5. Proofs -/

/-! ### 5.1 decimal notation: agreement with the model's digit fold and with Lean's printer -/

theorem isDec_eq (c : Char) : Spec.C11.isDigit c = isDec c := rfl
theorem decimal_eq_pos (ds : List Char) : Spec.C11.pos ds = decimal ds := by
  induction ds with
  | nil => rfl
  | cons c cs ih => simp only [Spec.C11.pos, decimal, ih]; rfl

theorem all_isDec_eq (ds : List Char) : ds.all Spec.C11.isDigit = ds.all isDec := rfl

/-- agreement with core's reader of digit strings -/
theorem decimal_eq_ofDigitChars (ds : List Char) : decimal ds = Nat.ofDigitChars 10 ds 0 := by
  induction ds with
  | nil => rfl
  | cons c cs ih =>
      rw [Nat.ofDigitChars_cons, Nat.ofDigitChars_eq_ofDigitChars_zero, ← ih]
      simp only [decimal, digit, Nat.mul_zero, Nat.zero_add]
      rw [Nat.mul_comm]

/-- the positional value of Lean's own decimal printing of `n` is `n` -/
theorem decimal_toDigits (n : Nat) : decimal (Nat.toDigits 10 n) = n := by
  rw [decimal_eq_ofDigitChars]; exact Nat.ofDigitChars_ten_toDigits

theorem isDec_of_isDigit (c : Char) (h : c.isDigit = true) : isDec c = true := by
  simp only [Char.isDigit, Bool.and_eq_true, decide_eq_true_eq] at h
  simp only [isDec, Bool.and_eq_true, decide_eq_true_eq, Char.le_def]
  exact h

theorem numeral_toDigits (n : Nat) : numeral (Nat.toDigits 10 n) = true := by
  simp only [numeral, Bool.and_eq_true, Bool.not_eq_true', List.isEmpty_eq_false_iff, ne_eq,
    Nat.toDigits_ne_nil, not_false_eq_true, List.all_eq_true, true_and]
  intro c hc
  exact isDec_of_isDigit c (Nat.isDigit_of_mem_toDigits (by decide) (by decide) hc)


/-! ### 5.2 the integer targets' standard parsing -/

theorem fits_eq_holds (ty : IntSpec) (v : Int) : ty.holds v = fits ty v := by
  unfold IntSpec.holds IntSpec.lo IntSpec.hi fits
  cases ty.signed <;> cases ty.nonzero <;>
    simp only [Int.natCast_pow, Bool.false_eq_true, if_false, if_true, Bool.not_false, Bool.not_true,
      Bool.true_or, Bool.false_or, Bool.and_true, Int.cast_ofNat_Int] <;>
    rw [Bool.eq_iff_iff] <;> simp <;> omega


/-- the tail of the model's parser, against the specification's three conditions -/
theorem finish_iff (ty : IntSpec) (neg : Bool) (ds : List Char) (v : Int) :
    finishSpec ty neg ds = .ok v ↔
      ds.all isDec = true ∧ v = (if neg then -(decimal ds : Int) else decimal ds) ∧ fits ty v = true := by
  rw [finish_ok_iff, fits_eq_holds, decimal_eq_pos]; rfl

theorem stdInt_iff (ty : IntSpec) (s : String) (v : Int) :
    stdInt ty s = some v ↔
      numeral (splitSign s.toList).2 = true ∧ ((splitSign s.toList).1 = true → ty.signed = true) ∧
      v = (if (splitSign s.toList).1 then -(decimal (splitSign s.toList).2 : Int) else decimal (splitSign s.toList).2) ∧
      fits ty v = true := by
  unfold stdInt
  generalize splitSign s.toList = p
  obtain ⟨neg, ds⟩ := p
  show (if (numeral ds && (!neg || ty.signed) && fits ty (if neg = true then -(decimal ds : Int) else decimal ds)) = true
        then some (if neg = true then -(decimal ds : Int) else decimal ds) else none) = some v ↔ _
  generalize (if neg = true then -(decimal ds : Int) else (decimal ds : Int)) = w
  by_cases hc : (numeral ds && (!neg || ty.signed) && fits ty w) = true
  · rw [if_pos hc]
    simp only [Bool.and_eq_true, Bool.or_eq_true, Bool.not_eq_true'] at hc
    constructor
    · intro h; cases h
      refine ⟨hc.1.1, ?_, rfl, hc.2⟩
      intro hn; rcases hc.1.2 with h | h
      · have hn' : neg = true := hn
        rw [hn'] at h; cases h
      · exact h
    · intro h; rw [h.2.2.1]
  · rw [if_neg hc]
    constructor
    · intro h; cases h
    · intro ⟨h1, h2, h3, h4⟩
      exfalso; apply hc
      subst h3
      simp only [Bool.and_eq_true, Bool.or_eq_true, Bool.not_eq_true']
      refine ⟨⟨h1, ?_⟩, h4⟩
      cases neg
      · exact Or.inl rfl
      · exact Or.inr (h2 rfl)

theorem parseIntStd_ok_iff (ty : IntSpec) (s : String) (v : Int) :
    parseIntStd ty s = .ok v ↔ stdInt ty s = some v := by
  rw [parseIntStd_unfold, stdInt_iff]
  generalize s.toList = cs
  split
  · simp [splitSign, numeral]
  · simp [splitSign, numeral]
  · simp [splitSign, numeral]
  · rename_i rest h1
    have hne : rest.isEmpty = false := by cases rest with
      | nil => exact absurd rfl h1
      | cons _ _ => rfl
    simp [splitSign, numeral, finish_iff, hne]
  · rename_i rest h1
    have hne : rest.isEmpty = false := by cases rest with
      | nil => exact absurd rfl h1
      | cons _ _ => rfl
    cases hs : ty.signed
    · simp [splitSign]
    · simp [splitSign, numeral, finish_iff, hne]
  · rename_i h0 h1 h2 h3 h4
    cases cs with
    | nil => exact absurd rfl h0
    | cons c rest =>
      have hm : c ≠ '-' := fun h => h4 rest (by rw [h])
      have hp : c ≠ '+' := fun h => h3 rest (by rw [h])
      simp [splitSign, hm, hp, numeral, finish_iff]


/-! ### 5.3 plain decimal spellings -/

theorem toString_toList (v : Int) :
    (toString v).toList = if 0 ≤ v then Nat.toDigits 10 v.toNat else '-' :: Nat.toDigits 10 (-v).toNat := by
  rw [Int.toString_eq_repr, Int.repr_eq_if]
  split
  · exact Nat.toList_repr
  · rw [String.toList_append, Nat.toList_repr]; rfl

theorem splitSign_numeral (ds : List Char) (h : numeral ds = true) : splitSign ds = (false, ds) := by
  cases ds with
  | nil => rfl
  | cons c cs =>
    simp only [numeral, List.isEmpty_cons, Bool.not_false, Bool.true_and, List.all_cons, Bool.and_eq_true] at h
    have hm : c ≠ '-' := by intro hc; rw [hc] at h; exact absurd h.1 (by decide)
    have hp : c ≠ '+' := by intro hc; rw [hc] at h; exact absurd h.1 (by decide)
    simp only [splitSign, if_neg hm, if_neg hp]

/-- **plain decimal spellings**: the usual decimal writing of an integer `v` is accepted by an
    integer target exactly when `v` fits, and then means `v` -/
theorem stdInt_toString (ty : IntSpec) (v : Int) :
    stdInt ty (toString v) = if fits ty v then some v else none := by
  unfold stdInt
  rw [toString_toList]
  by_cases hv : 0 ≤ v
  · rw [if_pos hv, splitSign_numeral _ (numeral_toDigits _)]
    simp only [numeral_toDigits, decimal_toDigits, Bool.false_eq_true, if_false, Bool.not_false, Bool.true_or, Bool.true_and, Bool.and_true]
    rw [Int.toNat_of_nonneg hv]
  · rw [if_neg hv]
    simp only [splitSign, if_true, numeral_toDigits, decimal_toDigits, Bool.true_and, Bool.not_true, Bool.false_or]
    have hneg : -((-v).toNat : Int) = v := by omega
    rw [hneg]
    cases hs : ty.signed
    · have : fits ty v = false := by
        unfold fits; rw [hs]; simp; intro h; omega
      simp [this]
    · simp


/-! ### 5.4 routing: from the literal to the item -/

variable {α : Type}

theorem withSpan_of_span {e : Err} {sp : Span} (sp' : Span) (h : e.span = some sp) : e.withSpan sp' = e := by
  cases e with
  | leaf k ls s => simp only [Err.span] at h; subst h; rfl
  | multi cs ls s => simp only [Err.span] at h; subst h; rfl

/-- a conforming outcome is unchanged by the `with_span` calls further out -/
theorem Conforms.mapErr {o : Outcome α} {want : Option α} {sp : Span} (sp' : Span)
    (h : Conforms o want sp) : o.mapErr (·.withSpan sp') = o := by
  cases o with
  | ok v => rfl
  | panic m => rfl
  | err e => simp only [Outcome.mapErr, withSpan_of_span sp' h.2]

theorem expr_conforms (h : Hooks α) (f : Written → Option α) (he : h.fromExpr? = none)
    (hl : ∀ l, Conforms (h.fromValue l) (f (writtenLit l)) l.span) (hn : f .notLiteral = none) :
    ∀ e, Conforms (h.fromExprD e) (f (writtenExpr e)) (siteExpr e)
  | .lit l => by
      simp only [Hooks.fromExprD, (hl l).mapErr, writtenExpr, siteExpr, Expr.span]; exact hl l
  | .group g sp => by
      have ih := expr_conforms h f he hl hn g
      simp only [Hooks.fromExprD, ih.mapErr, writtenExpr, siteExpr]; exact ih
  | .path p s => ⟨hn, rfl⟩
  | .qpath p t s => ⟨hn, rfl⟩
  | .array es t s => ⟨hn, rfl⟩
  | .other k t s => ⟨hn, rfl⟩


/-- what the generic routing needs to know of an implementor: which hooks it leaves at their
    default, and what its word and literal conversions return -/
structure Routed (h : Hooks α) (f : Written → Option α) : Prop where
  dNested : h.fromNestedMeta? = none
  dMeta : h.fromMeta? = none
  dExpr : h.fromExpr? = none
  dList : h.fromList? = none
  word : (h.fromWord? = none ∧ f .word = none) ∨ ∃ v, h.fromWord? = some (.ok v) ∧ f .word = some v
  lit : ∀ l, Conforms (h.fromValue l) (f (writtenLit l)) l.span
  fList : f .list = none
  fNotLit : f .notLiteral = none

theorem meta_conforms {h : Hooks α} {f : Written → Option α} (r : Routed h f) (m : Meta) :
    Conforms (h.fromMeta m) (f (written m)) (site m) := by
  simp only [Hooks.fromMeta, r.dMeta]
  cases m with
  | path p =>
      simp only [Hooks.fromMetaD, Hooks.fromWord, written, site, Meta.span]
      rcases r.word with ⟨hw, hf⟩ | ⟨v, hw, hf⟩
      · rw [hw]; exact ⟨hf, rfl⟩
      · rw [hw]; exact hf
  | list p items bad ts t s =>
      cases bad with
      | some b => exact ⟨r.fList, rfl⟩
      | none =>
          simp only [Hooks.fromMetaD, Hooks.fromList, r.dList, written, site, Meta.span]
          exact ⟨r.fList, rfl⟩
  | nameValue p e t s =>
      have hc := expr_conforms h f r.dExpr r.lit r.fNotLit e
      simp only [Hooks.fromMetaD, Hooks.fromExpr, r.dExpr, hc.mapErr, written, site]
      exact hc

theorem nestedMeta_conforms {h : Hooks α} {f : Written → Option α} (r : Routed h f) (n : NestedMeta) :
    Conforms (h.fromNestedMeta n) (f (writtenNested n)) (siteNested n) := by
  simp only [Hooks.fromNestedMeta, r.dNested]
  cases n with
  | lit l =>
      simp only [Hooks.fromNestedMetaD, (r.lit l).mapErr, writtenNested, siteNested]; exact r.lit l
  | item m =>
      simp only [Hooks.fromNestedMetaD, (meta_conforms r m).mapErr, writtenNested, siteNested]
      exact meta_conforms r m


/-! ### 5.5 the five kinds of target, at the literal -/

theorem parseIntStd_error (ty : IntSpec) (s : String) (e : IntErr) (h : parseIntStd ty s = .error e) :
    stdInt ty s = none := by
  cases hs : stdInt ty s with
  | none => rfl
  | some v => rw [(parseIntStd_ok_iff ty s v).mpr hs] at h; cases h

theorem int_lit (ty : IntSpec) (inj : Scalar → α) (parseF) (l : Lit) :
    Conforms ((hooks parseF inj (.int ty)).fromValue l)
      ((expected parseF (.int ty) (writtenLit l)).map inj) l.span := by
  obtain ⟨v, t, span⟩ := l
  cases v with
  | str s =>
      simp only [hooks, Hooks.fromValue, numHooks, numFromValue, numFromString, writtenLit, expected]
      cases hp : parseIntStd ty s with
      | ok v => simp only [Outcome.mapErr, Conforms, (parseIntStd_ok_iff ty s v).mp hp, Option.map]
      | error e => simp only [Outcome.mapErr, Conforms, parseIntStd_error ty s e hp, Option.map]; exact ⟨trivial, rfl⟩
  | int d sfx =>
      simp only [hooks, Hooks.fromValue, numHooks, numFromValue, writtenLit, expected]
      cases hp : parseIntStd ty d with
      | ok v => simp only [Outcome.mapErr, Conforms, (parseIntStd_ok_iff ty d v).mp hp, Option.map]
      | error e => simp only [Outcome.mapErr, Conforms, parseIntStd_error ty d e hp, Option.map]; exact ⟨trivial, rfl⟩
  | _ => exact ⟨rfl, rfl⟩


theorem float_lit (inj : Scalar → α) (parseF : String → Option Nat) (l : Lit) :
    Conforms ((hooks parseF inj .float).fromValue l)
      ((expected parseF .float (writtenLit l)).map inj) l.span := by
  obtain ⟨v, t, span⟩ := l
  cases v with
  | str s =>
      simp only [hooks, Hooks.fromValue, floatHooks, floatFromValue, floatFromString, writtenLit, expected]
      cases hp : parseF s with
      | some b => simp only [Outcome.mapErr, Conforms, Option.map]
      | none => simp only [Outcome.mapErr, Conforms, Option.map]; exact ⟨trivial, rfl⟩
  | float d sfx =>
      simp only [hooks, Hooks.fromValue, floatHooks, floatFromValue, writtenLit, expected]
      cases hp : parseF d with
      | some b => simp only [Outcome.mapErr, Conforms, Option.map]
      | none => simp only [Outcome.mapErr, Conforms, Option.map]; exact ⟨trivial, rfl⟩
  | int d sfx =>
      simp only [hooks, Hooks.fromValue, floatHooks, floatFromValue, writtenLit, expected]
      cases hp : parseF d with
      | some b => simp only [Outcome.mapErr, Conforms, Option.map]
      | none => simp only [Outcome.mapErr, Conforms, Option.map]; exact ⟨trivial, rfl⟩
  | _ => exact ⟨rfl, rfl⟩

theorem bool_lit' (inj : Scalar → α) (parseF : String → Option Nat) (l : Lit) :
    Conforms ((hooks parseF inj .bool).fromValue l)
      ((expected parseF .bool (writtenLit l)).map inj) l.span := by
  obtain ⟨v, t, span⟩ := l
  cases v with
  | str s =>
      simp only [hooks, Hooks.fromValue, boolHooks, Hooks.fromValueD, Hooks.fromString, writtenLit, expected, stdBool]
      by_cases h1 : s = "true"
      · simp only [h1, if_true, Outcome.mapErr, Conforms, Option.map]
      · by_cases h2 : s = "false"
        · simp only [h2, if_true, Outcome.mapErr, Conforms, Option.map]; rfl
        · simp only [if_neg h1, if_neg h2, Outcome.mapErr, Conforms, Option.map]; exact ⟨trivial, rfl⟩
  | bool b => exact rfl
  | _ => exact ⟨rfl, rfl⟩

theorem stdChar_eq (s : String) : stdChar s = match s.toList with | [c] => some c | _ => none := by
  unfold stdChar
  rw [← String.length_toList]
  match s.toList with
  | [] => rfl
  | [c] => rfl
  | _ :: _ :: r => simp

theorem char_lit' (inj : Scalar → α) (parseF : String → Option Nat) (l : Lit) :
    Conforms ((hooks parseF inj .char).fromValue l)
      ((expected parseF .char (writtenLit l)).map inj) l.span := by
  obtain ⟨v, t, span⟩ := l
  cases v with
  | str s =>
      simp only [hooks, Hooks.fromValue, charHooks, Hooks.fromValueD, Hooks.fromString, writtenLit, expected, stdChar_eq]
      match s.toList with
      | [] => exact ⟨rfl, rfl⟩
      | [c] => exact rfl
      | _ :: _ :: r => exact ⟨rfl, rfl⟩
  | char c => exact rfl
  | _ => exact ⟨rfl, rfl⟩

theorem text_lit (inj : Scalar → α) (parseF : String → Option Nat) (l : Lit) :
    Conforms ((hooks parseF inj .text).fromValue l)
      ((expected parseF .text (writtenLit l)).map inj) l.span := by
  obtain ⟨v, t, span⟩ := l
  cases v with
  | str s => exact rfl
  | _ => exact ⟨rfl, rfl⟩

theorem routed (parseF : String → Option Nat) (inj : Scalar → α) (t : Target) :
    Routed (hooks parseF inj t) (fun w => (expected parseF t w).map inj) := by
  cases t with
  | int ty => exact ⟨rfl, rfl, rfl, rfl, Or.inl ⟨rfl, rfl⟩, int_lit ty inj parseF, rfl, rfl⟩
  | float => exact ⟨rfl, rfl, rfl, rfl, Or.inl ⟨rfl, rfl⟩, float_lit inj parseF, rfl, rfl⟩
  | bool => exact ⟨rfl, rfl, rfl, rfl, Or.inr ⟨_, rfl, rfl⟩, bool_lit' inj parseF, rfl, rfl⟩
  | char => exact ⟨rfl, rfl, rfl, rfl, Or.inl ⟨rfl, rfl⟩, char_lit' inj parseF, rfl, rfl⟩
  | text => exact ⟨rfl, rfl, rfl, rfl, Or.inl ⟨rfl, rfl⟩, text_lit inj parseF, rfl, rfl⟩


/-! ## 6. Main theorems -/

/-- **model = specification**: for every target (float included), every meta item and every
    float parser, the conversion returns exactly what the table says — that value, or an error
    carrying the span of the offending piece; never a panic -/
theorem scalar_conforms (parseF : String → Option Nat) (inj : Scalar → α) (t : Target) (m : Meta) :
    Conforms ((hooks parseF inj t).fromMeta m) ((expected parseF t (written m)).map inj) (site m) :=
  meta_conforms (routed parseF inj t) m

/-- the nested-item entry point (`from_nested_meta`), which derived receivers call -/
theorem nested_conforms (parseF : String → Option Nat) (inj : Scalar → α) (t : Target)
    (n : NestedMeta) :
    Conforms ((hooks parseF inj t).fromNestedMeta n) ((expected parseF t (writtenNested n)).map inj)
      (siteNested n) :=
  nestedMeta_conforms (routed parseF inj t) n

/-! ### consequences, clause by clause -/

theorem Conforms.ok_iff {o : Outcome α} {want : Option α} {sp : Span} (h : Conforms o want sp) (v : α) :
    o = .ok v ↔ want = some v := by
  cases o with
  | ok w =>
      have hw : want = some w := h
      rw [hw]
      constructor
      · intro e; cases e; rfl
      · intro e; cases e; rfl
  | err e =>
      have hn : want = none := h.1
      rw [hn]
      constructor <;> intro x <;> cases x
  | panic msg => exact h.elim

/-- never a panic -/
theorem never_panics (parseF : String → Option Nat) (inj : Scalar → α) (t : Target) (m : Meta) :
    ((hooks parseF inj t).fromMeta m).isPanic = false := by
  have h := scalar_conforms parseF inj t m
  cases ho : (hooks parseF inj t).fromMeta m with
  | panic msg => rw [ho] at h; exact h.elim
  | ok v => rfl
  | err e => rfl

/-- every rejection is spanned, and the span is that of the offending piece -/
theorem rejection_spanned (parseF : String → Option Nat) (inj : Scalar → α) (t : Target) (m : Meta)
    (e : Err) (h : (hooks parseF inj t).fromMeta m = .err e) : e.span = some (site m) := by
  have hc := scalar_conforms parseF inj t m
  rw [h] at hc; exact hc.2

/-- an accepted integer fits the target: never wrapped, truncated, saturated, never zero for
    NonZero -/
theorem accepted_fits (parseF : String → Option Nat) (inj : Scalar → α) (ty : IntSpec) (m : Meta)
    (a : α) (h : (hooks parseF inj (.int ty)).fromMeta m = .ok a) :
    ∃ v, a = inj (.int v) ∧ fits ty v = true := by
  have hc := scalar_conforms parseF inj (.int ty) m
  rw [h] at hc
  have hc' : Option.map inj (expected parseF (.int ty) (written m)) = some a := hc
  generalize written m = w at hc'
  have key : ∀ s, Option.map inj ((stdInt ty s).map Scalar.int) = some a →
      ∃ v, a = inj (.int v) ∧ fits ty v = true := by
    intro s hs
    cases hv : stdInt ty s with
    | none => rw [hv] at hs; cases hs
    | some v =>
        rw [hv] at hs
        refine ⟨v, by cases hs; rfl, ((stdInt_iff ty s v).mp hv).2.2.2⟩
  cases w with
  | quoted s => exact key s hc'
  | integer d => exact key d hc'
  | _ => cases hc'

/-- **in range means that value, otherwise an error**: the plain decimal spelling of any integer
    `v`, quoted -/
theorem plain_decimal_quoted (parseF : String → Option Nat) (inj : Scalar → α) (ty : IntSpec) (v : Int)
    (p : Path) (toks toks' : String) (sp sp' : Span) :
    Conforms ((hooks parseF inj (.int ty)).fromMeta
        (.nameValue p (.lit ⟨.str (toString v), toks, sp⟩) toks' sp'))
      (if fits ty v then some (inj (.int v)) else none) sp := by
  have h := scalar_conforms parseF inj (.int ty)
    (.nameValue p (.lit ⟨.str (toString v), toks, sp⟩) toks' sp')
  simp only [written, writtenExpr, writtenLit, expected, stdInt_toString] at h
  cases hf : fits ty v <;> rw [hf] at h <;> exact h

/-- … and unquoted, whatever the suffix and the token text (radix, underscores) -/
theorem plain_decimal_unquoted (parseF : String → Option Nat) (inj : Scalar → α) (ty : IntSpec) (v : Int)
    (p : Path) (suffix toks toks' : String) (sp sp' : Span) :
    Conforms ((hooks parseF inj (.int ty)).fromMeta
        (.nameValue p (.lit ⟨.int (toString v) suffix, toks, sp⟩) toks' sp'))
      (if fits ty v then some (inj (.int v)) else none) sp := by
  have h := scalar_conforms parseF inj (.int ty)
    (.nameValue p (.lit ⟨.int (toString v) suffix, toks, sp⟩) toks' sp')
  simp only [written, writtenExpr, writtenLit, expected, stdInt_toString] at h
  cases hf : fits ty v <;> rw [hf] at h <;> exact h

/-- the targets that read numbers: the integer types and the floats -/
def Target.numeric : Target → Bool
  | .int _ => true
  | .float => true
  | _ => false

/-- plain decimal spellings mean the same quoted or unquoted: two items, one writing the digits
    `d` unquoted (any suffix, radix, invisible groups), the other writing them quoted, are
    accepted with the same value or both rejected — for every integer target, for the float
    targets, and every `d` -/
theorem quoted_unquoted_same (parseF : String → Option Nat) (inj : Scalar → α) (t : Target)
    (ht : t.numeric = true) (m₁ m₂ : Meta) (d : String)
    (h₁ : written m₁ = .integer d) (h₂ : written m₂ = .quoted d) (a : α) :
    (hooks parseF inj t).fromMeta m₁ = .ok a ↔ (hooks parseF inj t).fromMeta m₂ = .ok a := by
  rw [(scalar_conforms parseF inj t m₁).ok_iff, (scalar_conforms parseF inj t m₂).ok_iff, h₁, h₂]
  cases t with
  | int ty => rfl
  | float => rfl
  | bool => cases ht
  | char => cases ht
  | text => cases ht

/-- the former discrepancy, now a theorem: an unquoted integer literal whose decimal value the
    float type's standard parsing accepts is accepted by a float target, with exactly the value
    the parser gives — the value the quoted spelling and the float literal give -/
theorem float_from_integer_accepted (parseF : String → Option Nat) (inj : Scalar → α) (m : Meta)
    (d : String) (b : Nat) (hw : written m = .integer d) (hp : parseF d = some b) :
    (hooks parseF inj .float).fromMeta m = .ok (inj (.float b)) := by
  rw [(scalar_conforms parseF inj .float m).ok_iff, hw]
  simp only [expected, hp, Option.map]

/-- the suffix and the token text of an unquoted literal are not part of what is written -/
theorem suffix_and_tokens_irrelevant (d s₁ s₂ t₁ t₂ : String) (sp₁ sp₂ : Span) :
    writtenLit ⟨.int d s₁, t₁, sp₁⟩ = writtenLit ⟨.int d s₂, t₂, sp₂⟩ := rfl

/-! ## 7. The universe the driver executes

`hooks` is, entry by entry, what `hooksOf` installs for the scalar types, so every theorem above is
a theorem about the function the differential harness runs (rewrite with these equations). -/

def toVal : Scalar → Val
  | .int v => .int v
  | .float b => .float b
  | .bool b => .bool b
  | .char c => .char c
  | .text s => .str s

theorem hooksOf_int (o : Oracle) (r : String → Hooks Val) (w : Nat) (ty : IntSpec) :
    hooksOf o r (.int ty) = hooks (o.parseFloat w) toVal (.int ty) := rfl
theorem hooksOf_float (o : Oracle) (r : String → Hooks Val) (w : Nat) :
    hooksOf o r (.float w) = hooks (o.parseFloat w) toVal .float := rfl
theorem hooksOf_bool (o : Oracle) (r : String → Hooks Val) (w : Nat) :
    hooksOf o r .bool = hooks (o.parseFloat w) toVal .bool := rfl
theorem hooksOf_char (o : Oracle) (r : String → Hooks Val) (w : Nat) :
    hooksOf o r .char = hooks (o.parseFloat w) toVal .char := rfl
theorem hooksOf_string (o : Oracle) (r : String → Hooks Val) (w : Nat) :
    hooksOf o r .string = hooks (o.parseFloat w) toVal .text := rfl
theorem hooksOf_pathBuf (o : Oracle) (r : String → Hooks Val) (w : Nat) :
    hooksOf o r .pathBuf = hooks (o.parseFloat w) toVal .text := rfl

/-- the main theorem on the driver's own function, for the 24 integer targets (any `IntSpec`) -/
theorem universe_int_conforms (o : Oracle) (r : String → Hooks Val) (ty : IntSpec) (m : Meta) :
    Conforms ((hooksOf o r (.int ty)).fromMeta m)
      ((expected (o.parseFloat 64) (.int ty) (written m)).map toVal) (site m) := by
  rw [hooksOf_int o r 64 ty]
  exact scalar_conforms _ toVal (.int ty) m

/-! ## 8. Examples -/

namespace Ex
def u8 : IntSpec := ⟨"u8", false, 8, false⟩
def i8 : IntSpec := ⟨"i8", true, 8, false⟩
def nzi8 : IntSpec := ⟨"NonZeroI8", true, 8, true⟩
def u128 : IntSpec := ⟨"u128", false, 128, false⟩

/-! the specification itself, at the boundaries the property names -/
example : stdInt u8 "255" = some 255 := by decide
example : stdInt u8 "256" = none := by decide
example : stdInt u8 "+7" = some 7 := by decide
example : stdInt u8 "007" = some 7 := by decide
example : stdInt u8 "-0" = none := by decide
example : stdInt u8 "" = none := by decide
example : stdInt u8 "+" = none := by decide
example : stdInt u8 "1_0" = none := by decide
example : stdInt u8 "0x10" = none := by decide
example : stdInt i8 "-128" = some (-128) := by decide
example : stdInt i8 "-129" = none := by decide
example : stdInt i8 "128" = none := by decide
example : stdInt i8 "-" = none := by decide
example : stdInt i8 "+-1" = none := by decide
example : stdInt nzi8 "0" = none := by decide
example : stdInt nzi8 "-0" = none := by decide
example : stdInt nzi8 "-1" = some (-1) := by decide
example : stdInt u128 "340282366920938463463374607431768211455" = some (2 ^ 128 - 1) := by decide
example : stdInt u128 "340282366920938463463374607431768211456" = none := by decide
example : stdChar "a" = some 'a' := by decide
example : stdChar "ab" = none := by decide
example : stdChar "" = none := by decide

/-- a float parser for the examples: it knows `1`, `1.0` and `1e999` (the last as std does:
    accepted, infinity) -/
def pf : String → Option Nat := fun s =>
  if s = "1" then some 0x3FF0000000000000 else if s = "1.0" then some 0x3FF0000000000000
  else if s = "1e999" then some 0x7FF0000000000000 else none

def name : Path := ⟨false, ["f"], true, "f", ⟨0, 1⟩, ⟨0, 1⟩⟩
/-- `f = 1` -/
def fInt : Meta := .nameValue name (.lit ⟨.int "1" "", "1", ⟨4, 5⟩⟩) "f = 1" ⟨0, 5⟩
/-- `f = 1f64`, as syn reads it: an integer literal with suffix `f64` -/
def fIntF64 : Meta := .nameValue name (.lit ⟨.int "1" "f64", "1f64", ⟨4, 8⟩⟩) "f = 1f64" ⟨0, 8⟩
/-- `f = "1"` -/
def fStr : Meta := .nameValue name (.lit ⟨.str "1", "\"1\"", ⟨4, 7⟩⟩) "f = \"1\"" ⟨0, 7⟩
/-- `f = 1.0` -/
def fFrac : Meta := .nameValue name (.lit ⟨.float "1.0" "", "1.0", ⟨4, 7⟩⟩) "f = 1.0" ⟨0, 7⟩
/-- `f = 0x01u16` inside an invisible group -/
def fHex : Meta :=
  .nameValue name (.group (.lit ⟨.int "1" "u16", "0x01u16", ⟨4, 11⟩⟩) ⟨4, 11⟩) "f = 0x01u16" ⟨0, 11⟩
/-- `f = -1`, not last in its list: syn hands over a unary expression (finding F16) -/
def fNeg : Meta := .nameValue name (.other "unary" "- 1" ⟨4, 6⟩) "f = - 1" ⟨0, 6⟩

/-! ### the former discrepancy, repaired: a plain decimal spelling means the same quoted and
    unquoted for a float target too -/
example : (hooks pf id .float).fromMeta fStr = .ok (.float 0x3FF0000000000000) := rfl
example : (hooks pf id .float).fromMeta fFrac = .ok (.float 0x3FF0000000000000) := rfl
example : (hooks pf id .float).fromMeta fInt = .ok (.float 0x3FF0000000000000) := rfl
example : (hooks pf id .float).fromMeta fInt = (hooks pf id .float).fromMeta fStr := rfl
/-- `1f64` is an integer literal with suffix `f64` to syn: accepted as well -/
example : (hooks pf id .float).fromMeta fIntF64 = .ok (.float 0x3FF0000000000000) := rfl
example : expected pf .float (written fInt) = some (.float 0x3FF0000000000000) := rfl
example : expected pf .float (written fInt) = expected pf .float (written fStr) := rfl
/-- an integer literal the float parser refuses is rejected at the literal (`f = 1` with a
    parser that knows nothing) -/
example : (hooks (fun _ => none) id .float).fromMeta fInt
    = .err (.leaf (.custom "invalid float literal") [] (some ⟨4, 5⟩)) := rfl
/-- the same literal is taken by an integer target, suffix `f64` and all -/
example : (hooks pf id (.int u8)).fromMeta fIntF64 = .ok (.int 1) := rfl

/-! ### non-vacuity of the hypotheses -/
/-- `float_from_integer_accepted`: both hypotheses hold of `f = 1` -/
example : written fInt = .integer "1" := rfl
example : pf "1" = some 0x3FF0000000000000 := rfl
/-- `quoted_unquoted_same`: `numeric` holds of the integer and float targets and of no other -/
example : (Target.int u8).numeric = true := rfl
example : Target.float.numeric = true := rfl
example : Target.bool.numeric = false := rfl
/-- `quoted_unquoted_same`: both hypotheses hold of `f = 0x01u16` (grouped) and `f = "1"` -/
example : written fHex = .integer "1" := rfl
example : written fStr = .quoted "1" := rfl
example : (hooks pf id (.int u8)).fromMeta fHex = .ok (.int 1) := rfl
example : (hooks pf id (.int u8)).fromMeta fStr = .ok (.int 1) := rfl
example : (hooks pf id .float).fromMeta fHex = (hooks pf id .float).fromMeta fStr := rfl
/-- `accepted_fits`: an accepting input exists; `plain_decimal_*`: both branches of the verdict -/
example : fits u8 255 = true := by decide
example : fits u8 256 = false := by decide
example : fits u8 (-1) = false := by decide
example : fits nzi8 0 = false := by decide
example : fits i8 (-128) = true := by decide
/-- `Routed` (hypothesis of `meta_conforms` / `nestedMeta_conforms`) holds of every target -/
example (t : Target) : Routed (hooks pf id t) (fun w => (expected pf t w).map id) := routed pf id t

/-! ### the other clauses, on instances -/
example : expected pf .bool .word = some (.bool true) := rfl
example : expected pf (.int u8) .word = none := rfl
example : expected pf .bool .list = none := rfl
example : expected pf .char (.quoted "x") = some (.char 'x') := by decide
example : expected pf .char (.quoted "xy") = none := by decide
example : expected pf .text (.integer "5") = none := rfl
example : expected pf (.int u8) (.fraction "1.0") = none := rfl
example : (hooks pf id (.int i8)).fromMeta fNeg
    = .err (.leaf (.unexpectedType "unary") [] (some ⟨4, 6⟩)) := rfl
/-- what the float clause cannot promise (remark D2): the parser parameter may itself saturate,
    and std's does — `1e999` is accepted as infinity; the conversion adds nothing to that -/
example : expected pf .float (.fraction "1e999") = some (.float 0x7FF0000000000000) := rfl
end Ex

end C11
