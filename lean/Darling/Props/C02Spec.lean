import Darling.Props.C02
import Darling.Props.C04
import Darling.Props.C14
import Darling.Derive.Enum
import Darling.FromMeta.Wrappers
import Darling.Derive.Outer
/-
  C02 — an independent, positional reading of the property text, and the proof that the model
  computes it (struct receivers, enum receivers, keyed collections, to any nesting depth).

  The specification (sections 1, 3, 4, 5, 6: `Tag`, `Mistake`, `Reports`, `Verdict`, `Reading`,
  `structMistakes`, `enumMistakes`, `mapMistakes`, `routed`, `structReading` …) is written from the
  property text: it speaks of item names, positions and the six kinds of mistake only, and never
  of converters, slots, `seen` flags or accumulators.  The theorems tie it to the model:

    * `struct_verdict`, `enum_verdict`, `map_verdict`, `deep_verdict` / `deep_fails_iff`
        — first sentence of the property (fails iff a mistake exists, at any depth): no side
          condition on the input;
    * `struct_reports_partial`, `enum_reports_partial`, `map_reports`, `deep_reports_partial`
        — second sentence (leaves = mistakes, one for one, with tags and paths): under the side
          conditions `StructOk` / `EnumOk` / `MapOk`, which exclude exactly the discrepancies
          D1, D2, D4 between the text and the model (section 7 gives each as a concrete input; all
          of them reproduce on the library; of D4 only the parse-failure case was repaired; D3,
          the element index of a `multiple` field, was repaired in the library and in the model,
          and its side condition is gone);
    * `outer_attr_layer_first`, `outer_body_layer` — the two layers of element-level receivers.
-/
set_option autoImplicit false

open Derive

namespace C02

/-! ## 1. The vocabulary of the property text -/

/-- the six kinds of mistake the property text lists -/
inductive Tag where
  | unknownName (n : String)
  | repeatedName (n : String)
  | bareLiteral
  | absent (n : String)
  | rejected
  | wrongCount
  deriving DecidableEq, Repr

/-- a mistake: what it is (naming the offending item) and its outer-to-inner location path -/
abbrev Mistake := Tag × List String

/-- which of the six kinds an error leaf announces (did-you-mean suggestions are C17's subject) -/
def tagOf : Kind → Tag
  | .unknownField n _ => .unknownName n
  | .duplicateField n => .repeatedName n
  | .missingField n => .absent n
  | .tooFewItems _ => .wrongCount
  | .tooManyItems _ => .wrongCount
  | .unexpectedFormat f => if f = "literal" ∨ f = "expression" then .bareLiteral else .rejected
  | _ => .rejected

/-- the leaves of a returned error, left to right, each with its full location path -/
def reported (e : Err) : List Mistake := (Spec.C04.leaves e).map (fun d => (tagOf d.kind, d.path))

def reportedAll (es : List Err) : List Mistake := es.flatMap reported

/-- a mistake found inside the item located at `l` -/
def under (l : String) (m : Mistake) : Mistake := (m.1, l :: m.2)

/-- **the judgement of the property**: the outcome is `Ok` when there is no mistake; otherwise it
    is an error whose leaves are exactly the mistakes (one each, none invented); never a panic -/
def Reports {α : Type} (o : Outcome α) (ms : List Mistake) : Prop :=
  match o with
  | .ok _ => ms = []
  | .err e => ms ≠ [] ∧ reported e = ms
  | .panic _ => False

/-! ## 2. How the judgement composes (error algebra) -/

open Spec.C04 in
theorem reported_leaf (k : Kind) (ls : List String) (s : Option Span) :
    reported (.leaf k ls s) = [(tagOf k, ls)] := by
  simp [reported, leaves, leavesUnder]

theorem reported_new (k : Kind) : reported (Err.new k) = [(tagOf k, [])] := reported_leaf k [] none

theorem reported_at (e : Err) (l : String) : reported (e.at l) = (reported e).map (under l) := by
  unfold reported
  rw [C04.at_leaves, List.map_map, List.map_map]
  rfl

theorem reported_withSpan (e : Err) (s : Span) : reported (e.withSpan s) = reported e := by
  have h := congrArg (List.map (fun p : Kind × List String => (tagOf p.1, p.2))) (C04.withSpan_kp e s)
  simpa only [reported, List.map_map, Function.comp_def] using h

open Spec.C04 in
theorem leavesListUnder_flatMap (anc : List String) (cs : List Err) :
    leavesListUnder anc cs = cs.flatMap (leavesUnder anc) := by
  induction cs with
  | nil => simp [leavesListUnder]
  | cons c cs ih => simp [leavesListUnder, ih]

open Spec.C04 in
theorem reported_multi (cs : List Err) (s : Option Span) : reported (.multi cs [] s) = reportedAll cs := by
  simp only [reported, leaves, leavesUnder, List.append_nil, leavesListUnder_flatMap, reportedAll,
    List.map_flatMap]
  rfl

theorem reportedAll_nil : reportedAll [] = [] := rfl
theorem reportedAll_cons (e : Err) (es : List Err) : reportedAll (e :: es) = reported e ++ reportedAll es := by
  simp [reportedAll]
theorem reportedAll_append (a b : List Err) : reportedAll (a ++ b) = reportedAll a ++ reportedAll b := by
  simp [reportedAll]

/-- `Error::multiple` loses nothing and adds nothing -/
theorem bundle_reported {α : Type} (es : List Err) (h : es ≠ []) :
    ∃ e, (Err.bundleErr es : Outcome α) = .err e ∧ reported e = reportedAll es := by
  match es, h with
  | [x], _ => exact ⟨x, rfl, by simp [reportedAll]⟩
  | x :: y :: r, _ => exact ⟨.multi (x :: y :: r) [] none, rfl, reported_multi _ _⟩

open Spec.C04 Suggest in
mutual
theorem leavesUnder_siblingAlts (thr : Nat) (sc : String → List (String × Nat)) (anc : List String) (e : Err) :
    (leavesUnder anc (addSiblingAlts thr sc e)).map (fun d => (tagOf d.kind, d.path))
      = (leavesUnder anc e).map (fun d => (tagOf d.kind, d.path)) := by
  cases e with
  | leaf k ls sp =>
      unfold addSiblingAlts
      by_cases hls : ls.isEmpty
      · cases k <;> simp [hls, leavesUnder, tagOf]
      · simp [hls]
  | multi cs ls sp =>
      unfold addSiblingAlts
      by_cases hls : ls.isEmpty
      · simp only [hls, Bool.not_true, Bool.false_eq_true, if_false, leavesUnder]
        exact leavesListUnder_siblingAlts thr sc _ cs
      · simp [hls]
theorem leavesListUnder_siblingAlts (thr : Nat) (sc : String → List (String × Nat)) (anc : List String) (es : List Err) :
    (leavesListUnder anc (addSiblingAltsList thr sc es)).map (fun d => (tagOf d.kind, d.path))
      = (leavesListUnder anc es).map (fun d => (tagOf d.kind, d.path)) := by
  cases es with
  | nil => simp [addSiblingAltsList]
  | cons c cs =>
      simp only [addSiblingAltsList, leavesListUnder, List.map_append]
      rw [leavesUnder_siblingAlts thr sc anc c, leavesListUnder_siblingAlts thr sc anc cs]
end

/-- offering sibling names for a did-you-mean changes neither the mistakes nor their paths -/
theorem reported_siblingAlts (thr : Nat) (sc : String → List (String × Nat)) (e : Err) :
    reported (Suggest.addSiblingAlts thr sc e) = reported e :=
  leavesUnder_siblingAlts thr sc [] e

/-! ### the judgement under the wrappers the generated code applies -/

theorem Reports.map {α β : Type} {o : Outcome α} {ms : List Mistake} (h : Reports o ms) (f : α → β) :
    Reports (o.map f) ms := by
  cases o <;> exact h

theorem Reports.withSpan {α : Type} {o : Outcome α} {ms : List Mistake} (h : Reports o ms) (s : Span) :
    Reports (o.mapErr (·.withSpan s)) ms := by
  cases o with
  | ok v => exact h
  | panic m => exact h
  | err e => exact ⟨h.1, by show reported (e.withSpan s) = ms; rw [reported_withSpan]; exact h.2⟩

theorem Reports.at {α : Type} {o : Outcome α} {ms : List Mistake} (h : Reports o ms) (l : String) :
    Reports (o.mapErr (·.at l)) (ms.map (under l)) := by
  cases o with
  | ok v => simp only [Reports, Outcome.mapErr] at h ⊢; simp [h]
  | panic m => exact h
  | err e =>
      refine ⟨?_, ?_⟩
      · intro hnil; exact h.1 (by simpa using hnil)
      · show reported (e.at l) = ms.map (under l); rw [reported_at, h.2]

theorem Reports.siblingAlts {α : Type} {o : Outcome α} {ms : List Mistake} (h : Reports o ms)
    (thr : Nat) (sc : String → List (String × Nat)) :
    Reports (o.mapErr (Suggest.addSiblingAlts thr sc)) ms := by
  cases o with
  | ok v => exact h
  | panic m => exact h
  | err e => exact ⟨h.1, by show reported (Suggest.addSiblingAlts thr sc e) = ms; rw [reported_siblingAlts]; exact h.2⟩

theorem Reports.not_panic {α : Type} {o : Outcome α} {ms : List Mistake} (h : Reports o ms) (msg : String) :
    o ≠ .panic msg := by
  intro he; subst he; exact h

/-- fails if and only if there is a mistake -/
theorem Reports.fails_iff {α : Type} {o : Outcome α} {ms : List Mistake} (h : Reports o ms) :
    (∃ e, o = .err e) ↔ ms ≠ [] := by
  cases o with
  | ok v => simp only [Reports] at h; simp [h]
  | panic m => exact h.elim
  | err e => exact ⟨fun _ => h.1, fun _ => ⟨e, rfl⟩⟩

/-- a single leaf -/
theorem Reports.leaf {α : Type} (k : Kind) (ls : List String) (s : Option Span) :
    Reports (.err (.leaf k ls s) : Outcome α) [(tagOf k, ls)] :=
  ⟨by simp, reported_leaf k ls s⟩

/-- a list of error values that stands for a list of mistakes: same leaves, and no empty bundle -/
structure Faithful (es : List Err) (ms : List Mistake) : Prop where
  same : reportedAll es = ms
  solid : ∀ e ∈ es, reported e ≠ []

theorem Faithful.nil : Faithful [] [] := ⟨rfl, by simp⟩

theorem Faithful.append {a b : List Err} {x y : List Mistake} (h1 : Faithful a x) (h2 : Faithful b y) :
    Faithful (a ++ b) (x ++ y) :=
  ⟨by rw [reportedAll_append, h1.same, h2.same], by
    intro e he
    rcases List.mem_append.mp he with h | h
    · exact h1.solid e h
    · exact h2.solid e h⟩

theorem Faithful.nil_iff {es : List Err} {ms : List Mistake} (h : Faithful es ms) : es = [] ↔ ms = [] := by
  constructor
  · intro he; subst he; exact h.same.symm
  · intro hm
    cases es with
    | nil => rfl
    | cons e es =>
        exfalso
        have := h.same
        rw [reportedAll_cons, hm] at this
        exact h.solid e (by simp) (List.append_eq_nil_iff.mp this).1

/-- what a conversion contributes to an accumulator: its error, if it fails -/
def errOf {α : Type} : Outcome α → List Err
  | .err e => [e]
  | _ => []

theorem Faithful.of_reports {α : Type} {o : Outcome α} {ms : List Mistake} (h : Reports o ms) :
    Faithful (errOf o) ms := by
  cases o with
  | ok v => simp only [Reports] at h; subst h; exact Faithful.nil
  | panic m => exact h.elim
  | err e =>
      refine ⟨by simp [errOf, reportedAll, h.2], ?_⟩
      intro x hx
      simp only [errOf, List.mem_singleton] at hx
      subst hx; rw [h.2]; exact h.1

/-- `finish()` on an accumulator holding a faithful list judges the input correctly -/
theorem Faithful.bundle {α : Type} {es : List Err} {ms : List Mistake} (h : Faithful es ms) (hne : es ≠ []) :
    Reports (Err.bundleErr es : Outcome α) ms := by
  obtain ⟨e, he, hr⟩ := bundle_reported (α := α) es hne
  rw [he]
  exact ⟨fun hm => hne (h.nil_iff.mpr hm), by rw [hr, h.same]⟩

/-! ### the verdict alone (first sentence of the property): fails iff there is a mistake -/

/-- the outcome is `Ok` when there is no mistake and an error when there is one; never a panic -/
def Verdict {α : Type} (o : Outcome α) (ms : List Mistake) : Prop :=
  match o with
  | .ok _ => ms = []
  | .err _ => ms ≠ []
  | .panic _ => False

theorem Reports.verdict {α : Type} {o : Outcome α} {ms : List Mistake} (h : Reports o ms) : Verdict o ms := by
  cases o with
  | ok v => exact h
  | err e => exact h.1
  | panic p => exact h

theorem Verdict.map {α β : Type} {o : Outcome α} {ms : List Mistake} (h : Verdict o ms) (f : α → β) :
    Verdict (o.map f) ms := by
  cases o <;> exact h

theorem Verdict.mapErr {α : Type} {o : Outcome α} {ms : List Mistake} (h : Verdict o ms) (f : Err → Err) :
    Verdict (o.mapErr f) ms := by
  cases o <;> exact h

theorem Verdict.at {α : Type} {o : Outcome α} {ms : List Mistake} (h : Verdict o ms) (f : Err → Err) (l : String) :
    Verdict (o.mapErr f) (ms.map (under l)) := by
  cases o with
  | ok v => simp only [Verdict] at h; subst h; rfl
  | err e => intro hn; exact h (by simpa using hn)
  | panic p => exact h

theorem Verdict.not_panic {α : Type} {o : Outcome α} {ms : List Mistake} (h : Verdict o ms) (msg : String) :
    o ≠ .panic msg := by
  intro he; subst he; exact h

theorem Verdict.fails_iff {α : Type} {o : Outcome α} {ms : List Mistake} (h : Verdict o ms) :
    (∃ e, o = .err e) ↔ ms ≠ [] := by
  cases o with
  | ok v => simp only [Verdict] at h; simp [h]
  | panic m => exact h.elim
  | err e => exact ⟨fun _ => h, fun _ => ⟨e, rfl⟩⟩

theorem Verdict.ok_iff {α : Type} {o : Outcome α} {ms : List Mistake} (h : Verdict o ms) :
    (∃ v, o = .ok v) ↔ ms = [] := by
  cases o with
  | ok v => simp only [Verdict] at h; simp [h]
  | panic m => exact h.elim
  | err e => simp only [Verdict] at h; simp [h]

theorem Verdict.clean {α : Type} {o : Outcome α} {ms : List Mistake} (h : Verdict o ms) (hm : ms = []) :
    ∃ v, o = .ok v := h.ok_iff.mpr hm

/-- two lists that are empty together -/
def Agree (es : List Err) (ms : List Mistake) : Prop := es = [] ↔ ms = []

theorem Agree.append {a b : List Err} {x y : List Mistake} (h1 : Agree a x) (h2 : Agree b y) :
    Agree (a ++ b) (x ++ y) := by
  unfold Agree at *
  rw [List.append_eq_nil_iff, List.append_eq_nil_iff, h1, h2]

theorem Agree.of_verdict {α : Type} {o : Outcome α} {ms : List Mistake} (h : Verdict o ms) :
    Agree (errOf o) ms := by
  cases o with
  | ok v => simp only [Verdict] at h; simp [Agree, errOf, h]
  | err e => simp only [Verdict] at h; simp [Agree, errOf, h]
  | panic p => exact h.elim

theorem Agree.both {es : List Err} {ms : List Mistake} (h1 : es ≠ []) (h2 : ms ≠ []) : Agree es ms := by
  simp [Agree, h1, h2]

theorem Agree.nil : Agree [] [] := by simp [Agree]

theorem Faithful.agree {es : List Err} {ms : List Mistake} (h : Faithful es ms) : Agree es ms := h.nil_iff

theorem Agree.bundle {α : Type} {es : List Err} {ms : List Mistake} (h : Agree es ms) (hne : es ≠ []) :
    Verdict (Err.bundleErr es : Outcome α) ms := by
  obtain ⟨e, he, _⟩ := bundle_reported (α := α) es hne
  rw [he]
  exact fun hm => hne (h.mpr hm)

/-! ## 3. Struct receivers: what the property text demands, positionally

  A receiver is described by its declaration data (`SStruct`: field names, the `skip`, `flatten`,
  `multiple`, default options, `allow_unknown_fields`) and, for the type of each field, a *reading*:
  which mistakes the text sees in an item supplied as a value of that type.  Nothing below looks at
  a converter, a slot, a `seen` flag or an accumulator. -/

/-- how the property text reads a target type -/
structure Reading where
  /-- the mistakes inside an item `name…` supplied as a value of this type (paths relative to it) -/
  item : Meta → List Mistake
  /-- the mistakes in a bare item list handed to this type (it is a flattened member) -/
  list : List NestedMeta → List Mistake
  /-- not supplying it is fine (the type has a value for "absent") -/
  optional : Bool
  /-- the inputs on which the library returns exactly `item` / `list` (those that avoid the
      discrepancies D1, D2, D4 at every depth inside); the *verdict* never needs them -/
  okItem : Meta → Prop
  okList : List NestedMeta → Prop

variable {ν : Type}

/-- the name an item carries; a bare literal carries none -/
def nameOf : NestedMeta → Option String
  | .item m => some m.path'.toStr
  | .lit _ => none

/-- the field an item name addresses: the first field that is neither skipped nor flattened and
    goes by that name -/
def addressed (r : SStruct ν) (n : String) : Option (SField ν) :=
  r.fields.find? (fun f => !f.skip && !f.flatten && f.name == n)

/-- how many of `items` carry the name `n` -/
def occurrences (items : List NestedMeta) (n : String) : Nat :=
  (items.filter (fun it => nameOf it == some n)).length

/-- the mistakes the item `it` contributes, `earlier` being the items before it -/
def itemMistakes (r : SStruct ν) (rd : SField ν → Reading) (earlier : List NestedMeta) : NestedMeta → List Mistake
  | .lit _ => [(.bareLiteral, [])]                                  -- bare literal where a named item is required
  | .item m =>
      let n := m.path'.toStr
      match addressed r n with
      | none =>
          if r.hasFlatten || r.allowUnknown then []                 -- handed on to the flattened member / tolerated
          else [(.unknownName n, [])]                               -- unknown name
      | some f =>
          if f.multiple then
            -- every occurrence counts; what is wrong inside the k-th occurrence is located at `n[k]`
            ((rd f).item m).map (under (n ++ "[" ++ toString (occurrences earlier n) ++ "]"))
          else
            (if occurrences earlier n > 0 then [(.repeatedName n, [])] else [])   -- repeated name
              ++ ((rd f).item m).map (under n)                      -- whatever is wrong inside it, located at `n`

/-- all item-level mistakes, in item order -/
def walk (r : SStruct ν) (rd : SField ν → Reading) : List NestedMeta → List NestedMeta → List Mistake
  | _, [] => []
  | earlier, it :: rest => itemMistakes r rd earlier it ++ walk r rd (earlier ++ [it]) rest

/-- the items no field claims, in order -/
def strangers (r : SStruct ν) (items : List NestedMeta) : List NestedMeta :=
  items.filter (fun it => match nameOf it with
    | some n => (addressed r n).isNone
    | none => false)

/-- the flattened member is transparent: its own mistakes on the items nobody else claims, with no
    location of its own -/
def flattenMistakes (r : SStruct ν) (rd : SField ν → Reading) (items : List NestedMeta) : List Mistake :=
  match r.fields.find? (·.flatten) with
  | some ff => (rd ff).list (strangers r items)
  | none => []

/-- a field the input has to supply -/
def required (rd : SField ν → Reading) (f : SField ν) : Bool :=
  !f.skip && !f.flatten && !f.multiple && f.dflt.isNone && !(rd f).optional

/-- required item absent: no item carries its name; in declaration order -/
def absentMistakes (r : SStruct ν) (rd : SField ν → Reading) (items : List NestedMeta) : List Mistake :=
  r.fields.filterMap (fun f =>
    if required rd f && occurrences items f.name == 0 then some (.absent f.name, []) else none)

/-- **every mistake of an item list given to a struct receiver** -/
def structMistakes (r : SStruct ν) (rd : SField ν → Reading) (items : List NestedMeta) : List Mistake :=
  walk r rd [] items ++ flattenMistakes r rd items ++ absentMistakes r rd items

/-! ### what a declaration must satisfy for the text to make sense (all guaranteed at derive time
    or by the compiler, except `NamesDistinct`, see discrepancy D5) -/

/-- a skipped field always has a default (`Default::default()` is supplied by the derive) -/
def SkipHasDefault (r : SStruct ν) : Prop := ∀ f ∈ r.fields, f.skip = true → f.dflt.isSome = true
/-- at most one flattened member -/
def OneFlatten (r : SStruct ν) : Prop :=
  ∀ f ∈ r.fields, ∀ g ∈ r.fields, f.flatten = true → g.flatten = true → f = g
/-- no two addressable fields go by the same name -/
def NamesDistinct (r : SStruct ν) : Prop :=
  ∀ f ∈ r.fields, f.skip = false → f.flatten = false → addressed r f.name = some f
/-- the container-level `map` / `and_then` accepts every value (it is a validator of its own, not a
    reader of the input) -/
def PostAccepts (r : SStruct ν) : Prop := ∀ v, ∃ w, r.post v = .ok w

/-- the field behaves as its reading says, in the three ways the generated code uses it:
    the verdict on every input, the exact leaves on the inputs its reading calls `ok` -/
structure FieldReads (f : SField ν) (t : Reading) : Prop where
  vItem : ∀ m, Verdict (f.conv m) (t.item m)
  vList : ∀ items, Verdict (f.fromList items) (t.list items)
  item : ∀ m, t.okItem m → Reports (f.conv m) (t.item m)
  list : ∀ items, t.okList items → Reports (f.fromList items) (t.list items)
  optional : f.fromNone.isSome = t.optional

/-- what the derive (and the compiler) guarantee about a declaration -/
structure Shape (r : SStruct ν) : Prop where
  distinct : Distinct r
  skipDefault : SkipHasDefault r
  oneFlatten : OneFlatten r
  names : NamesDistinct r
  defaults : DefaultsOk r
  post : PostAccepts r

/-- a declaration whose field types behave as their readings say -/
structure Decl (r : SStruct ν) (rd : SField ν → Reading) : Prop extends Shape r where
  reads : ∀ f ∈ r.fields, FieldReads f (rd f)

/-! ### the places where the model (and the library) fall short of the text -/

/-- side condition for one item, given the items before it:
    * (D1) if it repeats the name of a single-valued field, nothing is wrong inside it;
    * (depth) otherwise its value avoids D1, D2, D4 inside, as the field's reading says -/
def ItemOk (r : SStruct ν) (rd : SField ν → Reading) (earlier : List NestedMeta) (it : NestedMeta) : Prop :=
  ∀ m, it = .item m → ∀ f, addressed r m.path'.toStr = some f →
    (f.multiple = false → occurrences earlier m.path'.toStr > 0 → (rd f).item m = []) ∧
    (f.multiple = false → occurrences earlier m.path'.toStr = 0 → (rd f).okItem m) ∧
    (f.multiple = true → (rd f).okItem m)

def WalkOk (r : SStruct ν) (rd : SField ν → Reading) : List NestedMeta → List NestedMeta → Prop
  | _, [] => True
  | earlier, it :: rest => ItemOk r rd earlier it ∧ WalkOk r rd (earlier ++ [it]) rest

/-- the item lists on which a struct receiver returns exactly `structMistakes` -/
def StructOk (r : SStruct ν) (rd : SField ν → Reading) (items : List NestedMeta) : Prop :=
  WalkOk r rd [] items ∧ ∀ ff, r.fields.find? (·.flatten) = some ff → (rd ff).okList (strangers r items)

/-! ### proofs: the model's struct parser computes `structMistakes` -/

section structProofs
open Spec.C02 (selects loopMistakes)

theorem pairwise_inj {α β : Type} (k : α → β) : ∀ (l : List α), l.Pairwise (fun a b => k a ≠ k b) →
    ∀ a ∈ l, ∀ b ∈ l, k a = k b → a = b
  | [], _, a, ha, _, _, _ => by cases ha
  | x :: xs, hp, a, ha, b, hb, hk => by
      rw [List.pairwise_cons] at hp
      rcases List.mem_cons.mp ha with rfl | ha'
      · rcases List.mem_cons.mp hb with rfl | hb'
        · rfl
        · exact absurd hk (hp.1 b hb')
      · rcases List.mem_cons.mp hb with rfl | hb'
        · exact absurd hk.symm (hp.1 a ha')
        · exact pairwise_inj k xs hp.2 a ha' b hb' hk

theorem Decl.wf {r : SStruct ν} {rd : SField ν → Reading} (h : Decl r rd) : WF r where
  identInj := pairwise_inj (fun f : SField ν => f.ident) r.fields h.distinct
  convNoPanic := fun f hf m msg => ((h.reads f hf).vItem m).not_panic msg
  listNoPanic := fun f hf items msg => ((h.reads f hf).vList items).not_panic msg

theorem addressed_eq_arm (r : SStruct ν) (n : String) : addressed r n = r.arm n := rfl

/-- an item selects the field its name addresses, and no other -/
theorem selects_eq_name {r : SStruct ν} (hwf : WF r) {n : String} {f : SField ν} (harm : r.arm n = some f)
    (it : NestedMeta) : selects r f it = (nameOf it == some n) := by
  cases it with
  | lit l => simp [selects, nameOf]
  | item m =>
      by_cases hn : m.path'.toStr = n
      · subst hn
        simp [selects, harm, nameOf]
      · have hrhs : (nameOf (.item m) == some n) = false := by simp [nameOf, hn]
        rw [hrhs]
        simp only [selects]
        cases hg : r.arm m.path'.toStr with
        | none => rfl
        | some g =>
            cases hb : (g.ident == f.ident) with
            | false => simpa using hb
            | true =>
                exfalso
                obtain ⟨hgm, _, _, hgn⟩ := arm_mem r _ g hg
                obtain ⟨hfm, _, _, hfn⟩ := arm_mem r _ f harm
                have : g = f := hwf.identInj g hgm f hfm (by simpa using hb)
                subst this
                exact hn (hgn.symm.trans hfn)

theorem any_selects {r : SStruct ν} (hwf : WF r) {n : String} {f : SField ν} (harm : r.arm n = some f)
    (items : List NestedMeta) : items.any (selects r f) = decide (occurrences items n > 0) := by
  induction items with
  | nil => simp [occurrences]
  | cons it rest ih =>
      simp only [List.any_cons, ih, selects_eq_name hwf harm it, occurrences, List.filter_cons]
      cases hb : (nameOf it == some n) <;> simp

/-- the element index the library prints for an occurrence of a `multiple` field is the number of
    earlier items carrying that name -/
theorem occurrences_eq {r : SStruct ν} (hwf : WF r) {n : String} {f : SField ν} (harm : r.arm n = some f)
    (earlier : List NestedMeta) : Spec.C02.occurrences r f earlier = occurrences earlier n := by
  unfold Spec.C02.occurrences occurrences
  congr 1
  apply List.filter_congr
  intro it _
  exact selects_eq_name hwf harm it

theorem tagOf_literal : tagOf (.unexpectedFormat "literal") = .bareLiteral := by decide
theorem tagOf_expression : tagOf (.unexpectedFormat "expression") = .bareLiteral := by decide

theorem single_faithful (k : Kind) (sp : Span) :
    Faithful [(Err.new k).withSpan sp] [(tagOf k, [])] :=
  ⟨by simp [reportedAll, reported_withSpan, reported_new], by
    intro e he
    simp only [List.mem_singleton] at he
    subst he
    simp [reported_withSpan, reported_new]⟩

/-- one item: the model's contribution is the text's, unless D1 applies -/
theorem item_faithful {r : SStruct ν} {rd : SField ν → Reading} (hd : Decl r rd) (earlier : List NestedMeta)
    (it : NestedMeta) (hok : ItemOk r rd earlier it) :
    Faithful (Spec.C02.itemMistakes r earlier it) (itemMistakes r rd earlier it) := by
  have hwf := hd.wf
  cases it with
  | lit l =>
      have := single_faithful (.unexpectedFormat "literal") l.span
      rw [tagOf_literal] at this
      exact this
  | item m =>
      simp only [Spec.C02.itemMistakes, itemMistakes, addressed_eq_arm]
      cases harm : r.arm m.path'.toStr with
      | none =>
          simp only []
          by_cases hfl : (r.hasFlatten || r.allowUnknown) = true
          · simp only [hfl, if_true]; exact Faithful.nil
          · simp only [hfl, Bool.false_eq_true, if_false]
            exact single_faithful _ m.span
      | some f =>
          obtain ⟨hfm, _, _, hname⟩ := arm_mem r _ f harm
          obtain ⟨hD1, hfresh, hmulti⟩ := hok m rfl f (by rw [addressed_eq_arm]; exact harm)
          simp only []
          cases hmul : f.multiple with
          | true =>
              have hrep := (hd.reads f hfm).item m (hmulti hmul)
              simp only [if_true]
              rw [occurrences_eq hwf harm earlier, hname]
              revert hrep
              generalize f.conv m = o
              intro hrep
              cases o <;> exact Faithful.of_reports ((hrep.withSpan m.span).at _)
          | false =>
              simp only [Bool.false_eq_true, if_false]
              rw [any_selects hwf harm earlier]
              by_cases hocc : occurrences earlier m.path'.toStr > 0
              · simp only [hocc, decide_true, if_true]
                rw [hD1 hmul hocc, hname]
                exact single_faithful (.duplicateField m.path'.toStr) m.span
              · simp only [hocc, decide_false, Bool.false_eq_true, if_false, List.nil_append]
                have hrep := (hd.reads f hfm).item m (hfresh hmul (by omega))
                rw [hname]
                revert hrep
                generalize f.conv m = o
                intro hrep
                cases o <;> exact Faithful.of_reports ((hrep.withSpan m.span).at _)

theorem walk_faithful {r : SStruct ν} {rd : SField ν → Reading} (hd : Decl r rd) :
    ∀ (rest earlier : List NestedMeta), WalkOk r rd earlier rest →
      Faithful (loopMistakes r earlier rest) (walk r rd earlier rest)
  | [], _, _ => Faithful.nil
  | it :: rest, earlier, hok =>
      (item_faithful hd earlier it hok.1).append (walk_faithful hd rest (earlier ++ [it]) hok.2)

theorem hasFlatten_of_find {r : SStruct ν} {ff : SField ν} (h : r.fields.find? (·.flatten) = some ff) :
    r.hasFlatten = true := by
  unfold SStruct.hasFlatten
  rw [List.any_eq_true]
  exact ⟨ff, List.mem_of_find?_eq_some h, by simpa using List.find?_some h⟩

theorem buffered_eq_strangers {r : SStruct ν} (hfl : r.hasFlatten = true) (items : List NestedMeta) :
    Spec.C02.buffered r items = strangers r items := by
  unfold Spec.C02.buffered strangers
  rw [if_pos hfl]
  apply List.filter_congr
  intro it _
  cases it <;> rfl

/-- the model's flatten hand-off, as one conversion outcome -/
theorem flattenMistakes_errOf (r : SStruct ν) (items : List NestedMeta) (ff : SField ν)
    (hff : r.fields.find? (·.flatten) = some ff) :
    ∃ o : Outcome ν, Spec.C02.flattenMistakes r items = errOf o ∧
      (o = ff.fromList (strangers r items) ∨
        o = (ff.fromList (strangers r items)).mapErr
              (Suggest.addSiblingAlts r.thr (fun n => r.names.map (fun a => (a, r.score n a))))) := by
  unfold Spec.C02.flattenMistakes
  simp only [hff, Spec.C02.flattenResult, buffered_eq_strangers (hasFlatten_of_find hff)]
  by_cases hn : r.names.isEmpty = true
  · simp only [hn, if_true]
    refine ⟨ff.fromList (strangers r items), ?_, .inl rfl⟩
    cases ff.fromList (strangers r items) <;> rfl
  · simp only [hn, Bool.false_eq_true, if_false]
    refine ⟨_, ?_, .inr rfl⟩
    cases ff.fromList (strangers r items) <;> rfl

theorem flatten_faithful {r : SStruct ν} {rd : SField ν → Reading} (hd : Decl r rd) (items : List NestedMeta)
    (hok : ∀ ff, r.fields.find? (·.flatten) = some ff → (rd ff).okList (strangers r items)) :
    Faithful (Spec.C02.flattenMistakes r items) (flattenMistakes r rd items) := by
  cases hff : r.fields.find? (·.flatten) with
  | none => simp only [Spec.C02.flattenMistakes, flattenMistakes, hff]; exact Faithful.nil
  | some ff =>
      have hrep := (hd.reads ff (List.mem_of_find?_eq_some hff)).list (strangers r items) (hok ff hff)
      obtain ⟨o, ho, hcase⟩ := flattenMistakes_errOf r items ff hff
      rw [ho]
      simp only [flattenMistakes, hff]
      rcases hcase with rfl | rfl
      · exact Faithful.of_reports hrep
      · exact Faithful.of_reports (hrep.siblingAlts _ _)

theorem flatten_agree {r : SStruct ν} {rd : SField ν → Reading} (hd : Decl r rd) (items : List NestedMeta) :
    Agree (Spec.C02.flattenMistakes r items) (flattenMistakes r rd items) := by
  cases hff : r.fields.find? (·.flatten) with
  | none => simp only [Spec.C02.flattenMistakes, flattenMistakes, hff]; exact Agree.nil
  | some ff =>
      have hv := (hd.reads ff (List.mem_of_find?_eq_some hff)).vList (strangers r items)
      obtain ⟨o, ho, hcase⟩ := flattenMistakes_errOf r items ff hff
      rw [ho]
      simp only [flattenMistakes, hff]
      rcases hcase with rfl | rfl
      · exact Agree.of_verdict hv
      · exact Agree.of_verdict (hv.mapErr _)

theorem isFirstFlatten_of_flatten {r : SStruct ν} {rd : SField ν → Reading} (hd : Decl r rd) {f : SField ν}
    (hf : f ∈ r.fields) (hfl : f.flatten = true) : Spec.C02.isFirstFlatten r f = true := by
  unfold Spec.C02.isFirstFlatten
  cases hff : r.fields.find? (·.flatten) with
  | none =>
      have := List.find?_eq_none.mp hff f hf
      simp [hfl] at this
  | some ff =>
      have : ff = f := hd.oneFlatten ff (List.mem_of_find?_eq_some hff) f hf (by simpa using List.find?_some hff) hfl
      subst this; simp

/-- the presence check of the model and the text's "required and not supplied" agree field by field -/
theorem absent_cond {r : SStruct ν} {rd : SField ν → Reading} (hd : Decl r rd) (items : List NestedMeta)
    {f : SField ν} (hf : f ∈ r.fields) :
    (!f.multiple && f.dflt.isNone && !(items.any (selects r f)) && !(Spec.C02.isFirstFlatten r f) && f.fromNone.isNone)
      = (required rd f && occurrences items f.name == 0) := by
  have hwf := hd.wf
  have hopt := (hd.reads f hf).optional
  unfold required
  rw [← hopt]
  cases hs : f.skip with
  | true =>
      have := hd.skipDefault f hf hs
      cases hdf : f.dflt with
      | none => simp [hdf] at this
      | some d => simp
  | false =>
      cases hfl : f.flatten with
      | true => simp [isFirstFlatten_of_flatten hd hf hfl]
      | false =>
          have harm : r.arm f.name = some f := hd.names f hf hs hfl
          have hnot : Spec.C02.isFirstFlatten r f = false := by
            cases hb : Spec.C02.isFirstFlatten r f with
            | false => rfl
            | true => rw [first_flatten_is_flatten r hwf f hf hb] at hfl; cases hfl
          rw [any_selects hwf harm items, hnot]
          cases f.multiple <;> cases f.dflt <;> cases f.fromNone <;>
            by_cases h0 : occurrences items f.name = 0 <;> simp [h0, Nat.pos_iff_ne_zero]

theorem absent_faithful_aux {r : SStruct ν} {rd : SField ν → Reading} (hd : Decl r rd) (items : List NestedMeta) :
    ∀ (l : List (SField ν)), (∀ f ∈ l, f ∈ r.fields) →
      Faithful
        (l.filterMap (fun f =>
          if !f.multiple && f.dflt.isNone && !(items.any (selects r f)) && !(Spec.C02.isFirstFlatten r f) && f.fromNone.isNone
          then some (Err.new (.missingField f.name)) else none))
        (l.filterMap (fun f =>
          if required rd f && occurrences items f.name == 0 then some ((Tag.absent f.name, []) : Mistake) else none))
  | [], _ => Faithful.nil
  | f :: l, hl => by
      have ih := absent_faithful_aux hd items l (fun x hx => hl x (by simp [hx]))
      have hc := absent_cond hd items (hl f (by simp))
      rw [List.filterMap_cons, List.filterMap_cons, hc]
      cases required rd f && occurrences items f.name == 0 with
      | false => simpa using ih
      | true =>
          have h1 : Faithful [Err.new (.missingField f.name)] [((Tag.absent f.name, []) : Mistake)] :=
            ⟨by simp [reportedAll, reported_new, tagOf], by
              intro e he
              simp only [List.mem_singleton] at he
              subst he
              simp [reported_new]⟩
          simpa using h1.append ih

theorem absent_faithful {r : SStruct ν} {rd : SField ν → Reading} (hd : Decl r rd) (items : List NestedMeta) :
    Faithful (Spec.C02.missing r items) (absentMistakes r rd items) :=
  absent_faithful_aux hd items r.fields (fun _ h => h)

/-! a clean input is accepted -/

theorem fieldValue_not_err (r : SStruct ν) (items : List NestedMeta) (f : SField ν) (e : Err) :
    Spec.C01.fieldValue r items f ≠ .err e := by
  have hdef : ∀ d, Spec.C01.defaultOf r f d ≠ .err e := by
    intro d
    cases d with
    | value v => simp [Spec.C01.defaultOf]
    | inherit => cases hc : r.containerDefault <;> simp [Spec.C01.defaultOf, hc]
  unfold Spec.C01.fieldValue
  cases f.multiple with
  | true =>
      simp only [if_true]
      cases f.dflt with
      | none => simp
      | some d =>
          simp only []
          split
          · simp
          · exact hdef d
  | false =>
      simp only [Bool.false_eq_true, if_false]
      cases (if Spec.C02.isFirstFlatten r f then Spec.C01.flattenValue r items else Spec.C02.firstValue r f items) with
      | some v => simp
      | none =>
          simp only []
          cases f.dflt with
          | some d => exact hdef d
          | none => cases f.fromNone <;> simp

theorem collect_not_err (l : List (String × Outcome ν)) (h : ∀ x ∈ l, ∀ e, x.2 ≠ .err e) :
    ∀ e, Spec.C01.collect l ≠ .err e := by
  induction l with
  | nil => intro e; simp [Spec.C01.collect]
  | cons x xs ih =>
      intro e
      obtain ⟨k, o⟩ := x
      have hx := h (k, o) (by simp)
      have ih' := ih (fun y hy => h y (by simp [hy]))
      simp only [Spec.C01.collect]
      cases o with
      | ok v =>
          simp only []
          cases hc : Spec.C01.collect xs with
          | ok kvs => simp [Outcome.map]
          | err e' => exact absurd hc (ih' e')
          | panic p => simp [Outcome.map]
      | err e' => exact absurd rfl (hx e')
      | panic p => simp

theorem clean_accepted {r : SStruct ν} {rd : SField ν → Reading} (hd : Decl r rd) (items : List NestedMeta)
    (hclean : Spec.C02.mistakes r items = []) : ∃ v, fromList r items = .ok v := by
  have hwf := hd.wf
  have hnp := fromList_never_panics r hwf hd.distinct hd.defaults
    (fun v msg => by obtain ⟨w, hw⟩ := hd.post v; rw [hw]; simp) items
  rw [fromList_value r hwf hd.distinct items hclean] at hnp ⊢
  unfold Spec.C01.expected at hnp ⊢
  have hne := collect_not_err (r.fields.map (fun f => (f.ident, Spec.C01.fieldValue r items f)))
    (by
      intro x hx e
      simp only [List.mem_map] at hx
      obtain ⟨f, _, rfl⟩ := hx
      exact fieldValue_not_err r items f e)
  cases hc : Spec.C01.collect (r.fields.map (fun f => (f.ident, Spec.C01.fieldValue r items f))) with
  | ok kvs => simp only []; exact hd.post _
  | err e => exact absurd hc (hne e)
  | panic p => rw [hc] at hnp; exact absurd rfl (hnp p)

theorem mistakes_faithful {r : SStruct ν} {rd : SField ν → Reading} (hd : Decl r rd) (items : List NestedMeta)
    (hok : StructOk r rd items) : Faithful (Spec.C02.mistakes r items) (structMistakes r rd items) :=
  ((walk_faithful hd items [] hok.1).append (flatten_faithful hd items hok.2)).append (absent_faithful hd items)

/-! the verdict needs no side condition: D1 changes *which* leaves are returned, never whether
    parsing fails -/

theorem item_agree {r : SStruct ν} {rd : SField ν → Reading} (hd : Decl r rd) (earlier : List NestedMeta)
    (it : NestedMeta) : Agree (Spec.C02.itemMistakes r earlier it) (itemMistakes r rd earlier it) := by
  have hwf := hd.wf
  cases it with
  | lit l => simp [Agree, Spec.C02.itemMistakes, itemMistakes]
  | item m =>
      simp only [Agree, Spec.C02.itemMistakes, itemMistakes, addressed_eq_arm]
      cases harm : r.arm m.path'.toStr with
      | none =>
          simp only []
          by_cases hfl : (r.hasFlatten || r.allowUnknown) = true
          · simp [hfl]
          · simp [hfl]
      | some f =>
          obtain ⟨hfm, _, _, hname⟩ := arm_mem r _ f harm
          have hv := (hd.reads f hfm).vItem m
          simp only []
          cases hmul : f.multiple with
          | true =>
              simp only [if_true, List.map_eq_nil_iff]
              revert hv
              generalize f.conv m = o
              intro hv
              cases o with
              | ok v => simpa [Verdict] using hv
              | panic p => exact hv.elim
              | err e => simpa [Verdict] using hv
          | false =>
              simp only [Bool.false_eq_true, if_false]
              rw [any_selects hwf harm earlier]
              by_cases hocc : occurrences earlier m.path'.toStr > 0
              · simp [hocc]
              · simp only [hocc, decide_false, Bool.false_eq_true, if_false, List.nil_append,
                  List.map_eq_nil_iff]
                revert hv
                generalize f.conv m = o
                intro hv
                cases o with
                | ok v => simpa [Verdict] using hv
                | panic p => exact hv.elim
                | err e => simpa [Verdict] using hv

theorem walk_agree {r : SStruct ν} {rd : SField ν → Reading} (hd : Decl r rd) :
    ∀ (rest earlier : List NestedMeta), Agree (loopMistakes r earlier rest) (walk r rd earlier rest)
  | [], _ => Agree.nil
  | it :: rest, earlier => (item_agree hd earlier it).append (walk_agree hd rest (earlier ++ [it]))

theorem mistakes_agree {r : SStruct ν} {rd : SField ν → Reading} (hd : Decl r rd) (items : List NestedMeta) :
    Agree (Spec.C02.mistakes r items) (structMistakes r rd items) :=
  ((walk_agree hd items []).append (flatten_agree hd items)).append (absent_faithful hd items).agree

end structProofs

/-- **C02 for struct receivers, against the text** (conditional: `StructOk` excludes D1).
    For every declaration, every reading of its field types that the fields meet, and every item
    list: the generated parser succeeds exactly when the text sees no mistake, and otherwise
    returns an error whose leaves are, one for one and in order, the mistakes the text sees — each
    with its tag (naming the item) and its outer-to-inner path. -/
theorem struct_reports_partial {r : SStruct ν} {rd : SField ν → Reading} (hd : Decl r rd) (items : List NestedMeta)
    (hok : StructOk r rd items) : Reports (fromList r items) (structMistakes r rd items) := by
  have hf := mistakes_faithful hd items hok
  by_cases hm : Spec.C02.mistakes r items = []
  · obtain ⟨v, hv⟩ := clean_accepted hd items hm
    rw [hv]
    exact hf.nil_iff.mp hm
  · rw [fromList_reports_exactly_the_mistakes r hd.wf hd.distinct items hm]
    exact hf.bundle hm

/-- **C02, first sentence, struct receivers — no side condition on the input**: parsing fails if
    and only if the input contains at least one mistake (as the text reads it, at any depth the
    field readings reach), and otherwise succeeds; it never panics. -/
theorem struct_verdict {r : SStruct ν} {rd : SField ν → Reading} (hd : Decl r rd) (items : List NestedMeta) :
    Verdict (fromList r items) (structMistakes r rd items) := by
  have ha := mistakes_agree hd items
  by_cases hm : Spec.C02.mistakes r items = []
  · obtain ⟨v, hv⟩ := clean_accepted hd items hm
    rw [hv]
    exact ha.mp hm
  · rw [fromList_reports_exactly_the_mistakes r hd.wf hd.distinct items hm]
    exact ha.bundle hm

theorem struct_fails_iff {r : SStruct ν} {rd : SField ν → Reading} (hd : Decl r rd) (items : List NestedMeta) :
    ((∃ e, fromList r items = .err e) ↔ structMistakes r rd items ≠ [])
      ∧ ((∃ v, fromList r items = .ok v) ↔ structMistakes r rd items = []) :=
  ⟨(struct_verdict hd items).fails_iff, (struct_verdict hd items).ok_iff⟩

/-! ## 4. Enum receivers -/

/-- the variant a name selects: the first variant that is not skipped and goes by that name -/
def selectedVariant (e : SEnum ν) (n : String) : Option (SVariant ν) :=
  e.variants.find? (fun v => !v.skip && v.name == n)

/-- what is wrong with the item `m` that names variant `v`, relative to that item:
    a unit variant wants a bare name, a newtype variant whatever its inner type wants (`nt`), a
    struct variant a list of items for its fields (`sf`) -/
def variantContent (nt : SVariant ν → Reading) (sf : SVariant ν → SField ν → Reading)
    (v : SVariant ν) (m : Meta) : List Mistake :=
  match v.kind with
  | .unit _ => (match m with
      | .path _ => []
      | _ => [(.rejected, [])])
  | .newtype _ _ _ => (nt v).item m
  | .struct s => (match m with
      | .list _ items none _ _ _ => structMistakes s (sf v) items
      | _ => [(.rejected, [])])

/-- the mistakes in one item of the list given to an enum -/
def enumItem (e : SEnum ν) (nt : SVariant ν → Reading) (sf : SVariant ν → SField ν → Reading) :
    NestedMeta → List Mistake
  | .lit _ => [(.bareLiteral, [])]
  | .item m => match selectedVariant e m.path'.toStr with
      | none => [(.unknownName m.path'.toStr, [])]
      | some v => (variantContent nt sf v m).map (under v.name)

/-- **every mistake of an item list given to an enum receiver**: a wrong item count, and whatever
    is wrong with each item -/
def enumMistakes (e : SEnum ν) (nt : SVariant ν → Reading) (sf : SVariant ν → SField ν → Reading)
    (items : List NestedMeta) : List Mistake :=
  (if items.length = 1 then [] else [(.wrongCount, [])]) ++ items.flatMap (enumItem e nt sf)

/-- the variants behave as their readings say -/
structure EnumDecl (e : SEnum ν) (nt : SVariant ν → Reading) (sf : SVariant ν → SField ν → Reading) : Prop where
  vNewtype : ∀ v ∈ e.variants, ∀ fm fn wrap, v.kind = .newtype fm fn wrap → ∀ m, Verdict (fm m) ((nt v).item m)
  newtype : ∀ v ∈ e.variants, ∀ fm fn wrap, v.kind = .newtype fm fn wrap →
    ∀ m, (nt v).okItem m → Reports (fm m) ((nt v).item m)
  newtypeNone : ∀ v ∈ e.variants, ∀ fm fn wrap, v.kind = .newtype fm fn wrap → fn.isSome = (nt v).optional
  struct : ∀ v ∈ e.variants, ∀ s, v.kind = .struct s → Decl s (sf v)

/-- the item lists on which an enum receiver returns exactly `enumMistakes`:
    * (D2) when the count is wrong, nothing else is wrong with any item;
    * (D4) a unit variant is given as a bare name and a struct variant as a list `name(...)`
      (a list that does not parse is fine: that error is located under the variant's name);
    * (depth) the content of a newtype or struct variant avoids D1, D2, D4 inside -/
structure EnumOk (e : SEnum ν) (nt : SVariant ν → Reading) (sf : SVariant ν → SField ν → Reading)
    (items : List NestedMeta) : Prop where
  countOnly : items.length ≥ 2 → ∀ it ∈ items, enumItem e nt sf it = []
  formFits : ∀ m, items = [.item m] → ∀ v, selectedVariant e m.path'.toStr = some v →
    (∀ val, v.kind = .unit val → ∃ p, m = .path p) ∧
    (∀ fm fn wrap, v.kind = .newtype fm fn wrap → (nt v).okItem m) ∧
    (∀ s, v.kind = .struct s →
      (∃ p its bad ts tk sp, m = .list p its bad ts tk sp) ∧
      (∀ p its ts tk sp, m = .list p its none ts tk sp → StructOk s (sf v) its))

/-- the struct-variant arm is the struct parser, with the variant's name put in front of the paths -/
theorem variant_struct_eq {s : SStruct ν} {rd : SField ν → Reading} (hd : Decl s rd) (items : List NestedMeta)
    (l : String) :
    ∃ st0, coreLoop s {} items = .ok st0 ∧
      finishStruct s true (some l) st0 = (fromList s items).mapErr (·.at l) := by
  obtain ⟨st0, st1, h0, h1, herrs, _⟩ := before_check s hd.wf hd.distinct items
  refine ⟨st0, h0, ?_⟩
  cases hm : Spec.C02.mistakes s items with
  | nil =>
      obtain ⟨v, hv⟩ := clean_accepted hd items hm
      unfold fromList at hv ⊢
      rw [h0] at hv ⊢
      simp only [finishStruct, if_true, h1] at hv ⊢
      rw [herrs, hm] at hv ⊢
      simp only [] at hv ⊢
      rw [hv]
      rfl
  | cons x xs =>
      unfold fromList
      rw [h0]
      simp only [finishStruct, if_true, h1]
      rw [herrs, hm]

theorem selectedVariant_eq_arm (e : SEnum ν) (n : String) : selectedVariant e n = e.arm n := rfl

theorem enum_unknown_reported (e : SEnum ν) (n : String) (sp : Span) :
    reported ((e.unknownErr n).withSpan sp) = [(.unknownName n, [])] := by
  rw [reported_withSpan]
  unfold SEnum.unknownErr
  split <;> exact reported_new _

/-- a wrong form, located under the variant's name -/
theorem wrongForm_reports {α : Type} (k : Kind) (hk : tagOf k = .rejected) (sp : Option Span) (l : String) :
    Reports (.err ((Err.leaf k [] sp).at l) : Outcome α) [(Tag.rejected, [l])] := by
  have h := (Reports.leaf (α := α) k [] sp).at l
  rw [hk] at h
  exact h

/-- **C02 for enum receivers, against the text** (conditional: `EnumOk` excludes D2, D4 and, inside a
    newtype or struct variant, D1, D2, D4) -/
theorem enum_reports_partial {e : SEnum ν} {nt : SVariant ν → Reading} {sf : SVariant ν → SField ν → Reading}
    (hd : EnumDecl e nt sf) (items : List NestedMeta) (hok : EnumOk e nt sf items) :
    Reports (enumFromList e items) (enumMistakes e nt sf items) := by
  match items, hok with
  | [], _ =>
      exact ⟨by simp [enumMistakes], by simp [enumMistakes, reported_new, tagOf]⟩
  | [.lit l], _ =>
      refine ⟨by simp [enumMistakes, enumItem], ?_⟩
      show reported (Err.unsupportedFormat "literal") = _
      simp [enumMistakes, enumItem, Err.unsupportedFormat, reported_new, tagOf_literal]
  | a :: b :: rest, hok =>
      have hall := hok.countOnly (by simp)
      have hflat : (a :: b :: rest).flatMap (enumItem e nt sf) = [] := by
        rw [List.flatMap_eq_nil_iff]; exact hall
      have hspec : enumMistakes e nt sf (a :: b :: rest) = [(.wrongCount, [])] := by
        simp [enumMistakes, hflat]
      rw [hspec]
      cases a <;> exact ⟨by simp, reported_new _⟩
  | [.item m], hok =>
      have hlen : enumMistakes e nt sf [.item m] = enumItem e nt sf (.item m) := by
        simp [enumMistakes]
      rw [hlen]
      simp only [enumFromList, enumItem, selectedVariant_eq_arm]
      cases harm : e.arm m.path'.toStr with
      | none => exact ⟨by simp, enum_unknown_reported e _ _⟩
      | some v =>
          have hv : v ∈ e.variants := List.mem_of_find?_eq_some harm
          obtain ⟨hunit, hnew, hstruct⟩ := hok.formFits m rfl v (by rw [selectedVariant_eq_arm]; exact harm)
          -- the span of the selecting item, attached on the way out, changes no leaf's kind or path
          refine Reports.withSpan ?_ m.span
          simp only [dataArm, variantContent]
          cases hk : v.kind with
          | unit val =>
              obtain ⟨p, rfl⟩ := hunit val hk
              simp [Reports]
          | newtype fm fn wrap =>
              exact ((hd.newtype v hv fm fn wrap hk m (hnew fm fn wrap hk)).at v.name).map wrap
          | struct s =>
              have hds := hd.struct v hv s hk
              obtain ⟨⟨p, its, bad, ts, tk, sp, rfl⟩, hso⟩ := hstruct s hk
              cases bad with
              | some b => exact wrongForm_reports _ rfl (some b.2) v.name
              | none =>
                  have hw := hso p its ts tk sp rfl
                  simp only []
                  obtain ⟨st0, h0, hfin⟩ := variant_struct_eq hds its v.name
                  rw [h0]
                  simp only []
                  rw [hfin]
                  exact (struct_reports_partial hds its hw).at v.name

/-- **C02, first sentence, enum receivers — no side condition on the input** -/
theorem enum_verdict {e : SEnum ν} {nt : SVariant ν → Reading} {sf : SVariant ν → SField ν → Reading}
    (hd : EnumDecl e nt sf) (items : List NestedMeta) :
    Verdict (enumFromList e items) (enumMistakes e nt sf items) := by
  match items with
  | [] => simp [Verdict, enumFromList, enumMistakes]
  | [.lit l] => simp [Verdict, enumFromList, enumMistakes, enumItem]
  | a :: b :: rest => cases a <;> simp [Verdict, enumFromList, enumMistakes]
  | [.item m] =>
      have hlen : enumMistakes e nt sf [.item m] = enumItem e nt sf (.item m) := by
        simp [enumMistakes]
      rw [hlen]
      simp only [enumFromList, enumItem, selectedVariant_eq_arm]
      cases harm : e.arm m.path'.toStr with
      | none => simp [Verdict]
      | some v =>
          have hv : v ∈ e.variants := List.mem_of_find?_eq_some harm
          refine Verdict.mapErr ?_ (·.withSpan m.span)
          simp only [dataArm, variantContent]
          cases hk : v.kind with
          | unit val => cases m <;> simp [Verdict]
          | newtype fm fn wrap => exact ((hd.vNewtype v hv fm fn wrap hk m).at _ v.name).map wrap
          | struct s =>
              have hds := hd.struct v hv s hk
              cases m with
              | path p => simp [Verdict]
              | nameValue p ex tk sp => simp [Verdict]
              | list p its bad ts tk sp =>
                  cases bad with
                  | some b => simp [Verdict]
                  | none =>
                      simp only []
                      obtain ⟨st0, h0, hfin⟩ := variant_struct_eq hds its v.name
                      rw [h0]
                      simp only []
                      rw [hfin]
                      exact (struct_verdict hds its).at _ v.name

/-! ## 5. Keyed collections (map values) -/

/-- the key an item name stands for; `none`: the name cannot be a key of this kind -/
def keyText (k : Maps.KeyKind) (p : Path) : Option String :=
  match k with
  | .string => some p.toStr
  | .path => some p.toks
  | .ident => p.getIdent

/-- how a key is named in a message: a path-keyed collection shows the name as written -/
def shownKey (k : Maps.KeyKind) (p : Path) (key : String) : String :=
  match k with
  | .path => p.toStr
  | _ => key

/-- does an earlier item stand for the key `key`? -/
def keyTaken (k : Maps.KeyKind) (earlier : List NestedMeta) (key : String) : Bool :=
  earlier.any (fun it => match it with
    | .item m' => keyText k m'.path' == some key
    | .lit _ => false)

/-- the mistakes one entry contributes: a bare literal; a name that cannot be a key, or a key
    already taken; and — in every case — whatever is wrong inside its value, located at its name -/
def mapItem (k : Maps.KeyKind) (vr : Reading) (earlier : List NestedMeta) : NestedMeta → List Mistake
  | .lit _ => [(.bareLiteral, [])]
  | .item m =>
      (match keyText k m.path' with
       | none => [(.rejected, [])]
       | some key =>
           if keyTaken k earlier key
           then [(.repeatedName (shownKey k m.path' key), [])]
           else [])
        ++ (vr.item m).map (under m.path'.toStr)

def mapWalk (k : Maps.KeyKind) (vr : Reading) : List NestedMeta → List NestedMeta → List Mistake
  | _, [] => []
  | earlier, it :: rest => mapItem k vr earlier it ++ mapWalk k vr (earlier ++ [it]) rest

/-- **every mistake of an item list given to a keyed collection** -/
def mapMistakes (k : Maps.KeyKind) (vr : Reading) (items : List NestedMeta) : List Mistake :=
  mapWalk k vr [] items

/-- the entry values avoid D1, D2, D4 inside -/
def MapOk (vr : Reading) (items : List NestedMeta) : Prop := ∀ m, NestedMeta.item m ∈ items → vr.okItem m

section mapProofs
variable {α : Type}

theorem keyOf_text (k : Maps.KeyKind) (p : Path) :
    Maps.keyOf k p = (match keyText k p with
      | some s => .ok s
      | none => .error (.leaf (.custom "Key must be an identifier") [] (some p.span))) := by
  cases k with
  | string => rfl
  | path => rfl
  | ident => simp only [Maps.keyOf, keyText]; cases p.getIdent <;> rfl

theorem repeated_eq (k : Maps.KeyKind) (earlier : List NestedMeta) (key : String) :
    Spec.C14.repeated (Maps.keyOf k) earlier key = keyTaken k earlier key := by
  unfold Spec.C14.repeated keyTaken
  congr 1
  funext it
  cases it with
  | lit l => rfl
  | item m' =>
      simp only [Spec.C14.nameOf?, keyOf_text]
      cases keyText k m'.path' <;> simp

/-- the shape of the model's contribution for one entry: a key part and a value part -/
theorem mapItem_shape (k : Maps.KeyKind) (h : Hooks α) (earlier : List NestedMeta) (m : Meta)
    (hnp : ∀ msg, h.fromMeta m ≠ .panic msg) :
    Spec.C14.itemMistakes (Maps.keyOf k) (C14.dupErr k) (C14.conv h) earlier (.item m)
      = (match keyText k m.path' with
          | none => [Err.leaf (.custom "Key must be an identifier") [] (some m.path'.span)]
          | some key => if keyTaken k earlier key then [C14.dupErr k key m.path'] else [])
        ++ errOf ((h.fromMeta m).mapErr (·.at m.path'.toStr)) := by
  simp only [Spec.C14.itemMistakes, keyOf_text, C14.conv]
  cases ho : h.fromMeta m with
  | panic p => exact absurd ho (hnp p)
  | ok v =>
      cases keyText k m.path' with
      | none => rfl
      | some key => simp [repeated_eq, errOf, Outcome.mapErr]
  | err e =>
      cases keyText k m.path' with
      | none => rfl
      | some key => simp [repeated_eq, errOf, Outcome.mapErr]

theorem keyPart_faithful (k : Maps.KeyKind) (earlier : List NestedMeta) (m : Meta) :
    Faithful
      (match keyText k m.path' with
        | none => [Err.leaf (.custom "Key must be an identifier") [] (some m.path'.span)]
        | some key => if keyTaken k earlier key then [C14.dupErr k key m.path'] else [])
      (match keyText k m.path' with
        | none => [((Tag.rejected, []) : Mistake)]
        | some key => if keyTaken k earlier key then [(.repeatedName (shownKey k m.path' key), [])] else []) := by
  cases keyText k m.path' with
  | none => exact ⟨by simp [reportedAll, reported_leaf, tagOf], by simp [reported_leaf]⟩
  | some key =>
      simp only []
      cases keyTaken k earlier key with
      | false => exact Faithful.nil
      | true =>
          simp only [if_true]
          unfold C14.dupErr
          have := single_faithful (.duplicateField (Maps.keyDisplay k key m.path')) m.path'.span
          cases k <;> exact this

theorem mapItem_faithful (k : Maps.KeyKind) (h : Hooks α) (vr : Reading)
    (earlier : List NestedMeta) (it : NestedMeta)
    (hv : ∀ m, it = .item m → Reports (h.fromMeta m) (vr.item m)) :
    Faithful (Spec.C14.itemMistakes (Maps.keyOf k) (C14.dupErr k) (C14.conv h) earlier it)
      (mapItem k vr earlier it) := by
  cases it with
  | lit l =>
      exact ⟨by simp [Spec.C14.itemMistakes, mapItem, reportedAll, Err.unsupportedFormat, reported_new, tagOf_expression],
        by simp [Spec.C14.itemMistakes, Err.unsupportedFormat, reported_new]⟩
  | item m =>
      have hrep := hv m rfl
      rw [mapItem_shape k h earlier m (fun msg => hrep.not_panic msg)]
      exact (keyPart_faithful k earlier m).append (Faithful.of_reports (hrep.at _))

theorem mapItem_agree (k : Maps.KeyKind) (h : Hooks α) (vr : Reading)
    (hv : ∀ m, Verdict (h.fromMeta m) (vr.item m)) (earlier : List NestedMeta) (it : NestedMeta) :
    Agree (Spec.C14.itemMistakes (Maps.keyOf k) (C14.dupErr k) (C14.conv h) earlier it)
      (mapItem k vr earlier it) := by
  cases it with
  | lit l => simp [Agree, Spec.C14.itemMistakes, mapItem]
  | item m =>
      rw [mapItem_shape k h earlier m (fun msg => (hv m).not_panic msg)]
      exact (keyPart_faithful k earlier m).agree.append (Agree.of_verdict ((hv m).at _ _))

theorem mapWalk_faithful (k : Maps.KeyKind) (h : Hooks α) (vr : Reading) :
    ∀ (rest earlier : List NestedMeta), (∀ m, NestedMeta.item m ∈ rest → Reports (h.fromMeta m) (vr.item m)) →
      Faithful (Spec.C14.mistakes (Maps.keyOf k) (C14.dupErr k) (C14.conv h) earlier rest) (mapWalk k vr earlier rest)
  | [], _, _ => Faithful.nil
  | it :: rest, earlier, hv =>
      (mapItem_faithful k h vr earlier it (fun m hm => hv m (by simp [hm]))).append
        (mapWalk_faithful k h vr rest (earlier ++ [it]) (fun m hm => hv m (by simp [hm])))

theorem mapWalk_agree (k : Maps.KeyKind) (h : Hooks α) (vr : Reading)
    (hv : ∀ m, Verdict (h.fromMeta m) (vr.item m)) :
    ∀ (rest earlier : List NestedMeta),
      Agree (Spec.C14.mistakes (Maps.keyOf k) (C14.dupErr k) (C14.conv h) earlier rest) (mapWalk k vr earlier rest)
  | [], _ => Agree.nil
  | it :: rest, earlier =>
      (mapItem_agree k h vr hv earlier it).append (mapWalk_agree k h vr hv rest (earlier ++ [it]))

theorem isEmpty_false_of_ne {β : Type} {l : List β} (h : l ≠ []) : l.isEmpty = false := by
  cases l with
  | nil => exact absurd rfl h
  | cons _ _ => rfl

end mapProofs

/-- **C02 for keyed collections, against the text**: nothing of the collection's own needs a side
    condition — a repeated key does *not* hide what is wrong inside its value (contrast D1); `MapOk`
    only passes the depth condition on to the values -/
theorem map_reports {α : Type} (k : Maps.KeyKind) (h : Hooks α) (vr : Reading)
    (hvv : ∀ m, Verdict (h.fromMeta m) (vr.item m))
    (hv : ∀ m, vr.okItem m → Reports (h.fromMeta m) (vr.item m)) (items : List NestedMeta) (hok : MapOk vr items) :
    Reports (Maps.fromList k h items) (mapMistakes k vr items) := by
  have hf := mapWalk_faithful k h vr items [] (fun m hm => hv m (hok m hm))
  rw [C14.fromList_spec k h (fun m msg => (hvv m).not_panic msg) items]
  simp only []
  by_cases hm : Spec.C14.mistakes (Maps.keyOf k) (C14.dupErr k) (C14.conv h) [] items = []
  · rw [hm]
    exact hf.nil_iff.mp hm
  · rw [isEmpty_false_of_ne hm]
    exact hf.bundle hm

theorem map_verdict {α : Type} (k : Maps.KeyKind) (h : Hooks α) (vr : Reading)
    (hvv : ∀ m, Verdict (h.fromMeta m) (vr.item m)) (items : List NestedMeta) :
    Verdict (Maps.fromList k h items) (mapMistakes k vr items) := by
  have ha := mapWalk_agree k h vr hvv items []
  rw [C14.fromList_spec k h (fun m msg => (hvv m).not_panic msg) items]
  simp only []
  by_cases hm : Spec.C14.mistakes (Maps.keyOf k) (C14.dupErr k) (C14.conv h) [] items = []
  · rw [hm]
    exact ha.mp hm
  · rw [isEmpty_false_of_ne hm]
    exact ha.bundle hm

/-! ## 6. Nesting: receivers as field types, to any depth -/

/-- a `FromMeta` implementation behaves as a reading says -/
structure Meets (h : Hooks ν) (t : Reading) : Prop where
  vItem : ∀ m, Verdict (h.fromMeta m) (t.item m)
  vList : ∀ items, Verdict (h.fromList items) (t.list items)
  item : ∀ m, t.okItem m → Reports (h.fromMeta m) (t.item m)
  list : ∀ items, t.okList items → Reports (h.fromList items) (t.list items)
  optional : h.fromNone.isSome = t.optional

/-- the field's converter, flatten hand-off and value-for-absent are those of its type -/
def Tied (f : SField ν) (h : Hooks ν) : Prop :=
  f.conv = h.fromMeta ∧ f.fromList = h.fromList ∧ f.fromNone = h.fromNone

theorem FieldReads.of_meets {f : SField ν} {h : Hooks ν} {t : Reading} (hm : Meets h t) (ht : Tied f h) :
    FieldReads f t := by
  obtain ⟨hc, hl, hn⟩ := ht
  exact ⟨by rw [hc]; exact hm.vItem, by rw [hl]; exact hm.vList, by rw [hc]; exact hm.item,
    by rw [hl]; exact hm.list, by rw [hn]; exact hm.optional⟩

/-! ### the three forms of an item (`name`, `name(...)`, `name = value`) -/

/-- how an item reaches a type that reads item lists: by its form -/
def routed (word : List Mistake) (list : List NestedMeta → List Mistake) (value : Expr → List Mistake) :
    Meta → List Mistake
  | .path _ => word
  | .list _ items none _ _ _ => list items
  | .list _ _ (some _) _ _ _ => [(.rejected, [])]      -- the list itself does not parse
  | .nameValue _ e _ _ => value e

def okRouted (okList : List NestedMeta → Prop) : Meta → Prop
  | .list _ items none _ _ _ => okList items
  | _ => True

section routing
variable {α : Type}

theorem tagOf_format_other (f : String) (h1 : f ≠ "literal") (h2 : f ≠ "expression") :
    tagOf (.unexpectedFormat f) = .rejected := by
  simp [tagOf, h1, h2]

theorem routed_verdict (h : Hooks α) (hm : h.fromMeta? = none) {word : List Mistake}
    {list : List NestedMeta → List Mistake} {value : Expr → List Mistake}
    (hw : Verdict h.fromWord word) (hl : ∀ items, Verdict (h.fromList items) (list items))
    (he : ∀ e, Verdict (h.fromExpr e) (value e)) :
    ∀ m, Verdict (h.fromMeta m) (routed word list value m) := by
  intro m
  simp only [Hooks.fromMeta, hm]
  cases m with
  | path p => exact hw.mapErr _
  | nameValue p e tk sp => exact (he e).mapErr _
  | list p items bad ts tk sp =>
      cases bad with
      | none => exact (hl items).mapErr _
      | some b => simp [Hooks.fromMetaD, routed, Verdict]

theorem routed_reports (h : Hooks α) (hm : h.fromMeta? = none) {word : List Mistake}
    {list : List NestedMeta → List Mistake} {value : Expr → List Mistake} {okList : List NestedMeta → Prop}
    (hw : Reports h.fromWord word) (hl : ∀ items, okList items → Reports (h.fromList items) (list items))
    (he : ∀ e, Reports (h.fromExpr e) (value e)) :
    ∀ m, okRouted okList m → Reports (h.fromMeta m) (routed word list value m) := by
  intro m hok
  simp only [Hooks.fromMeta, hm]
  cases m with
  | path p => exact hw.withSpan _
  | nameValue p e tk sp => exact (he e).withSpan _
  | list p items bad ts tk sp =>
      cases bad with
      | none => exact (hl items hok).withSpan _
      | some b => exact Reports.leaf _ _ _

/-- a type without hooks for literals and expressions -/
structure NoValueHooks (h : Hooks α) : Prop where
  e : h.fromExpr? = none
  v : h.fromValue? = none
  s : h.fromString? = none
  b : h.fromBool? = none
  c : h.fromChar? = none

theorem newErr_rejected (k : Kind) (hk : tagOf k = .rejected) :
    Reports (.err (Err.new k) : Outcome α) [(.rejected, [])] := by
  have := Reports.leaf (α := α) k [] none
  rw [hk] at this
  exact this

theorem fromValueD_rejected (h : Hooks α) (hn : NoValueHooks h) (l : Lit) :
    Reports (h.fromValueD l) [(.rejected, [])] := by
  unfold Hooks.fromValueD
  apply Reports.withSpan
  cases l.v <;>
    first
    | exact newErr_rejected _ rfl
    | (simp only [Hooks.fromBool, Hooks.fromString, Hooks.fromChar, hn.s, hn.b, hn.c]; exact newErr_rejected _ rfl)
    | exact Reports.leaf _ _ _

theorem fromExprD_rejected (h : Hooks α) (hn : NoValueHooks h) :
    ∀ e, Reports (h.fromExprD e) [(.rejected, [])]
  | .lit l => by
      simp only [Hooks.fromExprD, Hooks.fromValue, hn.v]
      exact (fromValueD_rejected h hn l).withSpan _
  | .group g sp => by
      simp only [Hooks.fromExprD]
      exact (fromExprD_rejected h hn g).withSpan _
  | .path p sp => by simp only [Hooks.fromExprD]; exact (Reports.leaf _ _ _).withSpan _
  | .qpath p t sp => by simp only [Hooks.fromExprD]; exact (Reports.leaf _ _ _).withSpan _
  | .array es t sp => by simp only [Hooks.fromExprD]; exact (Reports.leaf _ _ _).withSpan _
  | .other k t sp => by simp only [Hooks.fromExprD]; exact (Reports.leaf _ _ _).withSpan _

theorem fromExpr_rejected (h : Hooks α) (hn : NoValueHooks h) (e : Expr) :
    Reports (h.fromExpr e) [(.rejected, [])] := by
  simp only [Hooks.fromExpr, hn.e]
  exact fromExprD_rejected h hn e

theorem fromList_default_rejected (h : Hooks α) (hl : h.fromList? = none) (items : List NestedMeta) :
    Reports (h.fromList items) [(.rejected, [])] := by
  simp only [Hooks.fromList, hl]
  exact newErr_rejected _ (by decide)

theorem fromWord_default_rejected (h : Hooks α) (hw : h.fromWord? = none) :
    Reports h.fromWord [(.rejected, [])] := by
  simp only [Hooks.fromWord, hw]
  exact newErr_rejected _ (by decide)

end routing

/-! ### struct receivers as types -/

def wordMistakes (wordOk : Bool) : List Mistake := if wordOk then [] else [(.rejected, [])]

/-- a derived struct receiver used as a type: a list form is read field by field; the bare name is
    fine only with a `from_word`; `name = value` is rejected -/
def structReading (r : SStruct ν) (rd : SField ν → Reading) (wordOk optional : Bool) : Reading where
  item := routed (wordMistakes wordOk) (structMistakes r rd) (fun _ => [(.rejected, [])])
  list := structMistakes r rd
  optional := optional
  okItem := okRouted (StructOk r rd)
  okList := StructOk r rd

theorem word_reports {α : Type} (h : Hooks α) (fw : Option α) (hw : h.fromWord? = fw.map .ok) :
    Reports h.fromWord (wordMistakes fw.isSome) := by
  cases fw with
  | none => exact fromWord_default_rejected h hw
  | some v => simp only [Hooks.fromWord, hw]; rfl

theorem struct_meets {r : SStruct ν} {rd : SField ν → Reading} (hd : Decl r rd) (fw fn : Option ν) :
    Meets (structHooks (.named r) (fw.map .ok) fn) (structReading r rd fw.isSome fn.isSome) := by
  have hnv : NoValueHooks (structHooks (.named r) (fw.map .ok) fn) := ⟨rfl, rfl, rfl, rfl, rfl⟩
  have hw := word_reports (structHooks (.named r) (fw.map .ok) fn) fw rfl
  refine ⟨?_, fun items => struct_verdict hd items, ?_, fun items hok => struct_reports_partial hd items hok, rfl⟩
  · exact routed_verdict _ rfl hw.verdict (fun items => struct_verdict hd items)
      (fun e => (fromExpr_rejected _ hnv e).verdict)
  · exact routed_reports _ rfl hw (fun items hok => struct_reports_partial hd items hok)
      (fun e => fromExpr_rejected _ hnv e)

/-! ### enum receivers as types -/

/-- `name = "variant"`: a string naming a unit variant (or a newtype variant whose inner type has a
    value for "absent") is fine; one naming a variant that needs data is a bare literal where a
    named item is required; any other string is rejected -/
def enumString (e : SEnum ν) (nt : SVariant ν → Reading) (s : String) : List Mistake :=
  match selectedVariant e s with
  | none => [(.rejected, [])]
  | some v => (match v.kind with
      | .unit _ => []
      | .newtype _ _ _ => if (nt v).optional then [] else [(.bareLiteral, [])]
      | .struct _ => [(.bareLiteral, [])])

def enumValue (e : SEnum ν) (nt : SVariant ν → Reading) : Expr → List Mistake
  | .lit l => (match l.v with
      | .str s => enumString e nt s
      | _ => [(.rejected, [])])
  | .group g _ => enumValue e nt g
  | _ => [(.rejected, [])]

def enumReading (e : SEnum ν) (nt : SVariant ν → Reading) (sf : SVariant ν → SField ν → Reading) : Reading where
  item := routed (wordMistakes e.fromWord.isSome) (enumMistakes e nt sf) (enumValue e nt)
  list := enumMistakes e nt sf
  optional := e.fromNone.isSome
  okItem := okRouted (EnumOk e nt sf)
  okList := EnumOk e nt sf

theorem enumString_reports {e : SEnum ν} {nt : SVariant ν → Reading} {sf : SVariant ν → SField ν → Reading}
    (hd : EnumDecl e nt sf) (s : String) : Reports (enumFromString e s) (enumString e nt s) := by
  simp only [enumFromString, enumString, selectedVariant_eq_arm]
  cases harm : e.arm s with
  | none => exact newErr_rejected _ rfl
  | some v =>
      have hv : v ∈ e.variants := List.mem_of_find?_eq_some harm
      simp only []
      cases hk : v.kind with
      | unit val => rfl
      | struct st =>
          have := Reports.leaf (α := ν) (.unexpectedFormat "literal") [] none
          rw [tagOf_literal] at this
          exact this
      | newtype fm fn wrap =>
          have hopt := hd.newtypeNone v hv fm fn wrap hk
          simp only [← hopt]
          cases fn with
          | some x => rfl
          | none =>
              have := Reports.leaf (α := ν) (.unexpectedFormat "literal") [] none
              rw [tagOf_literal] at this
              exact this

theorem enumValue_reports {e : SEnum ν} {nt : SVariant ν → Reading} {sf : SVariant ν → SField ν → Reading}
    (hd : EnumDecl e nt sf) : ∀ ex, Reports ((enumHooks e).fromExprD ex) (enumValue e nt ex)
  | .lit l => by
      simp only [Hooks.fromExprD, Hooks.fromValue, enumHooks, Hooks.fromValueD, enumValue]
      apply Reports.withSpan
      apply Reports.withSpan
      cases l.v <;>
        first
        | exact enumString_reports hd _
        | exact newErr_rejected _ rfl
        | exact Reports.leaf _ _ _
  | .group g sp => by
      simp only [Hooks.fromExprD, enumValue]
      exact (enumValue_reports hd g).withSpan _
  | .path p sp => by simp only [Hooks.fromExprD, enumValue]; exact (Reports.leaf _ _ _).withSpan _
  | .qpath p t sp => by simp only [Hooks.fromExprD, enumValue]; exact (Reports.leaf _ _ _).withSpan _
  | .array es t sp => by simp only [Hooks.fromExprD, enumValue]; exact (Reports.leaf _ _ _).withSpan _
  | .other k t sp => by simp only [Hooks.fromExprD, enumValue]; exact (Reports.leaf _ _ _).withSpan _

/-- a `from_word` override of an enum, when present, succeeds -/
def WordOk (e : SEnum ν) : Prop := ∀ o, e.fromWord = some o → ∃ v, o = .ok v

theorem enum_meets {e : SEnum ν} {nt : SVariant ν → Reading} {sf : SVariant ν → SField ν → Reading}
    (hd : EnumDecl e nt sf) (hword : WordOk e) : Meets (enumHooks e) (enumReading e nt sf) := by
  have hw : Reports (enumHooks e).fromWord (wordMistakes e.fromWord.isSome) := by
    cases hfw : e.fromWord with
    | none => exact fromWord_default_rejected _ hfw
    | some o =>
        obtain ⟨v, rfl⟩ := hword o hfw
        simp only [Hooks.fromWord, enumHooks, hfw]
        rfl
  have hexpr : ∀ ex, Reports ((enumHooks e).fromExpr ex) (enumValue e nt ex) := fun ex => enumValue_reports hd ex
  refine ⟨?_, fun items => enum_verdict hd items, ?_, fun items hok => enum_reports_partial hd items hok, rfl⟩
  · exact routed_verdict _ rfl hw.verdict (fun items => enum_verdict hd items) (fun ex => (hexpr ex).verdict)
  · exact routed_reports _ rfl hw (fun items hok => enum_reports_partial hd items hok) hexpr

/-! ### keyed collections and `Option` as types -/

def mapReading (k : Maps.KeyKind) (vr : Reading) : Reading where
  item := routed [(.rejected, [])] (mapMistakes k vr) (fun _ => [(.rejected, [])])
  list := mapMistakes k vr
  optional := false
  okItem := okRouted (MapOk vr)
  okList := MapOk vr

theorem map_meets {h : Hooks ν} {vr : Reading} (hm : Meets h vr) (k : Maps.KeyKind) (inj : List (String × ν) → ν) :
    Meets (Maps.mapHooks k inj h) (mapReading k vr) := by
  have hnv : NoValueHooks (Maps.mapHooks k inj h) := ⟨rfl, rfl, rfl, rfl, rfl⟩
  have hw := fromWord_default_rejected (Maps.mapHooks k inj h) rfl
  have hv : ∀ items, Verdict ((Maps.mapHooks k inj h).fromList items) (mapMistakes k vr items) :=
    fun items => (map_verdict k h vr hm.vItem items).map inj
  have hr : ∀ items, MapOk vr items → Reports ((Maps.mapHooks k inj h).fromList items) (mapMistakes k vr items) :=
    fun items hok => (map_reports k h vr hm.vItem hm.item items hok).map inj
  refine ⟨?_, hv, ?_, hr, rfl⟩
  · exact routed_verdict _ rfl hw.verdict hv (fun e => (fromExpr_rejected _ hnv e).verdict)
  · exact routed_reports _ rfl hw hr (fun e => fromExpr_rejected _ hnv e)

/-- `Option<T>`: reads an item as `T` does, and may be absent -/
def optionReading (t : Reading) : Reading where
  item := t.item
  list := fun _ => [(.rejected, [])]
  optional := true
  okItem := t.okItem
  okList := fun _ => True

theorem option_meets {h : Hooks ν} {t : Reading} (hm : Meets h t) (some' : ν → ν) (none' : ν) :
    Meets (Wrappers.optionOf some' none' h) (optionReading t) := by
  have hl := fromList_default_rejected (Wrappers.optionOf some' none' h) rfl
  exact ⟨fun m => (hm.vItem m).map some', fun items => (hl items).verdict,
    fun m hok => (hm.item m hok).map some', fun items _ => hl items, rfl⟩

/-! ### any depth -/

/-- the receivers that can be assembled from leaf types by `Option`, keyed collections, derived
    structs (fields of any built type, any options) and derived enums (unit, newtype and struct
    variants over built types): each comes with its reading -/
inductive Built : Hooks ν → Reading → Prop
  | base {h : Hooks ν} {t : Reading} : Meets h t → Built h t
  | option {h : Hooks ν} {t : Reading} (some' : ν → ν) (none' : ν) :
      Built h t → Built (Wrappers.optionOf some' none' h) (optionReading t)
  | map {h : Hooks ν} {t : Reading} (k : Maps.KeyKind) (inj : List (String × ν) → ν) :
      Built h t → Built (Maps.mapHooks k inj h) (mapReading k t)
  | struct (r : SStruct ν) (rd : SField ν → Reading) (fh : SField ν → Hooks ν) (fw fn : Option ν) :
      Shape r → (∀ f ∈ r.fields, Tied f (fh f)) → (∀ f ∈ r.fields, Built (fh f) (rd f)) →
      Built (structHooks (.named r) (fw.map .ok) fn) (structReading r rd fw.isSome fn.isSome)
  | enum (e : SEnum ν) (nt : SVariant ν → Reading) (sf : SVariant ν → SField ν → Reading)
      (vh : SVariant ν → Hooks ν) (vfh : SVariant ν → SField ν → Hooks ν) :
      WordOk e →
      (∀ v ∈ e.variants, ∀ fm fn wrap, v.kind = .newtype fm fn wrap →
        fm = (vh v).fromMeta ∧ fn = (vh v).fromNone) →
      (∀ v ∈ e.variants, ∀ fm fn wrap, v.kind = .newtype fm fn wrap → Built (vh v) (nt v)) →
      (∀ v ∈ e.variants, ∀ s, v.kind = .struct s → Shape s ∧ ∀ f ∈ s.fields, Tied f (vfh v f)) →
      (∀ v ∈ e.variants, ∀ s, v.kind = .struct s → ∀ f ∈ s.fields, Built (vfh v f) (sf v f)) →
      Built (enumHooks e) (enumReading e nt sf)

theorem Built.meets {h : Hooks ν} {t : Reading} (hb : Built h t) : Meets h t := by
  induction hb with
  | base hm => exact hm
  | option some' none' _ ih => exact option_meets ih some' none'
  | map k inj _ ih => exact map_meets ih k inj
  | struct r rd fh fw fn hshape htied _ ih =>
      exact struct_meets ⟨hshape, fun f hf => FieldReads.of_meets (ih f hf) (htied f hf)⟩ fw fn
  | enum e nt sf vh vfh hword hnt _ hst _ ihn ihs =>
      refine enum_meets ⟨?_, ?_, ?_, ?_⟩ hword
      · intro v hv fm fn wrap hk m
        obtain ⟨hfm, _⟩ := hnt v hv fm fn wrap hk
        rw [hfm]; exact (ihn v hv fm fn wrap hk).vItem m
      · intro v hv fm fn wrap hk m hok
        obtain ⟨hfm, _⟩ := hnt v hv fm fn wrap hk
        rw [hfm]; exact (ihn v hv fm fn wrap hk).item m hok
      · intro v hv fm fn wrap hk
        obtain ⟨_, hfn⟩ := hnt v hv fm fn wrap hk
        rw [hfn]; exact (ihn v hv fm fn wrap hk).optional
      · intro v hv s hk
        obtain ⟨hshape, htied⟩ := hst v hv s hk
        exact ⟨hshape, fun f hf => FieldReads.of_meets (ihs v hv s hk f hf) (htied f hf)⟩

/-- **C02 at any nesting depth, first sentence — no side condition on the input.**  For every built
    receiver and every item list: parsing fails if and only if the text sees a mistake somewhere
    (nested receivers, enum variants, map values included); it never panics. -/
theorem deep_verdict {h : Hooks ν} {t : Reading} (hb : Built h t) (items : List NestedMeta) :
    Verdict (h.fromList items) (t.list items) := hb.meets.vList items

theorem deep_fails_iff {h : Hooks ν} {t : Reading} (hb : Built h t) (items : List NestedMeta) :
    ((∃ e, h.fromList items = .err e) ↔ t.list items ≠ []) ∧ ((∃ v, h.fromList items = .ok v) ↔ t.list items = []) :=
  ⟨(deep_verdict hb items).fails_iff, (deep_verdict hb items).ok_iff⟩

/-- **C02 at any nesting depth, second sentence (conditional).**  On the inputs that avoid D1, D2, D4 at
    every depth (`t.okList`), the leaves of the returned error are, one for one and in order, the
    mistakes the text sees, each with its tag and its outer-to-inner path. -/
theorem deep_reports_partial {h : Hooks ν} {t : Reading} (hb : Built h t) (items : List NestedMeta)
    (hok : t.okList items) : Reports (h.fromList items) (t.list items) := hb.meets.list items hok

/-- the same for a receiver reached as the value of an item, in any of the three forms -/
theorem deep_item_verdict {h : Hooks ν} {t : Reading} (hb : Built h t) (m : Meta) :
    Verdict (h.fromMeta m) (t.item m) := hb.meets.vItem m

theorem deep_item_reports_partial {h : Hooks ν} {t : Reading} (hb : Built h t) (m : Meta) (hok : t.okItem m) :
    Reports (h.fromMeta m) (t.item m) := hb.meets.item m hok

/-- what `Reports` says at the observation point the property names (`Error::flatten()`): the
    flattened error's items are leaves, and their kinds and paths are the mistakes -/
theorem reported_is_flatten (e : Err) :
    (Err.intoVec e).map (fun x => (tagOf (C04.kp x).1, (C04.kp x).2)) = reported e := by
  have h := congrArg (List.map (fun p : Kind × List String => (tagOf p.1, p.2))) (C04.intoVecP_kp [] none e)
  simpa only [reported, Spec.C04.leaves, Err.intoVec, List.map_map, Function.comp_def] using h

/-! ## 8. Element-level receivers: the attribute layer first, the body layer only when it is clean

  `C08.walk_is_one_list` reduces the attribute walk of an element-level receiver to the struct
  parser's item loop over one item list (the subject of section 3).  What remains of the clause
  "the mistakes in the attribute layer, or, when that layer is clean, in the body layer" is the
  control flow after the walk, stated here for the model's `finishOuter`. -/

section layers

/-- the accumulator when `check_errors` is reached: the attribute walk's errors (`st`), the shape
    verdict, the flatten hand-off, the presence check; `none`: a converter panicked -/
def attrLayer (r : SOuter ν) (st : PState ν) (validate : Outcome Unit) : Option (List Err) :=
  match validate with
  | .panic _ => none
  | .err e => (match flattenInit r.fields (st.push e) with
      | .ok s => some (checkMissing r.fields.fields s).errs
      | .error _ => none)
  | .ok _ => (match flattenInit r.fields st with
      | .ok s => some (checkMissing r.fields.fields s).errs
      | .error _ => none)

/-- when the attribute layer holds a mistake, exactly its errors are returned, whatever the body
    (`late`) would have said -/
theorem outer_attr_layer_first (r : SOuter ν) (st : PState ν) (attrsVal : Option ν) (validate : Outcome Unit)
    (late : List (String × Outcome ν)) (early : List (String × ν)) (build : List (String × ν) → ν)
    (errs : List Err) (h : attrLayer r st validate = some errs) (hne : errs ≠ []) :
    finishOuter r st attrsVal validate late early build = Err.bundleErr errs := by
  unfold attrLayer at h
  unfold finishOuter finishChecked
  cases validate with
  | panic m => cases h
  | err e =>
      simp only [] at h ⊢
      cases hf : flattenInit r.fields (st.push e) with
      | error m => rw [hf] at h; cases h
      | ok s =>
          rw [hf] at h
          simp only [Option.some.injEq] at h
          simp only [h]
          cases errs with
          | nil => exact absurd rfl hne
          | cons x xs => rfl
  | ok u =>
      simp only [] at h ⊢
      cases hf : flattenInit r.fields st with
      | error m => rw [hf] at h; cases h
      | ok s =>
          rw [hf] at h
          simp only [Option.some.injEq] at h
          simp only [h]
          cases errs with
          | nil => exact absurd rfl hne
          | cons x xs => rfl

/-- when the attribute layer is clean, the outcome is that of the struct literal, whose `?`-chained
    members are the body layer -/
theorem outer_body_layer (r : SOuter ν) (st : PState ν) (attrsVal : Option ν) (validate : Outcome Unit)
    (late : List (String × Outcome ν)) (early : List (String × ν)) (build : List (String × ν) → ν)
    (h : attrLayer r st validate = some []) :
    ∃ st', finishOuter r st attrsVal validate late early build = assemble r st' attrsVal late early build := by
  unfold attrLayer at h
  unfold finishOuter finishChecked
  cases validate with
  | panic m => cases h
  | err e =>
      simp only [] at h ⊢
      cases hf : flattenInit r.fields (st.push e) with
      | error m => rw [hf] at h; cases h
      | ok s =>
          rw [hf] at h
          simp only [Option.some.injEq] at h
          exact ⟨checkMissing r.fields.fields s, by simp only [h]⟩
  | ok u =>
      simp only [] at h ⊢
      cases hf : flattenInit r.fields st with
      | error m => rw [hf] at h; cases h
      | ok s =>
          rw [hf] at h
          simp only [Option.some.injEq] at h
          exact ⟨checkMissing r.fields.fields s, by simp only [h]⟩

/-- the body layer stops at its first failing member: what follows it is never looked at
    (generics before the body; recorded as F11 in /verif for type parameters) -/
theorem lateValues_first (k : String) (e : Err) (rest rest' : List (String × Outcome ν)) :
    lateValues ((k, .err e) :: rest) = lateValues ((k, .err e) :: rest') := rfl

end layers

/-! ## 7. Non-vacuity, and the discrepancies as concrete inputs -/

namespace Ex

def sp0 : Span := ⟨0, 0⟩
def pth (s : String) : Path := { global := false, segs := [s], plain := true, toks := s, span := sp0 }
/-- `n = 1` -/
def good (n : String) : NestedMeta := .item (.nameValue (pth n) (.lit ⟨.int "1" "", "1", sp0⟩) "" sp0)
/-- `n = "bad"` -/
def bad (n : String) : NestedMeta := .item (.nameValue (pth n) (.lit ⟨.str "bad", "\"bad\"", sp0⟩) "" sp0)
/-- `n(items)` -/
def lst (n : String) (items : List NestedMeta) : NestedMeta := .item (.list (pth n) items none none "" sp0)
/-- `n` -/
def word (n : String) : NestedMeta := .item (.path (pth n))

/-- a `u8`-like leaf type: accepts `name = <integer literal>`, rejects everything else with one leaf -/
def accepts : Meta → Bool
  | .nameValue _ (.lit ⟨.int _ _, _, _⟩) _ _ => true
  | _ => false

def u8 : Hooks Nat :=
  { fromMeta? := some (fun m => if accepts m then .ok 1 else .err (Err.new (.unknownValue "bad"))) }

def u8R : Reading where
  item := fun m => if accepts m then [] else [(.rejected, [])]
  list := fun _ => [(.rejected, [])]
  optional := false
  okItem := fun _ => True
  okList := fun _ => True

theorem u8_item (m : Meta) : Reports (u8.fromMeta m) (u8R.item m) := by
  simp only [Hooks.fromMeta, u8, u8R]
  cases accepts m with
  | true => rfl
  | false => exact newErr_rejected _ rfl

theorem u8_meets : Meets u8 u8R :=
  ⟨fun m => (u8_item m).verdict, fun items => (fromList_default_rejected u8 rfl items).verdict,
   fun m _ => u8_item m, fun items _ => fromList_default_rejected u8 rfl items, rfl⟩

def fld (name : String) (h : Hooks Nat) (dflt : Option (DefaultSrc Nat) := none) (multiple : Bool := false)
    (flatten : Bool := false) : SField Nat :=
  { ident := name, name := name, conv := h.fromMeta, fromNone := h.fromNone, fromList := h.fromList,
    dflt := dflt, skip := false, multiple := multiple, flatten := flatten }

def mk (fields : List (SField Nat)) : SStruct Nat :=
  { fields := fields, allowUnknown := false, containerDefault := none, build := fun _ => 0,
    mkList := fun _ => 0, post := .ok, score := fun _ _ => 0, thr := 0 }

/-- `struct Inner { x: u8, #[darling(default)] y: u8 }` -/
def innerS : SStruct Nat := mk [fld "x" u8, fld "y" u8 (some (.value 0))]
def innerH : Hooks Nat := structHooks (.named innerS) none none
def innerR : Reading := structReading innerS (fun _ => u8R) false false
/-- `struct Outer { inner: Inner }` -/
def outerS : SStruct Nat := mk [fld "inner" innerH]
/-- `struct Multi { #[darling(multiple)] a: Vec<u8> }` -/
def multiS : SStruct Nat := mk [fld "a" u8 none true]
/-- `enum E { Unit, New(Inner), St { p: u8 } }` -/
def enumE : SEnum Nat :=
  { variants := [⟨"unit", false, .unit 0⟩, ⟨"new", false, .newtype innerH.fromMeta innerH.fromNone id⟩,
                 ⟨"st", false, .struct (mk [fld "p" u8])⟩],
    score := fun _ _ => 0, thr := 0, fromWord := none, fromNone := none }

theorem innerShape : Shape innerS := by
  refine ⟨?_, ?_, ?_, ?_, ?_, ?_⟩
  · simp [Distinct, innerS, mk, fld]
  · intro f hf; simp [innerS, mk, fld] at hf; rcases hf with rfl | rfl <;> simp
  · intro f hf g hg hfl; simp [innerS, mk, fld] at hf; rcases hf with rfl | rfl <;> simp at hfl
  · intro f hf _ _; simp [innerS, mk, fld] at hf; rcases hf with rfl | rfl <;> simp [addressed, innerS, mk, fld]
  · intro f hf hd; simp [innerS, mk, fld] at hf; rcases hf with rfl | rfl <;> simp at hd
  · intro v; exact ⟨v, rfl⟩

theorem innerBuilt : Built innerH innerR :=
  Built.struct innerS (fun _ => u8R) (fun _ => u8) none none innerShape
    (by intro f hf; simp [innerS, mk, fld] at hf; rcases hf with rfl | rfl <;> exact ⟨rfl, rfl, rfl⟩)
    (fun _ _ => .base u8_meets)

theorem outerShape : Shape outerS := by
  refine ⟨?_, ?_, ?_, ?_, ?_, ?_⟩
  · simp [Distinct, outerS, mk]
  · intro f hf; simp [outerS, mk, fld] at hf; subst hf; simp
  · intro f hf g hg hfl; simp [outerS, mk, fld] at hf; subst hf; simp at hfl
  · intro f hf _ _; simp [outerS, mk, fld] at hf; subst hf; simp [addressed, outerS, mk, fld]
  · intro f hf hd; simp [outerS, mk, fld] at hf; subst hf; simp at hd
  · intro v; exact ⟨v, rfl⟩

/-- a receiver two levels deep is `Built` (non-vacuity of `Built`, `Shape`, `Tied`, `Meets`) -/
theorem outerBuilt : Built (structHooks (.named outerS) none none) (structReading outerS (fun _ => innerR) false false) :=
  Built.struct outerS (fun _ => innerR) (fun _ => innerH) none none outerShape
    (by intro f hf; simp [outerS, mk, fld] at hf; subst hf; exact ⟨rfl, rfl, rfl⟩)
    (fun _ _ => innerBuilt)

theorem outerDecl : Decl outerS (fun _ => innerR) :=
  ⟨outerShape, fun f hf => FieldReads.of_meets innerBuilt.meets
    (by simp [outerS, mk, fld] at hf; subst hf; exact ⟨rfl, rfl, rfl⟩)⟩

/-- what the model returns, as the property observes it -/
def seen {α : Type} : Outcome α → List Mistake
  | .err e => reported e
  | _ => []

/-! ### the main theorems are not vacuous: an input with five mistakes on two levels that meets
    `StructOk`, and what both sides say about it -/

/-- `outer(inner(x = "bad", zzz = 1, "s"), nope = 1, inner(x = 1))` -/
def okIn : List NestedMeta :=
  [lst "inner" [bad "x", good "zzz", .lit ⟨.str "s", "", sp0⟩], good "nope", lst "inner" [good "x"]]

theorem okIn_ok : StructOk outerS (fun _ => innerR) okIn := by
  simp [StructOk, WalkOk, ItemOk, okIn, lst, good, bad, pth, addressed, outerS, mk, fld, innerR, structReading,
    okRouted, innerS, occurrences, nameOf, Path.toStr, Meta.path', routed, u8R]
  decide

example : structMistakes outerS (fun _ => innerR) okIn
    = [(.rejected, ["inner", "x"]), (.unknownName "zzz", ["inner"]), (.bareLiteral, ["inner"]),
       (.unknownName "nope", []), (.repeatedName "inner", [])] := by decide
example : seen (fromList outerS okIn) = structMistakes outerS (fun _ => innerR) okIn := by decide
example : Reports (fromList outerS okIn) (structMistakes outerS (fun _ => innerR) okIn) :=
  struct_reports_partial outerDecl okIn okIn_ok

/-! ### an enum, a keyed collection and an `Option` are `Built` too -/

def enumNt : SVariant Nat → Reading := fun _ => innerR
def enumSf : SVariant Nat → SField Nat → Reading := fun _ _ => u8R

theorem enumE_newtype : ∀ v ∈ enumE.variants, ∀ fm fn wrap, v.kind = .newtype fm fn wrap →
    fm = innerH.fromMeta ∧ fn = innerH.fromNone := by
  intro v hv fm fn wrap hk
  simp [enumE] at hv
  rcases hv with rfl | rfl | rfl <;> simp at hk
  exact ⟨hk.1.symm, hk.2.1.symm⟩

theorem stShape : Shape (mk [fld "p" u8]) := by
  refine ⟨?_, ?_, ?_, ?_, ?_, ?_⟩
  · simp [Distinct, mk]
  · intro f hf; simp [mk, fld] at hf; subst hf; simp
  · intro f hf g hg hfl; simp [mk, fld] at hf; subst hf; simp at hfl
  · intro f hf _ _; simp [mk, fld] at hf; subst hf; simp [addressed, mk, fld]
  · intro f hf hd; simp [mk, fld] at hf; subst hf; simp at hd
  · intro v; exact ⟨v, rfl⟩

theorem enumE_struct : ∀ v ∈ enumE.variants, ∀ s, v.kind = .struct s → Shape s ∧ ∀ f ∈ s.fields, Tied f u8 := by
  intro v hv s hk
  simp [enumE] at hv
  rcases hv with rfl | rfl | rfl <;> simp at hk
  subst hk
  exact ⟨stShape, by intro f hf; simp [mk, fld] at hf; subst hf; exact ⟨rfl, rfl, rfl⟩⟩

theorem enumE_built : Built (enumHooks enumE) (enumReading enumE enumNt enumSf) :=
  Built.enum enumE enumNt enumSf (fun _ => innerH) (fun _ _ => u8)
    (by intro o ho; simp [enumE] at ho)
    enumE_newtype (fun _ _ _ _ _ _ => innerBuilt) enumE_struct (fun _ _ _ _ _ _ => .base u8_meets)

theorem enumE_decl : EnumDecl enumE enumNt enumSf where
  vNewtype := fun v hv fm fn wrap hk m => by
    rw [(enumE_newtype v hv fm fn wrap hk).1]; exact innerBuilt.meets.vItem m
  newtype := fun v hv fm fn wrap hk m hok => by
    rw [(enumE_newtype v hv fm fn wrap hk).1]; exact innerBuilt.meets.item m hok
  newtypeNone := fun v hv fm fn wrap hk => by
    rw [(enumE_newtype v hv fm fn wrap hk).2]; exact innerBuilt.meets.optional
  struct := fun v hv s hk =>
    ⟨(enumE_struct v hv s hk).1, fun f hf => FieldReads.of_meets u8_meets ((enumE_struct v hv s hk).2 f hf)⟩

/-- `WordOk` with an override present -/
example : WordOk { enumE with fromWord := some (.ok 7) } := by
  intro o ho; simp at ho; exact ⟨7, ho.symm⟩

/-- `e(st(p = "bad", q = 1))` meets `EnumOk`; two mistakes inside the struct variant -/
def enumIn : List NestedMeta := [lst "st" [bad "p", good "q"]]

theorem enumIn_ok : EnumOk enumE enumNt enumSf enumIn := by
  refine ⟨by simp [enumIn], ?_⟩
  intro m hm v hv
  simp [enumIn, lst] at hm
  subst hm
  simp [selectedVariant, enumE, pth, Path.toStr, Meta.path'] at hv
  subst hv
  refine ⟨by simp, by simp, ?_⟩
  intro s hs
  simp at hs
  subst hs
  refine ⟨⟨_, _, _, _, _, _, rfl⟩, ?_⟩
  intro p its ts tk sp hm
  simp only [Meta.list.injEq] at hm
  obtain ⟨_, rfl, _⟩ := hm
  simp [StructOk, WalkOk, ItemOk, enumSf, u8R, mk, fld, good, bad, pth, addressed, occurrences, nameOf,
    Path.toStr, Meta.path']

example : enumMistakes enumE enumNt enumSf enumIn = [(.rejected, ["st", "p"]), (.unknownName "q", ["st"])] := by
  decide
example : Reports (enumFromList enumE enumIn) (enumMistakes enumE enumNt enumSf enumIn) :=
  enum_reports_partial enumE_decl enumIn enumIn_ok
/-- the count clause of `EnumOk`: `e()` -/
example : EnumOk enumE enumNt enumSf [] := ⟨by simp, by simp⟩
example : seen (enumFromList enumE []) = [(.wrongCount, [])] := by decide

/-- `m(k(x = "bad"), k(x = 1, zz = 1), "lit")` for a `HashMap<String, Inner>`: the repeated key does
    not hide the unknown name inside its value -/
def mapIn : List NestedMeta := [lst "k" [bad "x"], lst "k" [good "x", good "zz"], .lit ⟨.str "lit", "", sp0⟩]

theorem mapIn_ok : MapOk innerR mapIn := by
  intro m hm
  simp [mapIn, lst] at hm
  rcases hm with rfl | rfl <;>
    simp [innerR, structReading, okRouted, StructOk, WalkOk, ItemOk, u8R, innerS, mk, fld, good, bad, pth,
      addressed, occurrences, nameOf, Path.toStr, Meta.path']

example : mapMistakes .string innerR mapIn
    = [(.rejected, ["k", "x"]), (.repeatedName "k", []), (.unknownName "zz", ["k"]), (.bareLiteral, [])] := by decide
example : seen (Maps.fromList .string innerH mapIn) = mapMistakes .string innerR mapIn := by decide
example : Reports (Maps.fromList .string innerH mapIn) (mapMistakes .string innerR mapIn) :=
  map_reports .string innerH innerR innerBuilt.meets.vItem innerBuilt.meets.item mapIn mapIn_ok

example : Built (Maps.mapHooks .string (fun _ => 0) innerH) (mapReading .string innerR) :=
  Built.map .string (fun _ => 0) innerBuilt
example : Built (Wrappers.optionOf id 0 u8) (optionReading u8R) := Built.option id 0 (.base u8_meets)

/-- the unconditional verdict on an input that violates every side condition at once -/
example (items : List NestedMeta) :
    (∃ e, (structHooks (.named outerS) none none).fromList items = .err e)
      ↔ structMistakes outerS (fun _ => innerR) items ≠ [] :=
  (deep_fails_iff outerBuilt items).1

/-! ### the discrepancies: what the text demands (right-hand sides of the second line of each
    pair) against what the model — and the library, see the report — returns (first line) -/

/-- **D1** `outer(inner(x = 1), inner(x = 1, zzz = 1, y = "bad"))`: the repeated name hides the two
    mistakes inside the repeated item -/
def d1 : List NestedMeta := [lst "inner" [good "x"], lst "inner" [good "x", good "zzz", bad "y"]]
example : seen (fromList outerS d1) = [(.repeatedName "inner", [])] := by decide
example : structMistakes outerS (fun _ => innerR) d1
    = [(.repeatedName "inner", []), (.unknownName "zzz", ["inner"]), (.rejected, ["inner", "y"])] := by decide
example : ¬ StructOk outerS (fun _ => innerR) d1 := by
  intro h
  have := (h.1.2.1 _ rfl (fld "inner" innerH)
    (by simp [addressed, outerS, mk, fld, pth, Path.toStr, Meta.path'])).1 rfl (by decide)
  revert this
  decide

/-- **D2** `e(st(p = "bad", q = 1), nope)`: the wrong item count hides the three other mistakes -/
def d2 : List NestedMeta := [lst "st" [bad "p", good "q"], word "nope"]
example : seen (enumFromList enumE d2) = [(.wrongCount, [])] := by decide
example : enumMistakes enumE enumNt enumSf d2
    = [(.wrongCount, []), (.rejected, ["st", "p"]), (.unknownName "q", ["st"]), (.unknownName "nope", [])] := by
  decide

/-- **D3 (repaired)** `m(a = "bad", a = "bad", a = 1, a = "bad")` for `#[darling(multiple)] a: Vec<u8>`:
    each bad occurrence is located at its own occurrence index — `a[0]`, `a[1]`, `a[3]` — (before
    the repair the index was the number of values accepted so far: `a[0]`, `a[0]`, `a[1]`), and the
    input meets `StructOk`, so the main theorem applies to it -/
def d3 : List NestedMeta := [bad "a", bad "a", good "a", bad "a"]
example : seen (fromList multiS d3) = [(.rejected, ["a[0]"]), (.rejected, ["a[1]"]), (.rejected, ["a[3]"])] := by
  decide
example : structMistakes multiS (fun _ => u8R) d3
    = [(.rejected, ["a[0]"]), (.rejected, ["a[1]"]), (.rejected, ["a[3]"])] := by decide
example : seen (fromList multiS d3) = structMistakes multiS (fun _ => u8R) d3 := by decide

theorem multiShape : Shape multiS := by
  refine ⟨?_, ?_, ?_, ?_, ?_, ?_⟩
  · simp [Distinct, multiS, mk]
  · intro f hf; simp [multiS, mk, fld] at hf; subst hf; simp
  · intro f hf g hg hfl; simp [multiS, mk, fld] at hf; subst hf; simp at hfl
  · intro f hf _ _; simp [multiS, mk, fld] at hf; subst hf; simp [addressed, multiS, mk, fld]
  · intro f hf hd; simp [multiS, mk, fld] at hf; subst hf; simp at hd
  · intro v; exact ⟨v, rfl⟩

theorem multiDecl : Decl multiS (fun _ => u8R) :=
  ⟨multiShape, fun f hf => FieldReads.of_meets u8_meets
    (by simp [multiS, mk, fld] at hf; subst hf; exact ⟨rfl, rfl, rfl⟩)⟩

/-- every item list meets the side condition of a receiver whose only field is `multiple` and of
    a leaf type: no clause of `StructOk` speaks about the indices any more -/
theorem multi_ok (items : List NestedMeta) : StructOk multiS (fun _ => u8R) items := by
  refine ⟨?_, by intro ff hff; simp [multiS, mk, fld] at hff⟩
  have h : ∀ (rest earlier : List NestedMeta), WalkOk multiS (fun _ => u8R) earlier rest := by
    intro rest
    induction rest with
    | nil => intro _; trivial
    | cons it rest ih =>
        intro earlier
        refine ⟨?_, ih _⟩
        intro m _ f hf
        have hm : f.multiple = true := by
          have := List.mem_of_find?_eq_some hf
          simp [multiS, mk, fld] at this; subst this; rfl
        refine ⟨fun h => ?_, fun h => ?_, fun _ => trivial⟩
        · rw [hm] at h; cases h
        · rw [hm] at h; cases h
  exact h items []

example : Reports (fromList multiS d3) [(.rejected, ["a[0]"]), (.rejected, ["a[1]"]), (.rejected, ["a[3]"])] :=
  struct_reports_partial multiDecl d3 (multi_ok d3)

/-- **D4** `e(unit = 1)`, `e(st = 1)`: the leaf neither names the variant nor carries it in its path -/
example : seen (enumFromList enumE [good "unit"]) = [(.rejected, [])] := by decide
example : enumMistakes enumE enumNt enumSf [good "unit"] = [(.rejected, ["unit"])] := by decide
example : seen (enumFromList enumE [good "st"]) = [(.rejected, [])] := by decide
example : enumMistakes enumE enumNt enumSf [good "st"] = [(.rejected, ["st"])] := by decide
/-- …whereas a newtype variant does carry it, and so does (since the repair) a struct variant
    whose list does not parse: `e(st(<syntax error>))` -/
example : seen (enumFromList enumE [good "new"]) = [(.rejected, ["new"])] := by decide
def badList : NestedMeta := .item (.list (pth "st") [] (some ("expected `,`", sp0)) none "" sp0)
example : seen (enumFromList enumE [badList]) = [(.rejected, ["st"])] := by decide
example : enumMistakes enumE enumNt enumSf [badList] = [(.rejected, ["st"])] := by decide
/-- that input meets `EnumOk`: no side condition is needed for the parse failure -/
theorem badList_ok : EnumOk enumE enumNt enumSf [badList] := by
  refine ⟨by simp, ?_⟩
  intro m hm v hv
  simp [badList] at hm
  subst hm
  simp [selectedVariant, enumE, pth, Path.toStr, Meta.path'] at hv
  subst hv
  refine ⟨by simp, by simp, ?_⟩
  intro s hs
  exact ⟨⟨_, _, _, _, _, _, rfl⟩, by intro p its ts tk sp hm; simp at hm⟩
example : Reports (enumFromList enumE [badList]) [(.rejected, ["st"])] :=
  enum_reports_partial enumE_decl [badList] badList_ok

/-- **D5** (`NamesDistinct` is needed) `struct S { a: u8, #[darling(rename = "a")] b: u8 }` on
    `s(a = 1)`: a mistake is invented — `a` is reported absent although it is supplied -/
def collideS : SStruct Nat := mk [fld "a" u8, { fld "a" u8 with ident := "b" }]
example : seen (fromList collideS [good "a"]) = [(.absent "a", [])] := by decide
example : structMistakes collideS (fun _ => u8R) [good "a"] = [] := by decide
example : ¬ NamesDistinct collideS := by
  intro h
  have := h { fld "a" u8 with ident := "b" } (by simp [collideS, mk]) rfl rfl
  simp [addressed, collideS, mk, fld] at this

/-- (`PostAccepts` is needed) a container-level `and_then` that rejects the built value fails a
    mistake-free input -/
def checkedS : SStruct Nat := { mk [fld "n" u8] with post := fun _ => .err (Err.custom "zero not allowed") }
example : seen (fromList checkedS [good "n"]) = [(.rejected, [])] := by decide
example : structMistakes checkedS (fun _ => u8R) [good "n"] = [] := by decide

end Ex

end C02
