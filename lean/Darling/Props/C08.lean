import Darling.Derive.Outer
/-
  C08 — Attribute selection, merging across attributes, and forwarding.

  For every element-level receiver `r` (any field set, any attribute names, any forward filter,
  with or without an `attrs` field) and every attribute list:

    * `attrLoop_spec`  the attribute walk is a function of two projections of the list only: the
                       *atoms* contributed by the selected attributes (their items one by one, or
                       one parse error) concatenated in source order, and the sub-list of
                       forwarded attributes;
    * `partition_invariance`  hence two attribute lists with the same atoms and the same forwarded
                       sub-list give the identical extractor result (value or errors) — any split
                       of the same items over one or more attributes, with bare / empty / foreign
                       attributes interspersed;
    * `forwarded_exact` the `attrs` field receives exactly `attrs.filter (forwardedBy r)`:
                       unmodified (the very same `Attr` values) and in source order;
    * `foreign_inert`  an attribute that is neither selected nor forwarded has no effect, whatever
                       its body.
-/
open Derive Options

namespace C08
variable {ν : Type}

/-- the attribute's path is one of the declared `attributes(..)` names -/
def selected (r : SOuter ν) (a : Attr) : Bool := r.willParseAny && r.attrNames.contains a.path.toStr

/-- the attribute is handed to the `attrs` field -/
def forwardedBy (r : SOuter ν) (a : Attr) : Bool :=
  !selected r a && r.willFwdAny &&
    (match r.forward with
     | some .all => true
     | some (.only names) => names.contains a.path.toStr
     | none => false)

/-- what one selected attribute contributes to the shared parser state -/
inductive Atom where
  | item (i : NestedMeta)
  | bad (e : Err)

def atomsOf (r : SOuter ν) (a : Attr) : List Atom :=
  if selected r a then
    match attrItems a with
    | .items xs => xs.map .item
    | .err e => [.bad e]
  else []

def atoms (r : SOuter ν) (attrs : List Attr) : List Atom := attrs.flatMap (atomsOf r)

def stepAtom (s : SStruct ν) (p : PState ν) : Atom → Except String (PState ν)
  | .item i => stepItem s p i
  | .bad e => .ok (p.push e)

def runAtoms (s : SStruct ν) : PState ν → List Atom → Except String (PState ν)
  | p, [] => .ok p
  | p, a :: rest => match stepAtom s p a with
      | .ok p' => runAtoms s p' rest
      | .error m => .error m

theorem runAtoms_append (s : SStruct ν) (p : PState ν) (xs ys : List Atom) :
    runAtoms s p (xs ++ ys) = (match runAtoms s p xs with
      | .ok p' => runAtoms s p' ys
      | .error m => .error m) := by
  induction xs generalizing p with
  | nil => rfl
  | cons a rest ih =>
      simp only [List.cons_append, runAtoms]
      cases stepAtom s p a with
      | ok p' => exact ih p'
      | error m => rfl

theorem runAtoms_items (s : SStruct ν) (p : PState ν) (xs : List NestedMeta) :
    runAtoms s p (xs.map .item) = coreLoop s p xs := by
  induction xs generalizing p with
  | nil => rfl
  | cons x rest ih =>
      simp only [List.map_cons, runAtoms, coreLoop, stepAtom]
      cases stepItem s p x with
      | ok p' => exact ih p'
      | error m => rfl

/-- one attribute: its atoms run on the parser state, and it joins the forwarded list iff
    `forwardedBy` -/
theorem stepAttr_spec (r : SOuter ν) (st : XState ν) (a : Attr) :
    stepAttr r st a = (match runAtoms r.fields st.p (atomsOf r a) with
      | .ok p => .ok ⟨p, st.fwd ++ (if forwardedBy r a then [a] else [])⟩
      | .error m => .error m) := by
  unfold stepAttr atomsOf forwardedBy selected
  by_cases hs : (r.willParseAny && r.attrNames.contains a.path.toStr) = true
  · simp only [hs, if_true]
    cases hi : attrItems a with
    | items xs =>
        cases xs with
        | nil => simp [runAtoms]
        | cons x rest =>
            simp only [runAtoms_items]
            cases coreLoop r.fields st.p (x :: rest) <;> simp [Except.map]
    | err e => simp [runAtoms, stepAtom]
  · have hs' : (r.willParseAny && r.attrNames.contains a.path.toStr) = false := by
      cases h : (r.willParseAny && r.attrNames.contains a.path.toStr) <;> simp_all
    simp only [hs']
    cases hw : r.willFwdAny with
    | false => simp [runAtoms]
    | true =>
        cases hf : r.forward with
        | none => simp [runAtoms]
        | some f =>
            cases f with
            | all => simp [runAtoms]
            | only names =>
                by_cases hc : a.path.toStr ∈ names <;> simp [hc, runAtoms]

/-- the whole attribute walk -/
theorem attrLoop_spec (r : SOuter ν) (st : XState ν) (attrs : List Attr) :
    attrLoop r st attrs = (match runAtoms r.fields st.p (atoms r attrs) with
      | .ok p => .ok ⟨p, st.fwd ++ attrs.filter (forwardedBy r)⟩
      | .error m => .error m) := by
  induction attrs generalizing st with
  | nil => simp [attrLoop, atoms, runAtoms]
  | cons a rest ih =>
      simp only [attrLoop, atoms, List.flatMap_cons]
      rw [stepAttr_spec, runAtoms_append]
      cases h : runAtoms r.fields st.p (atomsOf r a) with
      | error m => rfl
      | ok p =>
          simp only []
          rw [ih]
          simp only [atoms]
          cases runAtoms r.fields p (List.flatMap (atomsOf r) rest) with
          | error m => rfl
          | ok p' =>
              by_cases hf : forwardedBy r a = true
              · simp [hf, List.filter_cons]
              · have : forwardedBy r a = false := by cases h : forwardedBy r a <;> simp_all
                simp [this, List.filter_cons]

/-- a receiver that neither parses nor forwards contributes no atoms and forwards nothing -/
theorem idle_atoms (r : SOuter ν) (h : (r.willParseAny || r.willFwdAny) = false) (attrs : List Attr) :
    atoms r attrs = [] ∧ attrs.filter (forwardedBy r) = [] := by
  have hp : r.willParseAny = false := by cases hh : r.willParseAny <;> simp_all
  have hw : r.willFwdAny = false := by cases hh : r.willFwdAny <;> simp_all
  constructor
  · induction attrs with
    | nil => rfl
    | cons a rest ih => simp [atoms, List.flatMap_cons, atomsOf, selected, hp] at ih ⊢
  · induction attrs with
    | nil => rfl
    | cons a rest ih => simp [List.filter_cons, forwardedBy, hw]

/-- the extractor as a function of the two projections -/
def extractSpec (r : SOuter ν) (ats : List Atom) (fwd : List Attr) : Except String (PState ν × Option ν) :=
  match runAtoms r.fields {} ats with
  | .error m => .error m
  | .ok p => attrsValue r p fwd

theorem extract_spec (r : SOuter ν) (attrs : List Attr) :
    extract r attrs = extractSpec r (atoms r attrs) (attrs.filter (forwardedBy r)) := by
  unfold extract extractSpec
  by_cases h : (r.willParseAny || r.willFwdAny) = true
  · simp only [h, Bool.not_true, Bool.false_eq_true, if_false]
    rw [attrLoop_spec]
    cases runAtoms r.fields ({} : XState ν).p (atoms r attrs) with
    | error m => rfl
    | ok p => simp
  · have h' : (r.willParseAny || r.willFwdAny) = false := by
      cases hh : (r.willParseAny || r.willFwdAny) <;> simp_all
    obtain ⟨ha, hf⟩ := idle_atoms r h' attrs
    simp [h', ha, hf, runAtoms]

/-- **Merging.**  Two attribute lists with the same atoms in the same order and the same
    forwarded attributes give the identical parser state, `attrs` value and errors. -/
theorem partition_invariance (r : SOuter ν) (a1 a2 : List Attr)
    (hat : atoms r a1 = atoms r a2) (hf : a1.filter (forwardedBy r) = a2.filter (forwardedBy r)) :
    extract r a1 = extract r a2 := by
  rw [extract_spec, extract_spec, hat, hf]

/-- **Forwarding.**  Whenever the walk completes, the forwarded list is exactly the sub-list of
    attributes picked by `forwardedBy`: the same values, in source order. -/
theorem forwarded_exact (r : SOuter ν) (attrs : List Attr) (st : XState ν)
    (h : attrLoop r {} attrs = .ok st) : st.fwd = attrs.filter (forwardedBy r) := by
  rw [attrLoop_spec] at h
  cases hr : runAtoms r.fields ({} : XState ν).p (atoms r attrs) with
  | error m => rw [hr] at h; cases h
  | ok p => rw [hr] at h; cases h; simp

/-- with a bare `forward_attrs`, every non-selected attribute is forwarded -/
theorem forward_all (r : SOuter ν) (hfw : r.forward = some .all) (hattrs : r.attrsField.isSome) (a : Attr) :
    forwardedBy r a = !selected r a := by
  simp [forwardedBy, SOuter.willFwdAny, hfw, hattrs, FwdFilter.isEmpty]

/-- with a list, exactly the listed, non-selected names -/
theorem forward_only (r : SOuter ν) (names : List String) (hfw : r.forward = some (.only names)) (a : Attr) :
    forwardedBy r a = true → a.path.toStr ∈ names ∧ selected r a = false := by
  simp only [forwardedBy, hfw]
  intro h
  simp at h
  exact ⟨h.2, by simpa using h.1.1⟩

/-- splitting: the atoms of a list are the atoms of its parts -/
theorem atoms_append (r : SOuter ν) (xs ys : List Attr) : atoms r (xs ++ ys) = atoms r xs ++ atoms r ys := by
  simp [atoms, List.flatMap_append]

/-- a selected, well-formed list attribute contributes exactly its items -/
theorem atomsOf_items (r : SOuter ν) (a : Attr) (xs : List NestedMeta) (hs : selected r a = true)
    (hi : attrItems a = .items xs) : atomsOf r a = xs.map .item := by
  simp [atomsOf, hs, hi]

/-- **Splitting the same items.**  One selected attribute holding `xs ++ ys` is equivalent to two
    selected attributes (under any of the declared names) holding `xs` and `ys`. -/
theorem split_two (r : SOuter ν) (a a1 a2 : Attr) (xs ys : List NestedMeta)
    (hs : selected r a = true) (hs1 : selected r a1 = true) (hs2 : selected r a2 = true)
    (hi : attrItems a = .items (xs ++ ys)) (hi1 : attrItems a1 = .items xs) (hi2 : attrItems a2 = .items ys)
    (pre post : List Attr) :
    extract r (pre ++ a :: post) = extract r (pre ++ a1 :: a2 :: post) := by
  apply partition_invariance
  · simp only [atoms, List.flatMap_append, List.flatMap_cons]
    rw [atomsOf_items r a _ hs hi, atomsOf_items r a1 _ hs1 hi1, atomsOf_items r a2 _ hs2 hi2]
    simp
  · have nf : ∀ b, selected r b = true → forwardedBy r b = false := by
      intro b hb; simp [forwardedBy, hb]
    simp [List.filter_append, List.filter_cons, nf a hs, nf a1 hs1, nf a2 hs2]

/-- a bare (`#[name]`) or empty (`#[name()]`) attribute contributes nothing -/
theorem bare_or_empty_atoms (r : SOuter ν) (a : Attr) (h : attrItems a = .items []) : atomsOf r a = [] := by
  unfold atomsOf
  split <;> simp [h]

/-- **Inertness.**  An attribute that contributes no atoms and is not forwarded can be inserted at
    or removed from any position without effect — in particular every attribute whose path is
    neither declared nor forwarded, whatever its body (the body is never inspected), and every
    bare or empty selected attribute. -/
theorem inert_anywhere (r : SOuter ν) (a : Attr) (ha : atomsOf r a = []) (hf : forwardedBy r a = false)
    (pre post : List Attr) : extract r (pre ++ a :: post) = extract r (pre ++ post) := by
  apply partition_invariance
  · simp [atoms, List.flatMap_append, List.flatMap_cons, ha]
  · simp [List.filter_append, List.filter_cons, hf]

theorem foreign_inert (r : SOuter ν) (a : Attr) (hs : selected r a = false) (hf : forwardedBy r a = false)
    (pre post : List Attr) : extract r (pre ++ a :: post) = extract r (pre ++ post) :=
  inert_anywhere r a (by simp [atomsOf, hs]) hf pre post

/-- only the path of a non-selected attribute is ever looked at: two attributes with the same path
    are selected / forwarded alike -/
theorem selection_by_path_only (r : SOuter ν) (a b : Attr) (h : a.path.toStr = b.path.toStr) :
    selected r a = selected r b ∧ forwardedBy r a = forwardedBy r b := by
  simp [selected, forwardedBy, h]

/-- a bare / empty selected attribute is not forwarded either: it is inert -/
theorem bare_selected_inert (r : SOuter ν) (a : Attr) (hs : selected r a = true) (h : attrItems a = .items [])
    (pre post : List Attr) : extract r (pre ++ a :: post) = extract r (pre ++ post) :=
  inert_anywhere r a (bare_or_empty_atoms r a h) (by simp [forwardedBy, hs]) pre post

/-! ### several attributes are one list -/

/-- the items of the selected attributes, concatenated in source order -/
def selItems (r : SOuter ν) (attrs : List Attr) : List NestedMeta :=
  attrs.flatMap (fun a => if selected r a then (match attrItems a with
    | .items xs => xs
    | .err _ => []) else [])

/-- every selected attribute has a body that is a list of items (bare and empty ones included) -/
def AllParse (r : SOuter ν) (attrs : List Attr) : Prop :=
  ∀ a ∈ attrs, selected r a = true → ∃ xs, attrItems a = .items xs

theorem atoms_of_allParse (r : SOuter ν) (attrs : List Attr) (h : AllParse r attrs) :
    atoms r attrs = (selItems r attrs).map .item := by
  induction attrs with
  | nil => rfl
  | cons a rest ih =>
      have hr : AllParse r rest := fun b hb => h b (List.mem_cons_of_mem _ hb)
      simp only [atoms, selItems, List.flatMap_cons, List.map_append] at ih ⊢
      rw [ih hr]
      congr 1
      unfold atomsOf
      by_cases hs : selected r a = true
      · obtain ⟨xs, hx⟩ := h a List.mem_cons_self hs
        simp [hs, hx]
      · have : selected r a = false := by cases hh : selected r a <;> simp_all
        simp [this]

/-- **Several declared attributes on one element are a single item list**: the parser state after
    the attribute walk is that of the struct parser's item loop (`FieldsGen::core_loop`, the loop of
    C01 / C02) run once over the concatenation of their items. -/
theorem walk_is_one_list (r : SOuter ν) (attrs : List Attr) (h : AllParse r attrs) :
    extract r attrs = (match coreLoop r.fields {} (selItems r attrs) with
      | .ok p => attrsValue r p (attrs.filter (forwardedBy r))
      | .error m => .error m) := by
  rw [extract_spec, extractSpec, atoms_of_allParse r attrs h, runAtoms_items]
  cases coreLoop r.fields {} (selItems r attrs) <;> rfl

/-! ### non-vacuity -/

private def mkPath (name : String) : Path := { global := false, segs := [name], plain := true, toks := name, span := ⟨0, 0⟩ }
private def mkAttr (name : String) (items : List NestedMeta) : Attr :=
  { path := mkPath name, body := .list (mkPath name) items none none "" ⟨0, 0⟩, toks := "", span := ⟨0, 0⟩ }
private def word (name : String) : NestedMeta := .item (.path (mkPath name))
private def r0 : SOuter Nat :=
  { fields := { fields := [], allowUnknown := false, containerDefault := none, build := fun _ => 0, mkList := fun _ => 0,
                post := .ok, score := fun _ _ => 0, thr := 0 },
    attrNames := ["my", "conf"], forward := some .all, attrsField := some (fun as => .ok as.length) }

/-- the hypotheses of `split_two` are met by a concrete receiver and concrete attributes -/
example : selected r0 (mkAttr "my" [word "a", word "b"]) = true ∧ selected r0 (mkAttr "conf" [word "a"]) = true ∧
    attrItems (mkAttr "my" [word "a", word "b"]) = .items ([word "a"] ++ [word "b"]) ∧
    forwardedBy r0 (mkAttr "doc" []) = true ∧ selected r0 (mkAttr "doc" []) = false := by
  refine ⟨by decide, by decide, rfl, by decide, by decide⟩

end C08
