import Darling.Props.C06
import Darling.Props.C07Universe
/-
  C06 (end to end) — `Options.derive` never panics on a declaration whose identifiers are safe
  for the rename rules.

  `C06.lean` proves the pieces (option readers, the field/variant option chains, the attribute
  loops, `finish_with`).  Here: the container-level option chains (`Core`, `OuterFrom`, the
  trait-specific `supports`, `FromMetaOptions`, `ForwardedField`), the body loops and the two
  top-level functions.  The only hypothesis is `DeclSafe`: no field or variant identifier makes
  `ident_case` panic (known finding F8, see `C06.F8_witness_*`).
-/
open Options Wrappers Scalars SynTypes

namespace C06

/-! ### the remaining option readers return -/

theorem readRenameRule_returns (m : Meta) : (readRenameRule m).Returns :=
  (C07.renameRule_np _ _).fromMeta m

theorem readOptWherePreds_returns (o : Oracle) (m : Meta) : (readOptWherePreds o m).Returns :=
  (C07.option_np some none _ (C07.wherePreds_np _ id)).fromMeta m

theorem pathNames_np : pathNamesHooks.NP := by
  constructor <;> intro f hf <;> simp [pathNamesHooks] at hf
  subst hf; intro items; exact C07.pathListFromList_returns _ items

theorem readPathList_returns (m : Meta) : (readPathList m).Returns := pathNames_np.fromMeta m

theorem fwd_np : fwdHooks.NP := by
  constructor <;> intro f hf <;> simp [fwdHooks] at hf
  · subst hf; exact Outcome.returns_ok _
  · subst hf; intro items; exact (C07.pathListFromList_returns _ items).map _

theorem readOptFwd_returns (m : Meta) : (readOptFwd m).Returns :=
  (C07.option_np some none _ fwd_np).fromMeta m

/-- `Err(Error::multiple(errors))` of a non-empty list is an error -/
theorem bundleErr_returns {σ : Type} (errs : List Err) (hne : errs ≠ []) :
    (Err.bundleErr errs : Outcome σ).Returns := by
  obtain ⟨e, he⟩ := bundle_is_diagnostics (σ := σ) errs hne
  rw [he]; exact Outcome.returns_err _

/-- `DeriveInputShapeSet::from_list` -/
theorem dissFromListLoop_returns : (items : List NestedMeta) → (d : DISS) → (DISS.fromListLoop d items).Returns
  | [], d => by simp only [DISS.fromListLoop]; exact Outcome.returns_ok _
  | .item (.path p) :: rest, d => by
      simp only [DISS.fromListLoop]
      cases p.getIdent with
      | none => exact Outcome.returns_err _
      | some w =>
          simp only []
          cases d.applyWord w with
          | ok d' => exact dissFromListLoop_returns rest d'
          | error e => exact Outcome.returns_err _
  | .item (.list _ _ _ _ _ _) :: _, d => by simp only [DISS.fromListLoop]; exact Outcome.returns_err _
  | .item (.nameValue _ _ _ _) :: _, d => by simp only [DISS.fromListLoop]; exact Outcome.returns_err _
  | .lit _ :: _, d => by simp only [DISS.fromListLoop]; exact Outcome.returns_err _

theorem dissFromList_returns (items : List NestedMeta) : (DISS.fromList items).Returns :=
  dissFromListLoop_returns items {}

/-- `DataShape::from_list` -/
theorem dataShapeFromList_returns (items : List NestedMeta) : (DataShape.fromList items).Returns := by
  unfold DataShape.fromList
  generalize DataShape.fromListLoop {} [] items = r
  obtain ⟨d, errs⟩ := r
  match errs with
  | [] => exact Outcome.returns_ok _
  | x :: r => exact bundleErr_returns _ (by simp)

theorem diss_np : dissHooks.NP := by
  constructor <;> intro f hf <;> simp [dissHooks] at hf
  subst hf; exact dissFromList_returns

theorem dataShape_np : dataShapeHooks.NP := by
  constructor <;> intro f hf <;> simp [dataShapeHooks] at hf
  subst hf; exact dataShapeFromList_returns

theorem readOptDISS_returns (m : Meta) : (readOptDISS m).Returns :=
  (C07.option_np some none _ diss_np).fromMeta m

theorem readOptDataShape_returns (m : Meta) : (readOptDataShape m).Returns :=
  (C07.option_np some none _ dataShape_np).fromMeta m

/-! ### the container-level option chains never panic -/

/-- `impl ParseAttribute for Core` -/
theorem coreStep_returns (o : Oracle) (s : CoreOpts) (mi : Meta) : StepR.Returns (coreStep o s mi) := by
  unfold coreStep
  simp only []
  split
  · split
    · trivial
    · exact withRead_returns _ _ _ (defaultFromMeta_returns o mi) (fun v => trivial)
  · split
    · exact withRead_returns _ _ _ (readRenameRule_returns mi) (fun v => trivial)
    · split
      · split
        · exact ite_returns _ _ _ trivial trivial
        · exact withRead_returns _ _ _ (readPath_returns o mi) (fun f => trivial)
      · split
        · exact withRead_returns _ _ _ (readOptWherePreds_returns o mi) (fun _ => trivial)
        · split
          · split
            · trivial
            · exact withRead_returns _ _ _ (readOptBool_returns mi) (fun v => trivial)
          · trivial

theorem liftCore_returns {σ : Type} (s : σ) (get : σ → CoreOpts) (set : σ → CoreOpts → σ) (r : StepR CoreOpts)
    (hr : StepR.Returns r) : StepR.Returns (liftCore s get set r) := by
  cases r with
  | ok c => trivial
  | err c e => trivial
  | panic m => exact hr

/-- `impl ParseAttribute for OuterFrom` -/
theorem outerStep_returns (o : Oracle) (s : OuterOpts) (mi : Meta) : StepR.Returns (outerStep o s mi) := by
  unfold outerStep
  simp only []
  split
  · exact withRead_returns _ _ _ (readPathList_returns mi) (fun v => trivial)
  · split
    · exact withRead_returns _ _ _ (readOptFwd_returns mi) (fun v => trivial)
    · split
      · trivial
      · exact liftCore_returns _ _ _ _ (coreStep_returns o s.core mi)

/-- the element-level traits (`supports` of FromDeriveInput / FromVariant on top of `OuterFrom`) -/
theorem outerTraitStep_returns (t : Trait) (o : Oracle) (s : OuterOpts) (mi : Meta) :
    StepR.Returns (outerTraitStep t o s mi) := by
  unfold outerTraitStep
  split
  · exact withRead_returns _ _ _ (readOptDISS_returns mi) (fun v => trivial)
  · split
    · exact withRead_returns _ _ _ (readOptDataShape_returns mi) (fun v => trivial)
    · exact outerStep_returns o s mi

/-- `impl ParseAttribute for FromMetaOptions` -/
theorem fromMetaStep_returns (o : Oracle) (s : FromMetaOpts) (mi : Meta) : StepR.Returns (fromMetaStep o s mi) := by
  unfold fromMetaStep
  simp only []
  split
  · split
    · trivial
    · exact withRead_returns _ _ _ (readCallable_returns mi) (fun v => trivial)
  · split
    · split
      · trivial
      · exact withRead_returns _ _ _ (readCallable_returns mi) (fun v => trivial)
    · exact liftCore_returns _ _ _ _ (coreStep_returns o s.core mi)

/-- `impl ParseAttribute for ForwardedField` -/
theorem forwardedStep_returns (o : Oracle) (sim : String → Option (Nat × String)) (s : Option String) (mi : Meta) :
    StepR.Returns (forwardedStep o sim s mi) := by
  unfold forwardedStep
  split
  · split
    · trivial
    · exact withRead_returns _ _ _ (readOptPath_returns o mi) (fun v => trivial)
  · trivial

/-- the container options of a `FromMeta` receiver: an options record or diagnostics -/
theorem fromMeta_options_return (o : Oracle) (start : FromMetaOpts) (attrs : List Attr) :
    (finishWith (parseAttributes (fromMetaStep o) start [] attrs)).Returns :=
  finishWith_returns _ (parseAttributes_ok _ (fromMetaStep_returns o) attrs _ _)

/-- the container options of an element-level receiver -/
theorem outer_options_return (t : Trait) (o : Oracle) (start : OuterOpts) (attrs : List Attr) :
    (finishWith (parseAttributes (outerTraitStep t o) start [] attrs)).Returns :=
  finishWith_returns _ (parseAttributes_ok _ (outerTraitStep_returns t o) attrs _ _)

/-! ### safety of the identifiers -/

/-- the identifier is safe under every rename rule -/
def IdentSafe (id : String) : Prop := ∀ rule : RenameRule, RenameOk rule id

/-- the field's identifier (the placeholder `"__unnamed"` for an unnamed field) is safe -/
def FieldSafe (f : FieldD) : Prop := IdentSafe (f.ident.getD "__unnamed")

/-- the variant's identifier and all its fields are safe -/
def VariantSafe (v : VariantD) : Prop := IdentSafe v.ident ∧ ∀ f ∈ v.fields, FieldSafe f

/-- every field identifier (or the placeholder `"__unnamed"` for unnamed fields) and every variant
    identifier of the declaration is safe -/
def DeclSafe (d : DeclD) : Prop :=
  match d.body with
  | .struct _ fs => ∀ f ∈ fs, FieldSafe f
  | .enum vs => ∀ v ∈ vs, VariantSafe v
  | .union => True

theorem returns_of_eq_ok {α : Type} {r : Outcome α} {a : α} (h : r = .ok a) : r.Returns := by
  rw [h]; exact Outcome.returns_ok _

/-- the placeholder of unnamed fields is safe: tuple structs never trip `ident_case` -/
theorem unnamed_safe : IdentSafe "__unnamed" := by
  intro rule
  cases rule <;> constructor <;> first | exact Outcome.returns_ok _ | exact returns_of_eq_ok rfl

/-! ### fields and variants of the body -/

/-- `ForwardedField::from_field` (the `attrs` / `data` magic fields) -/
theorem forwardedFromField_returns (o : Oracle) (sim : String → Option (Nat × String)) (f : FieldD) :
    (forwardedFromField o sim f).Returns := by
  unfold forwardedFromField
  cases f.ident with
  | none => exact Outcome.returns_err _
  | some id =>
      simp only []
      have := finishWith_returns _ (parseAttributes_ok _ (forwardedStep_returns o sim) f.attrs none [])
      cases hf : finishWith (parseAttributes (forwardedStep o sim) none [] f.attrs) with
      | ok w => exact Outcome.returns_ok _
      | err e => exact Outcome.returns_err _
      | panic m => exact absurd hf (this m)

/-- the fields of a variant -/
theorem variantFields_returns (o : Oracle) (core : CoreOpts) :
    (fs : List FieldD) → (∀ f ∈ fs, FieldSafe f) → (variantFields o core fs).Returns
  | [], _ => by simp only [variantFields]; exact Outcome.returns_ok _
  | f :: rest, h => by
      simp only [variantFields]
      have hf := fieldFromDecl_returns o core f (h f (List.mem_cons_self ..) core.renameRule)
      cases hr : fieldFromDecl o core f with
      | ok rf => exact (variantFields_returns o core rest (fun g hg => h g (List.mem_cons_of_mem _ hg))).map _
      | err e => exact Outcome.returns_err _
      | panic m => exact absurd hr (hf m)

/-- `InputVariant::from_variant` -/
theorem variantFromDecl_returns (o : Oracle) (core : CoreOpts) (v : VariantD) (h : VariantSafe v) :
    (variantFromDecl o core v).Returns := by
  unfold variantFromDecl
  have ha := variant_options_return (v.style == .unit) v.attrs
  cases hs : finishWith (parseAttributes (variantStep (v.style == .unit)) {} [] v.attrs) with
  | err e => exact Outcome.returns_err _
  | panic m => exact absurd hs (ha m)
  | ok s =>
      simp only []
      have hf := variantFields_returns o core v.fields h.2
      cases hfs : variantFields o core v.fields with
      | err e => exact Outcome.returns_err _
      | panic m => exact absurd hfs (hf m)
      | ok fs =>
          simp only []
          cases s.attrName with
          | some n => exact Outcome.returns_ok _
          | none => exact (h.1 core.renameRule).2.bind _ (fun _ => Outcome.returns_ok _)

/-- one `errors.handle(self.parse_field(field))`: the error (if any) is collected -/
theorem parseFieldStep_ok (t : Trait) (o : Oracle) (sim : String → Option (Nat × String)) (core : CoreOpts)
    (st : BodySt) (f : FieldD) (h : FieldSafe f) : ∃ st', parseFieldStep t o sim core st f = .ok st' := by
  unfold parseFieldStep
  simp only []
  have hf := forwardedFromField_returns o sim f
  have hg := fieldFromDecl_returns o core f (h core.renameRule)
  generalize forwardedFromField o sim f = r1 at hf ⊢
  generalize fieldFromDecl o core f = r2 at hg ⊢
  rcases r1 with fw | e | m <;> rcases r2 with rf | e' | m' <;>
    first
    | exact (hf _ rfl).elim
    | exact (hg _ rfl).elim
    | ((try simp only []); (repeat' split) <;> exact ⟨_, rfl⟩)

theorem parseFields_ok (t : Trait) (o : Oracle) (sim : String → Option (Nat × String)) (core : CoreOpts) :
    (fs : List FieldD) → (st : BodySt) → (∀ f ∈ fs, FieldSafe f) → ∃ st', parseFields t o sim core st fs = .ok st'
  | [], st, _ => ⟨st, rfl⟩
  | f :: rest, st, h => by
      simp only [parseFields]
      obtain ⟨st', hst⟩ := parseFieldStep_ok t o sim core st f (h f (List.mem_cons_self ..))
      rw [hst]
      exact parseFields_ok t o sim core rest st' (fun g hg => h g (List.mem_cons_of_mem _ hg))

theorem parseVariants_ok (t : Trait) (o : Oracle) (core : CoreOpts) :
    (vs : List VariantD) → (st : BodySt) → (∀ v ∈ vs, VariantSafe v) → ∃ st', parseVariants t o core st vs = .ok st'
  | [], st, _ => ⟨st, rfl⟩
  | v :: rest, st, h => by
      simp only [parseVariants]
      have hrest : ∀ w ∈ rest, VariantSafe w := fun w hw => h w (List.mem_cons_of_mem _ hw)
      split
      · have hv := variantFromDecl_returns o core v (h v (List.mem_cons_self ..))
        cases hr : variantFromDecl o core v with
        | ok rv => exact parseVariants_ok t o core rest _ hrest
        | err e => exact parseVariants_ok t o core rest _ hrest
        | panic m => exact absurd hr (hv m)
      · exact parseVariants_ok t o core rest _ hrest

/-! ### the two top-level functions -/

theorem deriveFromMeta_returns (o : Oracle) (sp : DeclSpans) (d : DeclD) (h : DeclSafe d) :
    (deriveFromMeta o sp d).Returns := by
  unfold deriveFromMeta
  unfold DeclSafe at h
  cases hb : d.body with
  | union => exact Outcome.returns_err _
  | struct s fs =>
      rw [hb] at h
      simp only [] at h ⊢
      have hfm := fromMeta_options_return o { core := { renameRule := .none } } d.attrs
      split
      · exact Outcome.returns_err _
      · rename_i m heq; exact absurd heq (hfm m)
      · rename_i fm heq
        obtain ⟨st, hst⟩ := parseFields_ok .fromMeta o (fun _ => none) fm.core fs {} h
        rw [hst]
        simp only []
        generalize st.errs ++ fromMetaValidate _ _ _ _ _ _ = errs
        match errs with
        | [] => exact Outcome.returns_ok _
        | x :: r => exact bundleErr_returns _ (by simp)
  | enum vs =>
      rw [hb] at h
      simp only [] at h ⊢
      have hfm := fromMeta_options_return o { core := { renameRule := .snake } } d.attrs
      split
      · exact Outcome.returns_err _
      · rename_i m heq; exact absurd heq (hfm m)
      · rename_i fm heq
        obtain ⟨st, hst⟩ := parseVariants_ok .fromMeta o fm.core vs {} h
        rw [hst]
        simp only []
        generalize st.errs ++ fromMetaValidate _ _ _ _ _ _ = errs
        match errs with
        | [] => exact Outcome.returns_ok _
        | x :: r => exact bundleErr_returns _ (by simp)

theorem deriveOuter_returns (t : Trait) (o : Oracle) (sim : String → Option (Nat × String)) (sp : DeclSpans)
    (d : DeclD) (h : DeclSafe d) : (deriveOuter t o sim sp d).Returns := by
  unfold deriveOuter
  unfold DeclSafe at h
  have hoo := outer_options_return t o {} d.attrs
  cases hb : d.body with
  | union => exact Outcome.returns_err _
  | struct s fs =>
      rw [hb] at h
      simp only [] at h ⊢
      split
      · exact Outcome.returns_err _
      · rename_i m heq; exact absurd heq (hoo m)
      · rename_i oo heq
        obtain ⟨st, hst⟩ := parseFields_ok t o sim oo.core fs {} h
        rw [hst]
        simp only []
        generalize st.errs ++ (flattenErrs st.fields ++ _) = errs
        match errs with
        | [] => simp only []; split <;> first | exact Outcome.returns_err _ | exact Outcome.returns_ok _
        | x :: r => exact bundleErr_returns _ (by simp)
  | enum vs =>
      rw [hb] at h
      cases vs with
      | nil => exact Outcome.returns_err _
      | cons v vs =>
        simp only [] at h ⊢
        split
        · exact Outcome.returns_err _
        · rename_i m heq; exact absurd heq (hoo m)
        · rename_i oo heq
          obtain ⟨st, hst⟩ := parseVariants_ok t o oo.core (v :: vs) {} h
          rw [hst]
          simp only []
          generalize st.errs ++ (flattenErrs st.fields ++ _) = errs
          match errs with
          | [] => simp only []; split <;> first | exact Outcome.returns_err _ | exact Outcome.returns_ok _
          | x :: r => exact bundleErr_returns _ (by simp)

/-- **C06, end to end**: the derive model returns an impl or diagnostics — it never panics — on
    every declaration whose identifiers are safe for the rename rules -/
theorem derive_returns (t : Trait) (o : Oracle) (sim : String → Option (Nat × String)) (sp : DeclSpans) (d : DeclD)
    (h : DeclSafe d) : (Options.derive t o sim sp d).Returns := by
  unfold Options.derive
  split
  · exact deriveFromMeta_returns o sp d h
  · exact deriveOuter_returns t o sim sp d h

/-! ### non-vacuity -/

/-- `struct S { a: bool, b: String }` -/
def exampleDecl : DeclD :=
  { ident := "S", attrs := [],
    body := .struct .named
      [ { ident := some "a", ty := .bool, tyToks := "bool", vis := "", attrs := [] },
        { ident := some "b", ty := .string, tyToks := "String", vis := "", attrs := [] } ] }

theorem ident_a_safe : IdentSafe "a" := by
  intro rule
  cases rule <;> constructor <;> first | exact Outcome.returns_ok _ | exact returns_of_eq_ok rfl

theorem ident_b_safe : IdentSafe "b" := by
  intro rule
  cases rule <;> constructor <;> first | exact Outcome.returns_ok _ | exact returns_of_eq_ok rfl

theorem exampleDecl_safe : DeclSafe exampleDecl := by
  intro f hf
  simp only [List.mem_cons, List.not_mem_nil, or_false] at hf
  rcases hf with rfl | rfl
  · exact ident_a_safe
  · exact ident_b_safe

example (t : Trait) (o : Oracle) (sim : String → Option (Nat × String)) (sp : DeclSpans) :
    (Options.derive t o sim sp exampleDecl).Returns :=
  derive_returns t o sim sp exampleDecl exampleDecl_safe

/-- … and the hypothesis is not redundant: `DeclSafe` fails exactly where `ident_case` panics -/
example : ¬ IdentSafe "__" := fun h => F8_witness_underscores (h .camel)

end C06
