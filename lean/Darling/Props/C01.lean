import Darling.Props.C02
import Darling.Options
/-
  C01 — Derived struct receivers compute exactly the declared field mapping.
  The main theorem is `C02.fromList_value` (proved with the loop invariant of C02): a
  mistake-free input parses to `Spec.C01.expected`.  This file adds the readings the statement
  spells out.
-/
open Derive Spec.C02 Spec.C01

namespace C01
variable {ν : Type}

/-- the headline, restated -/
theorem value (r : SStruct ν) (hwf : C02.WF r) (hd : C02.Distinct r) (items : List NestedMeta)
    (h : mistakes r items = []) : fromList r items = expected r items :=
  C02.fromList_value r hwf hd items h

/-- `multiple` fields hold every occurrence, in source order -/
theorem multiple_holds_every_occurrence (r : SStruct ν) (items : List NestedMeta) (f : SField ν)
    (hm : f.multiple = true) (hd : f.dflt = none) :
    fieldValue r items f = .ok (r.mkList (successes r f items)) := by
  simp [fieldValue, hm, hd]

theorem successes_append (r : SStruct ν) (f : SField ν) (xs ys : List NestedMeta) :
    successes r f (xs ++ ys) = successes r f xs ++ successes r f ys := by
  simp [successes, List.filterMap_append]

/-- nothing but the items addressed to a field influences it: only the sub-list of items that
    select `f` matters -/
theorem only_own_items_matter_multiple (r : SStruct ν) (f : SField ν) (items : List NestedMeta) :
    successes r f items = successes r f (items.filter (selects r f)) := by
  induction items with
  | nil => rfl
  | cons it rest ih =>
      cases hs : selects r f it with
      | true => simp only [List.filter_cons, hs, if_true]; simp only [successes, List.filterMap_cons] at ih ⊢; rw [ih]
      | false =>
          simp only [List.filter_cons, hs, Bool.false_eq_true, if_false]
          rw [← ih]
          cases it with
          | lit l => simp [successes]
          | item m => simp [successes, hs]

theorem find_filter (p : NestedMeta → Bool) (items : List NestedMeta) :
    (items.filter p).find? p = items.find? p := by
  induction items with
  | nil => rfl
  | cons it rest ih =>
      cases hs : p it with
      | true => simp only [List.filter_cons, hs, if_true, List.find?_cons]
      | false => simp only [List.filter_cons, hs, Bool.false_eq_true, if_false, List.find?_cons, ih]

theorem only_own_items_matter_single (r : SStruct ν) (f : SField ν) (items : List NestedMeta) :
    firstValue r f items = firstValue r f (items.filter (selects r f)) := by
  unfold firstValue
  rw [find_filter]

/-- a field that is not supplied holds its own default, else the container default's field, else
    the type's value-for-absent -/
theorem absent_field_default_chain (r : SStruct ν) (items : List NestedMeta) (f : SField ν)
    (hm : f.multiple = false) (hff : isFirstFlatten r f = false) (habs : items.any (selects r f) = false) :
    fieldValue r items f =
      match f.dflt with
      | some d => defaultOf r f d
      | none => (match f.fromNone with
          | some v => .ok v
          | none => .panic "Uninitialized fields without defaults were already checked") := by
  simp only [fieldValue, hm, hff, C02.firstValue_unselected r f items habs, Bool.false_eq_true, if_false]
  cases f.dflt with
  | some d => rfl
  | none => cases f.fromNone <;> rfl

/-- a skipped field is never addressed, so it always takes the absent branch -/
theorem skipped_field_is_absent (r : SStruct ν) (hwf : C02.WF r) (items : List NestedMeta) (f : SField ν)
    (hf : f ∈ r.fields) (hs : f.skip = true) : items.any (selects r f) = false := by
  rw [List.any_eq_false]
  intro it _
  simp [C02.not_selected_of_no_arm r hwf f hf (Or.inl hs) it]

/-! ### effective names (derive time) -/

/-- explicit rename, else the container's case rule applied to the Rust name -/
theorem effective_name (core : Options.CoreOpts) (ident : String) (ty : Ty) (s : Options.FieldOpts)
    (rf : Options.RField) (h : Options.resolveField core ident ty s = .ok rf) :
    (match s.attrName with
     | some n => rf.name = n
     | none => core.renameRule.applyToField ident = .ok rf.name) := by
  unfold Options.resolveField at h
  cases hn : s.attrName with
  | some n => simp [hn, Outcome.bind] at h; rw [← h]
  | none =>
      simp only [hn] at h
      cases hr : core.renameRule.applyToField ident with
      | ok nm => simp [hr, Outcome.bind] at h; rw [← h]
      | err e => simp [hr, Outcome.bind] at h
      | panic p => simp [hr, Outcome.bind] at h

/-- default chain as resolved at derive time: own > container (inherit) > `Default` for skipped -/
theorem resolved_default (core : Options.CoreOpts) (ident : String) (ty : Ty) (s : Options.FieldOpts)
    (rf : Options.RField) (h : Options.resolveField core ident ty s = .ok rf) :
    rf.dflt = Options.fieldDefault s.dflt core.dflt s.skip := by
  unfold Options.resolveField at h
  cases hn : s.attrName with
  | some n => simp only [hn, Outcome.bind] at h; injection h with h; rw [← h]
  | none =>
      simp only [hn] at h
      cases hr : core.renameRule.applyToField ident with
      | ok nm => simp only [hr, Outcome.bind] at h; injection h with h; rw [← h]
      | err e => simp [hr, Outcome.bind] at h
      | panic p => simp [hr, Outcome.bind] at h

end C01
