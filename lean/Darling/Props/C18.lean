import Darling.Shape
import Darling.Spec.C18
import Darling.Lemmas.Error
/-
  C18 — Shape validation accepts exactly the declared shapes.
  For every list of shape words (any length, repetitions allowed) and every body (enums of any
  number of variants).
-/
open Spec.C18

namespace C18

/-! ### what a word list sets -/

/-- the option state a word list must produce -/
def dissOf (ws : List Word) : DISS :=
  { any := ws.contains .any,
    enumValues := { pre := "enum_", any := ws.contains .enumAny, named := ws.contains .enumNamed,
                    tuple := ws.contains .enumTuple, newtype := ws.contains .enumNewtype, unit := ws.contains .enumUnit },
    structValues := { pre := "struct_", any := ws.contains .structAny, named := ws.contains .structNamed,
                      tuple := ws.contains .structTuple, newtype := ws.contains .structNewtype, unit := ws.contains .structUnit } }

theorem strip_s_any : DataShape.stripPrefix "struct_" "struct_any" = "any" := by decide
theorem strip_s_named : DataShape.stripPrefix "struct_" "struct_named" = "named" := by decide
theorem strip_s_tuple : DataShape.stripPrefix "struct_" "struct_tuple" = "tuple" := by decide
theorem strip_s_newtype : DataShape.stripPrefix "struct_" "struct_newtype" = "newtype" := by decide
theorem strip_s_unit : DataShape.stripPrefix "struct_" "struct_unit" = "unit" := by decide
theorem strip_e_any : DataShape.stripPrefix "enum_" "enum_any" = "any" := by decide
theorem strip_e_named : DataShape.stripPrefix "enum_" "enum_named" = "named" := by decide
theorem strip_e_tuple : DataShape.stripPrefix "enum_" "enum_tuple" = "tuple" := by decide
theorem strip_e_newtype : DataShape.stripPrefix "enum_" "enum_newtype" = "newtype" := by decide
theorem strip_e_unit : DataShape.stripPrefix "enum_" "enum_unit" = "unit" := by decide

/-- one word moves the state exactly as the table says -/
theorem applyWord_spec (ws : List Word) (w : Word) :
    (dissOf ws).applyWord w.text = .ok (dissOf (ws ++ [w])) := by
  cases w <;>
    simp [DISS.applyWord, Word.text, dissOf, DataShape.setWord,
      strip_s_any, strip_s_named, strip_s_tuple, strip_s_newtype, strip_s_unit,
      strip_e_any, strip_e_named, strip_e_tuple, strip_e_newtype, strip_e_unit,
      List.contains_append] <;> decide

/-- folding any list of the eleven words never fails and yields `dissOf` -/
theorem fold_words (pre ws : List Word) :
    ws.foldlM (fun d w => d.applyWord w.text) (dissOf pre) = .ok (dissOf (pre ++ ws)) := by
  induction ws generalizing pre with
  | nil => simp [List.foldlM]; rfl
  | cons w ws ih =>
      simp only [List.foldlM, applyWord_spec]
      have := ih (pre ++ [w])
      simpa [List.append_assoc, bind, Except.bind] using this

theorem dissOf_nil : dissOf [] = {} := by decide

/-! ### the shape sets the emitted code builds -/

theorem toShapeSet_fields (p : String) (nt n t u a : Bool) :
    (DataShape.toShapeSet ⟨p, nt, n, t, u, a⟩) = ⟨a || nt, a || n, a || t, a || u⟩ := by
  cases nt <;> cases n <;> cases t <;> cases u <;> cases a <;> rfl

/-- `Display` of a shape set never reaches its `unreachable!()` -/
theorem display_ok (s : ShapeSet) : ∃ d, s.display = .ok d := by
  obtain ⟨nt, n, t, u⟩ := s
  cases nt <;> cases n <;> cases t <;> cases u <;> exact ⟨_, rfl⟩

theorem Word.mem_all (w : Word) : w ∈ Word.all := by cases w <;> simp [Word.all]

theorem any_eq (ws : List Word) (p : Word → Bool) :
    ws.any p = Word.all.any (fun w => ws.contains w && p w) := by
  rw [Bool.eq_iff_iff]
  simp only [List.any_eq_true, Bool.and_eq_true, List.contains_iff_mem]
  constructor
  · intro ⟨w, hw, hp⟩; exact ⟨w, Word.mem_all w, hw, hp⟩
  · intro ⟨w, _, hw, hp⟩; exact ⟨w, hw, hp⟩

/-- membership flags of the five struct / enum words, abstracted -/
theorem struct_contains (ws : List Word) (s : Shape) :
    (dissOf ws).structValues.toShapeSet.containsShape s = ws.any (·.admitsStruct s) := by
  rw [any_eq]
  simp only [dissOf, toShapeSet_fields, Word.all, List.any_cons, List.any_nil]
  generalize ws.contains Word.any = x0
  generalize ws.contains Word.structAny = a
  generalize ws.contains Word.structNamed = b
  generalize ws.contains Word.structTuple = c
  generalize ws.contains Word.structNewtype = d
  generalize ws.contains Word.structUnit = e
  generalize ws.contains Word.enumAny = f1
  generalize ws.contains Word.enumNamed = f2
  generalize ws.contains Word.enumTuple = f3
  generalize ws.contains Word.enumNewtype = f4
  generalize ws.contains Word.enumUnit = f5
  cases s <;> cases a <;> cases b <;> cases c <;> cases d <;> cases e <;>
    simp [ShapeSet.containsShape, Word.admitsStruct]

theorem enum_contains (ws : List Word) (s : Shape) :
    (dissOf ws).enumValues.toShapeSet.containsShape s = conforms ws s := by
  unfold conforms
  rw [any_eq]
  simp only [dissOf, toShapeSet_fields, Word.all, List.any_cons, List.any_nil]
  generalize ws.contains Word.any = x0
  generalize ws.contains Word.structAny = a
  generalize ws.contains Word.structNamed = b
  generalize ws.contains Word.structTuple = c
  generalize ws.contains Word.structNewtype = d
  generalize ws.contains Word.structUnit = e
  generalize ws.contains Word.enumAny = f1
  generalize ws.contains Word.enumNamed = f2
  generalize ws.contains Word.enumTuple = f3
  generalize ws.contains Word.enumNewtype = f4
  generalize ws.contains Word.enumUnit = f5
  cases s <;> cases f1 <;> cases f2 <;> cases f3 <;> cases f4 <;> cases f5 <;>
    simp [ShapeSet.containsShape, Word.admitsVariant]

theorem struct_isEmpty (ws : List Word) :
    (dissOf ws).structValues.toShapeSet.isEmpty = !ws.any (·.isStructWord) := by
  rw [any_eq]
  simp only [dissOf, toShapeSet_fields, Word.all, List.any_cons, List.any_nil]
  generalize ws.contains Word.any = x0
  generalize ws.contains Word.structAny = a
  generalize ws.contains Word.structNamed = b
  generalize ws.contains Word.structTuple = c
  generalize ws.contains Word.structNewtype = d
  generalize ws.contains Word.structUnit = e
  generalize ws.contains Word.enumAny = f1
  generalize ws.contains Word.enumNamed = f2
  generalize ws.contains Word.enumTuple = f3
  generalize ws.contains Word.enumNewtype = f4
  generalize ws.contains Word.enumUnit = f5
  cases a <;> cases b <;> cases c <;> cases d <;> cases e <;>
    simp [ShapeSet.isEmpty, Word.isStructWord]

theorem enum_isEmpty (ws : List Word) :
    (dissOf ws).enumValues.toShapeSet.isEmpty = !ws.any (·.isEnumWord) := by
  rw [any_eq]
  simp only [dissOf, toShapeSet_fields, Word.all, List.any_cons, List.any_nil]
  generalize ws.contains Word.any = x0
  generalize ws.contains Word.structAny = a
  generalize ws.contains Word.structNamed = b
  generalize ws.contains Word.structTuple = c
  generalize ws.contains Word.structNewtype = d
  generalize ws.contains Word.structUnit = e
  generalize ws.contains Word.enumAny = f1
  generalize ws.contains Word.enumNamed = f2
  generalize ws.contains Word.enumTuple = f3
  generalize ws.contains Word.enumNewtype = f4
  generalize ws.contains Word.enumUnit = f5
  cases f1 <;> cases f2 <;> cases f3 <;> cases f4 <;> cases f5 <;>
    simp [ShapeSet.isEmpty, Word.isEnumWord]

/-- a struct word admits a struct only if some struct word is present -/
theorem admits_imp_struct (w : Word) (s : Shape) (h : w.admitsStruct s = true) : w.isStructWord = true := by
  cases w <;> cases s <;> simp_all [Word.admitsStruct, Word.isStructWord]

/-! ### the run-time shape-set API -/

theorem check_ok_iff (s : ShapeSet) (sh : Shape) : (s.check sh).isOk = s.containsShape sh := by
  unfold ShapeSet.check
  obtain ⟨d, hd⟩ := display_ok s
  cases s.containsShape sh <;> simp [hd, Outcome.isOk]

theorem check_never_panics (s : ShapeSet) (sh : Shape) (m : String) : s.check sh ≠ .panic m := by
  unfold ShapeSet.check
  obtain ⟨d, hd⟩ := display_ok s
  cases s.containsShape sh <;> simp [hd]

/-- a tuple word also admits newtypes — but not the reverse -/
theorem tuple_admits_newtype (s : ShapeSet) (h : s.tuple = true) : s.containsShape .newtype = true := by
  simp [ShapeSet.containsShape, h]
theorem newtype_does_not_admit_tuple :
    (ShapeSet.ofList [.newtype]).containsShape .tuple = false := by decide

/-! ### the variant loop -/

def variantErr (ec : ShapeSet) (v : Shape) : Err :=
  match ec.display with
  | .ok d => Err.new (.unsupportedShape v.description (some d))
  | _ => Err.new (.unsupportedShape v.description none)

theorem checkVariants_spec (ec : ShapeSet) (errs : List Err) (vs : List Shape) :
    DISS.checkVariants ec errs vs
      = .ok (errs ++ (vs.filter (fun v => !ec.containsShape v)).map (variantErr ec)) := by
  induction vs generalizing errs with
  | nil => simp [DISS.checkVariants]
  | cons v vs ih =>
      obtain ⟨d, hd⟩ := display_ok ec
      simp only [DISS.checkVariants, ShapeSet.check]
      cases hc : ec.containsShape v with
      | true => simp [ih, hc]
      | false => simp [hd, ih, hc, variantErr, List.append_assoc]

/-! ### the emitted validator against the table -/

theorem dissOf_any (ws : List Word) : (dissOf ws).any = ws.contains .any := rfl

theorem validateStruct_iff (ws : List Word) (s : Shape) :
    (DISS.validateStruct (dissOf ws).structValues.toShapeSet (dissOf ws).enumValues.toShapeSet s).isOk
      = ws.any (·.admitsStruct s) := by
  unfold DISS.validateStruct
  rw [struct_isEmpty]
  cases hs : ws.any (·.isStructWord) with
  | false =>
      obtain ⟨d, hdd⟩ := display_ok (dissOf ws).enumValues.toShapeSet
      simp only [Bool.not_false, if_true, hdd, Outcome.isOk]
      symm
      rw [Bool.eq_false_iff]
      intro h
      obtain ⟨w, hw, hadm⟩ := List.any_eq_true.mp h
      have : ws.any (·.isStructWord) = true := List.any_eq_true.mpr ⟨w, hw, admits_imp_struct w s hadm⟩
      rw [hs] at this; cases this
  | true =>
      simp only [Bool.not_true, Bool.false_eq_true, if_false]
      rw [check_ok_iff, struct_contains]

theorem filter_eq_nonConforming (ws : List Word) (vs : List Shape) :
    (vs.filter (fun v => !(dissOf ws).enumValues.toShapeSet.containsShape v)) = nonConforming ws vs := by
  unfold nonConforming
  congr 1; funext v; rw [enum_contains]

theorem nonConforming_nil_iff (ws : List Word) (vs : List Shape) :
    nonConforming ws vs = [] ↔ vs.all (conforms ws) = true := by
  unfold nonConforming
  simp [List.filter_eq_nil_iff]

/-- what the enum arm returns when at least one enum word is declared -/
theorem validateEnum_eq (ws : List Word) (vs : List Shape) (he : ws.any (·.isEnumWord) = true) :
    DISS.validateEnum (dissOf ws).structValues.toShapeSet (dissOf ws).enumValues.toShapeSet vs =
      match (nonConforming ws vs).map (variantErr (dissOf ws).enumValues.toShapeSet) with
      | [] => .ok ()
      | errs => Err.bundleErr errs := by
  unfold DISS.validateEnum
  rw [enum_isEmpty, he]
  simp only [Bool.not_true, Bool.false_eq_true, if_false]
  rw [checkVariants_spec, List.nil_append, filter_eq_nonConforming]
  cases (nonConforming ws vs).map (variantErr (dissOf ws).enumValues.toShapeSet) <;> rfl

theorem validateEnum_iff (ws : List Word) (vs : List Shape) :
    (DISS.validateEnum (dissOf ws).structValues.toShapeSet (dissOf ws).enumValues.toShapeSet vs).isOk
      = (ws.any (·.isEnumWord) && vs.all (conforms ws)) := by
  cases he : ws.any (·.isEnumWord) with
  | false =>
      unfold DISS.validateEnum
      rw [enum_isEmpty, he]
      obtain ⟨d, hdd⟩ := display_ok (dissOf ws).structValues.toShapeSet
      simp [hdd, Outcome.isOk]
  | true =>
      rw [validateEnum_eq ws vs he, Bool.true_and]
      cases hn : nonConforming ws vs with
      | nil =>
          simp only [List.map_nil, Outcome.isOk]
          exact ((nonConforming_nil_iff ws vs).mp hn).symm
      | cons x xs =>
          have : vs.all (conforms ws) = false := by
            rw [Bool.eq_false_iff]
            intro h
            have := (nonConforming_nil_iff ws vs).mpr h
            rw [hn] at this; cases this
          rw [this]
          cases xs <;> simp [List.map, Err.bundleErr, Err.multiple, Outcome.isOk]

/-- **C18.**  The derived validator accepts a body exactly when the table does. -/
theorem validate_iff (ws : List Word) (b : BodyShape) :
    ((dissOf ws).validateBody b).isOk = accepts ws b := by
  unfold DISS.validateBody accepts
  rw [dissOf_any]
  cases hany : ws.contains Word.any with
  | true => simp [Outcome.isOk]
  | false =>
      simp only [Bool.false_eq_true, if_false, Bool.false_or]
      cases b with
      | union => rfl
      | struct s => exact validateStruct_iff ws s
      | enum vs => exact validateEnum_iff ws vs

/-- one error per non-conforming variant -/
theorem enum_error_count (ws : List Word) (vs : List Shape) (e : Err)
    (hany : ws.contains Word.any = false) (he : ws.any (·.isEnumWord) = true)
    (h : (dissOf ws).validateBody (.enum vs) = .err e) :
    e.len = (nonConforming ws vs).length := by
  unfold DISS.validateBody at h
  rw [dissOf_any, hany] at h
  simp only [Bool.false_eq_true, if_false] at h
  rw [validateEnum_eq ws vs he] at h
  generalize nonConforming ws vs = nc at h ⊢
  match nc, h with
  | [x], h =>
      simp [Err.bundleErr, Err.multiple] at h; subst h
      simp only [variantErr]; split <;> simp [Err.new]
  | x :: y :: r, h =>
      simp [Err.bundleErr, Err.multiple] at h; subst h
      simp only [Err.len_multi]
      rw [Err.lenList_leaves]
      · simp
      · intro z hz
        simp only [List.mem_cons, List.mem_map] at hz
        rcases hz with rfl | rfl | ⟨a, _, rfl⟩ <;> (simp only [variantErr]; split <;> rfl)

/-- a union satisfies no struct or enum word: an error, never a crash -/
theorem union_is_error (ws : List Word) (hany : ws.contains Word.any = false) :
    (dissOf ws).validateBody .union = .err (Err.new (.unsupportedShape "union" none)) := by
  unfold DISS.validateBody
  rw [dissOf_any, hany]
  simp

/-- the validator never panics, whatever the words and the body -/
theorem validate_never_panics (ws : List Word) (b : BodyShape) (m : String) :
    (dissOf ws).validateBody b ≠ .panic m := by
  intro h
  have hiff := validate_iff ws b
  unfold DISS.validateBody at h
  split at h
  · cases h
  · cases b with
    | union => cases h
    | struct s =>
        simp only at h
        unfold DISS.validateStruct at h
        split at h
        · obtain ⟨d, hdd⟩ := display_ok (dissOf ws).enumValues.toShapeSet; simp [hdd] at h
        · exact check_never_panics _ _ _ h
    | enum vs =>
        simp only at h
        unfold DISS.validateEnum at h
        split at h
        · obtain ⟨d, hdd⟩ := display_ok (dissOf ws).structValues.toShapeSet; simp [hdd] at h
        · rw [checkVariants_spec, List.nil_append] at h
          cases hf : (vs.filter (fun v => !(dissOf ws).enumValues.toShapeSet.containsShape v)) with
          | nil => simp [hf] at h
          | cons x xs => cases xs <;> simp [hf, List.map, Err.bundleErr, Err.multiple] at h

/-! non-vacuity -/
example : accepts [.structTuple, .enumUnit] (.struct .newtype) = true := by decide
example : accepts [.structNewtype] (.struct .tuple) = false := by decide
example : accepts [.enumUnit, .enumNewtype] (.enum [.unit, .newtype, .unit]) = true := by decide
example : accepts [.enumUnit] (.enum [.unit, .named]) = false := by decide
example : accepts [.enumUnit] (.struct .unit) = false := by decide
example : accepts [.any] .union = true := by decide

end C18
