import Darling.Props.C05
/-
  C05, positional form — a specification of the accumulator written from the property text, and
  the end-to-end theorems `model = spec` for every history (any length, any number of
  checkpoints, any starting content).

  Vocabulary (none of it calls `Accum.run`, `Accum.finishWith`, `Accum.finishOp`, `Accum.dropOut`
  or `Err.multiple`):
    * `put op`, `putAll ops`     the errors one operation / a list of operations puts into the
                                 accumulator ("pushed, handled or extended into it"), in order
    * `Records op`, `Untouched`  "an error was pushed, handled or extended" as a predicate
    * `answer op`                what a borrowing operation hands back when it does not end the
                                 history: `handle` hands back the value exactly when given `Ok`,
                                 a passing `checkpoint` hands back a fresh accumulator
    * `Blocked errs ops i`       position `i` is a `checkpoint` reached with something recorded
    * `blockedAt errs ops`       the first such position (`blockedAt_eq_some_iff`,
                                 `blockedAt_eq_none_iff` say that this is what it computes)
    * `members b`                what iterating an error yields (`IntoIterator for Error`)
    * `endSpec rec e`            what the end of the history must yield when `rec` was recorded
    * `traceSpec errs ops e`     the whole trace, by position: the answers up to the first blocked
                                 checkpoint and an error whose members are everything recorded
                                 before it; or, if there is none, all answers and `endSpec`
  Theorems:
    * `run_eq_collapse_spec`     exact and unconditional: `run = traceSpec` up to the one place
                                 where the library departs from the text — a bundle of exactly
                                 one error is that error itself (`collapse`)
    * `run_asBundle_eq_spec_iff` `run`, read through `members`, equals `traceSpec` if and only if
                                 the history is `Harmless`: the one list that gets bundled is not
                                 a single error that is itself a bundle
    * `run_asBundle_eq_spec_partial`, `harmless_of_no_bundle_recorded`, `harmless_of_positions`
    * `discrepancy_*`            the concrete history on which text and library differ
    * clause by clause corollaries about `run` itself (any starting content, any checkpoints):
      `finish_with_ok_iff_untouched(')`, `finish_ok_iff_untouched(')`, `finish_err_partial`,
      `finish_err_exact`, `finish_err_leaves`, `answers_positional`, `handle_returns_value_iff`,
      `run_append_of_unblocked`, `checkpoint_clause`, `checkpoint_hands_back_armed`,
      `drop_clause`, `drop_unwinding_clause`, `blocked_trace_indep_of_end`, `panic_mem_iff`,
      `bombMsg_zero`, `bombMsg_states_count`
-/
open Accum

namespace C05

/-! ## 1. vocabulary taken from the text -/

/-- the errors one operation puts into the accumulator -/
def put : AOp → List Err
  | .push e => [e]
  | .handleErr e => [e]
  | .handleInErr e => [e]
  | .extend es => es
  | .handleOk _ => []
  | .handleInOk _ => []
  | .checkpoint => []

/-- everything a list of operations puts into the accumulator, in the order of the operations -/
def putAll (ops : List AOp) : List Err := (ops.map put).flatten

/-- "an error was pushed, handled or extended into it" -/
def Records : AOp → Prop
  | .push _ => True
  | .handleErr _ => True
  | .handleInErr _ => True
  | .extend es => es ≠ []
  | .handleOk _ => False
  | .handleInOk _ => False
  | .checkpoint => False

/-- "no error was ever pushed, handled or extended into it" -/
def Untouched (ops : List AOp) : Prop := ∀ op ∈ ops, ¬ Records op

/-- what an operation hands back when it does not end the history -/
def answer : AOp → AOut
  | .push _ => .unit
  | .extend _ => .unit
  | .handleOk v => .some v
  | .handleInOk v => .some v
  | .handleErr _ => .none
  | .handleInErr _ => .none
  | .checkpoint => .fresh

def isCp : AOp → Bool
  | .checkpoint => true
  | _ => false

/-- position `i` holds a `checkpoint`, and something was recorded before it (counting what the
    accumulator held at the start) -/
def Blocked (errs : List Err) (ops : List AOp) (i : Nat) : Prop :=
  ops[i]? = some .checkpoint ∧ errs ++ putAll (ops.take i) ≠ []

def blockedB (errs : List Err) (ops : List AOp) (i : Nat) : Bool :=
  (match ops[i]? with
   | some op => isCp op
   | none => false) && !(errs ++ putAll (ops.take i)).isEmpty

/-- the first blocked position -/
def blockedAt (errs : List Err) (ops : List AOp) : Option Nat :=
  (List.range ops.length).find? (blockedB errs ops)

/-- what iterating an error yields (`impl IntoIterator for Error`): the children of a bundle,
    the error itself otherwise -/
def members : Err → List Err
  | .multi cs _ _ => cs
  | e => [e]

theorem members_eq_intoIter (e : Err) : members e = e.intoIter := by
  cases e <;> rfl

/-- the drop bomb's message for `n` lost errors (the wording is the library's; the text asks that
    there be a panic in both cases and that the count be stated when it is not zero) -/
def bombMsg (n : Nat) : String :=
  if n = 0 then "darling::error::Accumulator dropped without being finished"
  else "darling::error::Accumulator dropped without being finished. " ++ toString n ++ " errors were lost."

/-- what the end of a history must yield, given everything that was recorded -/
def endSpec (rec : List Err) : AEnd → AOut
  | .finish => if rec.isEmpty then .okUnit else .err (.multi rec [] none)
  | .finishWith v => if rec.isEmpty then .ok v else .err (.multi rec [] none)
  | .intoInner => .errs rec
  | .drop false => .panic (bombMsg rec.length)
  | .drop true => .quiet

theorem endSpec_finish (rec : List Err) :
    endSpec rec .finish = if rec.isEmpty then .okUnit else .err (.multi rec [] none) := rfl
theorem endSpec_finishWith (rec : List Err) (v : Nat) :
    endSpec rec (.finishWith v) = if rec.isEmpty then .ok v else .err (.multi rec [] none) := rfl

/-- the whole trace, by position -/
def traceSpec (errs : List Err) (ops : List AOp) (e : AEnd) : List AOut :=
  match blockedAt errs ops with
  | none => ops.map answer ++ [endSpec (errs ++ putAll ops) e]
  | some i => (ops.take i).map answer ++ [.err (.multi (errs ++ putAll (ops.take i)) [] none)]

/-- read an error result through its members -/
def asBundle : AOut → AOut
  | .err b => .err (.multi (members b) [] none)
  | o => o

/-- the library's rule for a bundle of exactly one error: it is that error -/
def collapse : AOut → AOut
  | .err (.multi [x] [] none) => .err x
  | o => o

/-- a list consisting of one error that is itself a bundle -/
def SoleBundle (l : List Err) : Prop := ∃ cs ls s, l = [.multi cs ls s]

/-- no error result demanded by the specification is the bundle of a sole bundle -/
def Harmless (errs : List Err) (ops : List AOp) (e : AEnd) : Prop :=
  ∀ r, AOut.err (.multi r [] none) ∈ traceSpec errs ops e → ¬ SoleBundle r

/-! ## 2. the vocabulary means what it says -/

@[simp] theorem putAll_nil : putAll [] = [] := rfl
@[simp] theorem putAll_cons (op : AOp) (ops : List AOp) : putAll (op :: ops) = put op ++ putAll ops := by
  simp only [putAll, List.map_cons, List.flatten_cons]
theorem putAll_append (a b : List AOp) : putAll (a ++ b) = putAll a ++ putAll b := by
  simp only [putAll, List.map_append, List.flatten_append]

theorem put_eq_nil_iff (op : AOp) : put op = [] ↔ ¬ Records op := by
  cases op <;> simp [put, Records]

theorem putAll_eq_nil_iff (ops : List AOp) : putAll ops = [] ↔ Untouched ops := by
  induction ops with
  | nil => simp [Untouched]
  | cons op ops ih =>
      simp only [putAll_cons, List.append_eq_nil_iff, ih, put_eq_nil_iff, Untouched,
        List.mem_cons, forall_eq_or_imp]

/-- the existing vocabulary of `Darling/Props/C05.lean` agrees -/
theorem putAll_eq_recorded (ops : List AOp) : putAll ops = recorded ops := by
  induction ops with
  | nil => rfl
  | cons op ops ih =>
      rw [putAll_cons, recorded_cons, ih]
      cases op <;> rfl

theorem putAll_take_prefix (ops : List AOp) (i : Nat) :
    putAll ops = putAll (ops.take i) ++ putAll (ops.drop i) := by
  rw [← putAll_append, List.take_append_drop]

theorem blockedB_iff (errs ops i) : blockedB errs ops i = true ↔ Blocked errs ops i := by
  unfold blockedB Blocked
  cases h : ops[i]? with
  | none => simp
  | some op => cases op <;> simp [isCp]

theorem blockedAt_eq_some_iff (errs ops i) :
    blockedAt errs ops = some i ↔ Blocked errs ops i ∧ ∀ j, j < i → ¬ Blocked errs ops j := by
  unfold blockedAt
  rw [List.find?_range_eq_some]
  constructor
  · rintro ⟨h1, _, h3⟩
    refine ⟨(blockedB_iff _ _ _).1 h1, fun j hj hb => ?_⟩
    have := h3 j hj
    rw [(blockedB_iff _ _ _).2 hb] at this
    cases this
  · rintro ⟨h1, h3⟩
    refine ⟨(blockedB_iff _ _ _).2 h1, ?_, fun j hj => ?_⟩
    · rw [List.mem_range]
      have := h1.1
      exact (List.getElem?_eq_some_iff.1 this).1
    · cases hb : blockedB errs ops j with
      | false => rfl
      | true => exact absurd ((blockedB_iff _ _ _).1 hb) (h3 j hj)

theorem blockedAt_eq_none_iff (errs ops) :
    blockedAt errs ops = none ↔ ∀ i, ¬ Blocked errs ops i := by
  unfold blockedAt
  rw [List.find?_range_eq_none]
  constructor
  · intro h i hb
    have hlt : i < ops.length := (List.getElem?_eq_some_iff.1 hb.1).1
    have := h i hlt
    rw [(blockedB_iff _ _ _).2 hb] at this
    cases this
  · intro h i _
    cases hb : blockedB errs ops i with
    | false => rfl
    | true => exact absurd ((blockedB_iff _ _ _).1 hb) (h i)

/-! ## 3. how the specification unfolds along a history -/

theorem blockedAt_nil (errs : List Err) : blockedAt errs [] = none := rfl

theorem blockedB_zero (errs op ops) : blockedB errs (op :: ops) 0 = (isCp op && !errs.isEmpty) := by
  simp [blockedB]

theorem blockedB_succ (errs op ops i) :
    blockedB errs (op :: ops) (i + 1) = blockedB (errs ++ put op) ops i := by
  simp [blockedB, List.append_assoc]

theorem blockedAt_cons (errs : List Err) (op : AOp) (ops : List AOp) :
    blockedAt errs (op :: ops) =
      if (isCp op && !errs.isEmpty) = true then some 0
      else (blockedAt (errs ++ put op) ops).map (· + 1) := by
  unfold blockedAt
  rw [List.length_cons, List.range_succ_eq_map, List.find?_cons, blockedB_zero]
  cases h : (isCp op && !errs.isEmpty) with
  | true => rfl
  | false =>
      rw [List.find?_map]
      have : (blockedB errs (op :: ops) ∘ Nat.succ) = blockedB (errs ++ put op) ops := by
        funext i; exact blockedB_succ errs op ops i
      rw [this]
      simp

theorem traceSpec_nil (errs : List Err) (e : AEnd) : traceSpec errs [] e = [endSpec errs e] := by
  simp [traceSpec, blockedAt_nil]

/-- an operation other than `checkpoint` answers, and the rest goes on with what it put in -/
theorem traceSpec_cons_of_not_cp (errs : List Err) (op : AOp) (ops : List AOp) (e : AEnd)
    (h : isCp op = false) :
    traceSpec errs (op :: ops) e = answer op :: traceSpec (errs ++ put op) ops e := by
  unfold traceSpec
  rw [blockedAt_cons, h]
  simp only [Bool.false_and, Bool.false_eq_true, if_false]
  cases blockedAt (errs ++ put op) ops with
  | none => simp [List.append_assoc]
  | some i => simp [List.append_assoc]

/-- a `checkpoint` on an empty accumulator hands back a fresh one, and the rest starts over -/
theorem traceSpec_cp_nil (ops : List AOp) (e : AEnd) :
    traceSpec [] (.checkpoint :: ops) e = .fresh :: traceSpec [] ops e := by
  unfold traceSpec
  rw [blockedAt_cons]
  simp only [List.isEmpty_nil, Bool.not_true, Bool.and_false, Bool.false_eq_true, if_false]
  rw [show ([] : List Err) ++ put AOp.checkpoint = [] from rfl]
  cases blockedAt [] ops with
  | none => simp [answer, put]
  | some i => simp [answer, put]

/-- a `checkpoint` on a non-empty accumulator ends the history with everything it holds -/
theorem traceSpec_cp_cons (x : Err) (xs : List Err) (ops : List AOp) (e : AEnd) :
    traceSpec (x :: xs) (.checkpoint :: ops) e = [.err (.multi (x :: xs) [] none)] := by
  unfold traceSpec
  rw [blockedAt_cons]
  simp [isCp]

/-! ## 4. model = specification -/

theorem collapse_answer (op : AOp) : collapse (answer op) = answer op := by
  cases op <;> rfl

/-- the end of a history, exactly -/
theorem finishOp_eq_collapse_endSpec (errs : List Err) (e : AEnd) :
    finishOp errs e = collapse (endSpec errs e) := by
  cases e with
  | finish =>
      match errs with
      | [] => rfl
      | [x] => rfl
      | x :: y :: r => rfl
  | finishWith v =>
      match errs with
      | [] => rfl
      | [x] => rfl
      | x :: y :: r => rfl
  | intoInner => rfl
  | drop u =>
      cases u with
      | true => rfl
      | false =>
          cases errs with
          | nil => rfl
          | cons x xs =>
              simp [finishOp, dropOut, endSpec, collapse, bombMsg]

/-- **model = specification, exactly and for every history**: the trace of the model is the
    specified trace, except that where the specification demands the bundle of exactly one error
    the library hands back that error itself -/
theorem run_eq_collapse_spec (errs : List Err) (ops : List AOp) (e : AEnd) :
    run errs ops e = (traceSpec errs ops e).map collapse := by
  induction ops generalizing errs with
  | nil => simp only [run, traceSpec_nil, List.map_cons, List.map_nil, finishOp_eq_collapse_endSpec]
  | cons op ops ih =>
      cases op with
      | checkpoint =>
          match errs with
          | [] =>
              rw [traceSpec_cp_nil, List.map_cons, ← ih]
              rfl
          | [x] => rw [traceSpec_cp_cons]; rfl
          | x :: y :: r => rw [traceSpec_cp_cons]; rfl
      | push x => rw [traceSpec_cons_of_not_cp _ _ _ _ rfl, List.map_cons, ← ih]; rfl
      | handleOk v =>
          rw [traceSpec_cons_of_not_cp _ _ _ _ rfl, List.map_cons, ← ih]
          simp [run, put, answer, collapse]
      | handleErr x => rw [traceSpec_cons_of_not_cp _ _ _ _ rfl, List.map_cons, ← ih]; rfl
      | handleInOk v =>
          rw [traceSpec_cons_of_not_cp _ _ _ _ rfl, List.map_cons, ← ih]
          simp [run, put, answer, collapse]
      | handleInErr x => rw [traceSpec_cons_of_not_cp _ _ _ _ rfl, List.map_cons, ← ih]; rfl
      | extend xs => rw [traceSpec_cons_of_not_cp _ _ _ _ rfl, List.map_cons, ← ih]; rfl

/-! ## 5. the faithful reading: an error result is judged by its members -/

/-- the outputs the specification can demand: an error result is always a fresh bundle -/
def SpecShaped : AOut → Prop
  | .err b => ∃ r, b = .multi r [] none
  | _ => True

theorem specShaped_answer (op : AOp) : SpecShaped (answer op) := by
  cases op <;> exact True.intro

theorem specShaped_endSpec (rec : List Err) (e : AEnd) : SpecShaped (endSpec rec e) := by
  cases e with
  | finish => rw [endSpec_finish]; split; exact True.intro; exact ⟨_, rfl⟩
  | finishWith v => rw [endSpec_finishWith]; split; exact True.intro; exact ⟨_, rfl⟩
  | intoInner => exact True.intro
  | drop u => cases u <;> exact True.intro

theorem specShaped_traceSpec (errs ops e) : ∀ x ∈ traceSpec errs ops e, SpecShaped x := by
  intro x hx
  unfold traceSpec at hx
  cases hb : blockedAt errs ops with
  | none =>
      rw [hb] at hx
      simp only [List.mem_append, List.mem_map, List.mem_singleton] at hx
      rcases hx with ⟨op, _, rfl⟩ | rfl
      · exact specShaped_answer op
      · exact specShaped_endSpec _ _
  | some i =>
      rw [hb] at hx
      simp only [List.mem_append, List.mem_map, List.mem_singleton] at hx
      rcases hx with ⟨op, _, rfl⟩ | rfl
      · exact specShaped_answer op
      · exact ⟨_, rfl⟩

theorem multi_not_own_child (cs : List Err) (ls : List String) (s : Option Span) :
    cs ≠ [Err.multi cs ls s] := by
  intro h
  have := congrArg sizeOf h
  simp at this
  omega

theorem collapse_err_multi (r : List Err) :
    collapse (.err (.multi r [] none)) =
      .err (match r with
            | [x] => x
            | _ => .multi r [] none) := by
  match r with
  | [] => rfl
  | [x] => rfl
  | x :: y :: t => rfl

/-- the library's answer, read through its members, is the demanded bundle exactly when the
    bundled list is not a sole bundle -/
theorem asBundle_collapse_fixed_iff (r : List Err) :
    asBundle (collapse (.err (.multi r [] none))) = .err (.multi r [] none) ↔ ¬ SoleBundle r := by
  match r with
  | [] =>
      constructor
      · rintro _ ⟨cs, ls, s, h⟩; cases h
      · intro _; rfl
  | [.leaf k l sp] =>
      constructor
      · rintro _ ⟨cs, ls, s, h⟩; cases h
      · intro _; rfl
  | [.multi cs ls s] =>
      constructor
      · intro h
        simp only [collapse, asBundle, members, AOut.err.injEq, Err.multi.injEq, and_true] at h
        exact absurd h (multi_not_own_child cs ls s)
      · intro h; exact absurd ⟨cs, ls, s, rfl⟩ h
  | x :: y :: t =>
      constructor
      · rintro _ ⟨cs, ls, s, h⟩; cases h
      · intro _; rfl

theorem pointwise_fixed_iff (x : AOut) (hx : SpecShaped x) :
    asBundle (collapse x) = x ↔ ∀ r, x = .err (.multi r [] none) → ¬ SoleBundle r := by
  cases x with
  | err b =>
      obtain ⟨r, rfl⟩ := hx
      rw [asBundle_collapse_fixed_iff]
      constructor
      · intro h r' hr'
        simp only [AOut.err.injEq, Err.multi.injEq, and_true] at hr'
        exact hr' ▸ h
      · intro h; exact h r rfl
  | _ =>
      constructor
      · intro _ r hr; cases hr
      · intro _; rfl

theorem map_eq_self_iff {α : Type} (f : α → α) (l : List α) : l.map f = l ↔ ∀ x ∈ l, f x = x := by
  induction l with
  | nil => simp
  | cons a l ih => simp only [List.map_cons, List.cons.injEq, ih, List.mem_cons, forall_eq_or_imp]

/-- **the text's reading holds exactly on the harmless histories**: reading every error result
    through its members, the model's trace is the specified trace if and only if no bundled list
    is a sole bundle -/
theorem run_asBundle_eq_spec_iff (errs : List Err) (ops : List AOp) (e : AEnd) :
    (run errs ops e).map asBundle = traceSpec errs ops e ↔ Harmless errs ops e := by
  rw [run_eq_collapse_spec, List.map_map, map_eq_self_iff]
  unfold Harmless
  constructor
  · intro h r hr
    exact (pointwise_fixed_iff _ (specShaped_traceSpec _ _ _ _ hr)).1 (h _ hr) r rfl
  · intro h x hx
    refine (pointwise_fixed_iff x (specShaped_traceSpec _ _ _ _ hx)).2 ?_
    intro r hr
    exact h r (hr ▸ hx)

theorem run_asBundle_eq_spec_partial (errs : List Err) (ops : List AOp) (e : AEnd)
    (h : Harmless errs ops e) : (run errs ops e).map asBundle = traceSpec errs ops e :=
  (run_asBundle_eq_spec_iff errs ops e).2 h

/-- which list an error result of the specification bundles: everything recorded up to some
    position of the history -/
theorem mem_traceSpec_err (errs ops e) (r : List Err)
    (h : AOut.err (.multi r [] none) ∈ traceSpec errs ops e) :
    (∃ i, blockedAt errs ops = some i ∧ r = errs ++ putAll (ops.take i)) ∨
    (blockedAt errs ops = none ∧ (e = .finish ∨ ∃ v, e = .finishWith v) ∧
      r = errs ++ putAll ops ∧ r ≠ []) := by
  unfold traceSpec at h
  cases hb : blockedAt errs ops with
  | some i =>
      rw [hb] at h
      simp only [List.mem_append, List.mem_map, List.mem_singleton] at h
      rcases h with ⟨op, _, hop⟩ | h
      · cases op <;> cases hop
      · simp only [AOut.err.injEq, Err.multi.injEq, and_true] at h
        exact Or.inl ⟨i, rfl, h⟩
  | none =>
      rw [hb] at h
      simp only [List.mem_append, List.mem_map, List.mem_singleton] at h
      rcases h with ⟨op, _, hop⟩ | h
      · cases op <;> cases hop
      · refine Or.inr ⟨rfl, ?_⟩
        cases e with
        | finish =>
            rw [endSpec_finish] at h
            split at h
            · cases h
            · rename_i hne
              simp only [AOut.err.injEq, Err.multi.injEq, and_true] at h
              refine ⟨Or.inl rfl, h, ?_⟩
              intro hr; rw [← h, hr] at hne; exact hne rfl
        | finishWith v =>
            rw [endSpec_finishWith] at h
            split at h
            · cases h
            · rename_i hne
              simp only [AOut.err.injEq, Err.multi.injEq, and_true] at h
              refine ⟨Or.inr ⟨v, rfl⟩, h, ?_⟩
              intro hr; rw [← h, hr] at hne; exact hne rfl
        | intoInner => cases h
        | drop u => cases u <;> cases h

/-- a sufficient condition that does not mention the specification: no recorded error is itself
    a bundle -/
theorem harmless_of_no_bundle_recorded (errs ops e)
    (h : ∀ x ∈ errs ++ putAll ops, ∀ cs ls s, x ≠ Err.multi cs ls s) : Harmless errs ops e := by
  intro r hr ⟨cs, ls, s, hs⟩
  have hsub : ∀ x ∈ r, x ∈ errs ++ putAll ops := by
    rcases mem_traceSpec_err errs ops e r hr with ⟨i, _, hi⟩ | ⟨_, _, hi, _⟩
    · intro x hx
      rw [hi] at hx
      rw [putAll_take_prefix ops i]
      simp only [List.mem_append] at hx ⊢
      rcases hx with hx | hx
      · exact Or.inl hx
      · exact Or.inr (Or.inl hx)
    · intro x hx; rw [hi] at hx; exact hx
  exact h _ (hsub _ (by rw [hs]; exact List.mem_singleton.2 rfl)) cs ls s rfl

/-- a sufficient condition by positions: what is recorded before any `checkpoint`, and before a
    `finish`/`finish_with` end, is not a sole bundle -/
theorem harmless_of_positions (errs ops e)
    (hcp : ∀ i, ops[i]? = some .checkpoint → ¬ SoleBundle (errs ++ putAll (ops.take i)))
    (hend : (e = .finish ∨ ∃ v, e = .finishWith v) → ¬ SoleBundle (errs ++ putAll ops)) :
    Harmless errs ops e := by
  intro r hr
  rcases mem_traceSpec_err errs ops e r hr with ⟨i, hb, hi⟩ | ⟨_, he, hi, _⟩
  · rw [hi]
    exact hcp i ((blockedAt_eq_some_iff _ _ _).1 hb).1.1
  · rw [hi]; exact hend he

/-! ## 6. the clauses of the property, about `run` itself -/

/-- the last output the specification demands -/
def lastSpec (errs : List Err) (ops : List AOp) (e : AEnd) : AOut :=
  match blockedAt errs ops with
  | none => endSpec (errs ++ putAll ops) e
  | some i => .err (.multi (errs ++ putAll (ops.take i)) [] none)

/-- how many operations get an answer: all of them, or those before the first blocked checkpoint -/
def answered (errs : List Err) (ops : List AOp) : Nat :=
  match blockedAt errs ops with
  | none => ops.length
  | some i => i

theorem traceSpec_eq (errs ops e) :
    traceSpec errs ops e = (ops.take (answered errs ops)).map answer ++ [lastSpec errs ops e] := by
  unfold traceSpec answered lastSpec
  cases blockedAt errs ops with
  | none => simp
  | some i => rfl

theorem answered_le (errs ops) : answered errs ops ≤ ops.length := by
  unfold answered
  cases h : blockedAt errs ops with
  | none => exact Nat.le_refl _
  | some i =>
      have := ((blockedAt_eq_some_iff _ _ _).1 h).1.1
      exact Nat.le_of_lt (List.getElem?_eq_some_iff.1 this).1

theorem run_eq (errs ops e) :
    run errs ops e = (ops.take (answered errs ops)).map answer ++ [collapse (lastSpec errs ops e)] := by
  rw [run_eq_collapse_spec, traceSpec_eq, List.map_append, List.map_map]
  congr 1
  apply List.map_congr_left
  intro op _
  exact collapse_answer op

theorem run_getLast (errs ops e) :
    (run errs ops e).getLast? = some (collapse (lastSpec errs ops e)) := by
  rw [run_eq, List.getLast?_concat]

theorem run_length (errs ops e) : (run errs ops e).length = answered errs ops + 1 := by
  rw [run_eq]
  simp [Nat.min_eq_left (answered_le errs ops)]

theorem collapse_err (b : Err) : ∃ b', collapse (.err b) = .err b' := by
  unfold collapse
  split
  · exact ⟨_, rfl⟩
  · exact ⟨_, rfl⟩

/-- something recorded before a blocked checkpoint is recorded in the whole history -/
theorem not_nil_of_blocked (errs ops i) (h : blockedAt errs ops = some i) :
    errs ++ putAll ops ≠ [] := by
  have hb := ((blockedAt_eq_some_iff _ _ _).1 h).1.2
  intro hnil
  apply hb
  rw [putAll_take_prefix ops i] at hnil
  simp only [List.append_eq_nil_iff] at hnil ⊢
  exact ⟨hnil.1, hnil.2.1⟩

/-- nothing recorded: no checkpoint is blocked -/
theorem blockedAt_none_of_nil (errs ops) (h : errs ++ putAll ops = []) : blockedAt errs ops = none := by
  cases hb : blockedAt errs ops with
  | none => rfl
  | some i => exact absurd h (not_nil_of_blocked errs ops i hb)

/-- **clause 1** — finishing with a value yields success with that value if and only if the
    accumulator was empty to begin with and no error was ever pushed, handled or extended into it -/
theorem finish_with_ok_iff_untouched' (errs : List Err) (ops : List AOp) (v : Nat) :
    (run errs ops (.finishWith v)).getLast? = some (.ok v) ↔ errs = [] ∧ Untouched ops := by
  rw [run_getLast, ← putAll_eq_nil_iff, ← List.append_eq_nil_iff]
  unfold lastSpec
  cases hb : blockedAt errs ops with
  | some i =>
      obtain ⟨b', hb'⟩ := collapse_err (.multi (errs ++ putAll (ops.take i)) [] none)
      simp only [hb', Option.some.injEq]
      constructor
      · intro h; cases h
      · intro h; exact absurd h (not_nil_of_blocked errs ops i hb)
  | none =>
      simp only [endSpec_finishWith, Option.some.injEq]
      split
      · rename_i he
        simp only [collapse, true_iff]
        exact List.isEmpty_iff.1 he
      · rename_i he
        obtain ⟨b', hb'⟩ := collapse_err (.multi (errs ++ putAll ops) [] none)
        rw [hb']
        constructor
        · intro h; cases h
        · intro h; exact absurd (List.isEmpty_iff.2 h) he

theorem finish_with_ok_iff_untouched (ops : List AOp) (v : Nat) :
    (run [] ops (.finishWith v)).getLast? = some (.ok v) ↔ Untouched ops := by
  simpa using finish_with_ok_iff_untouched' [] ops v

/-- the same for `finish()`, whose success is `Ok(())` -/
theorem finish_ok_iff_untouched' (errs : List Err) (ops : List AOp) :
    (run errs ops .finish).getLast? = some .okUnit ↔ errs = [] ∧ Untouched ops := by
  rw [run_getLast, ← putAll_eq_nil_iff, ← List.append_eq_nil_iff]
  unfold lastSpec
  cases hb : blockedAt errs ops with
  | some i =>
      obtain ⟨b', hb'⟩ := collapse_err (.multi (errs ++ putAll (ops.take i)) [] none)
      simp only [hb', Option.some.injEq]
      constructor
      · intro h; cases h
      · intro h; exact absurd h (not_nil_of_blocked errs ops i hb)
  | none =>
      simp only [endSpec_finish, Option.some.injEq]
      split
      · rename_i he
        simp only [collapse, true_iff]
        exact List.isEmpty_iff.1 he
      · rename_i he
        obtain ⟨b', hb'⟩ := collapse_err (.multi (errs ++ putAll ops) [] none)
        rw [hb']
        constructor
        · intro h; cases h
        · intro h; exact absurd (List.isEmpty_iff.2 h) he

theorem finish_ok_iff_untouched (ops : List AOp) :
    (run [] ops .finish).getLast? = some .okUnit ↔ Untouched ops := by
  simpa using finish_ok_iff_untouched' [] ops

/-- a history whose end is `finish` or `finish_with` -/
def Finishes (e : AEnd) : Prop := e = .finish ∨ ∃ v, e = .finishWith v

theorem lastSpec_of_recorded (errs ops e) (he : Finishes e) (hne : errs ++ putAll ops ≠ []) :
    ∃ k, k ≤ ops.length ∧ errs ++ putAll (ops.take k) ≠ [] ∧
      (blockedAt errs ops = none → k = ops.length) ∧
      lastSpec errs ops e = .err (.multi (errs ++ putAll (ops.take k)) [] none) := by
  unfold lastSpec
  cases hb : blockedAt errs ops with
  | some i =>
      have hB := ((blockedAt_eq_some_iff _ _ _).1 hb).1
      exact ⟨i, Nat.le_of_lt (List.getElem?_eq_some_iff.1 hB.1).1, hB.2, fun h => (by cases h), rfl⟩
  | none =>
      refine ⟨ops.length, Nat.le_refl _, by rwa [List.take_length], fun _ => rfl, ?_⟩
      have hemp : (errs ++ putAll ops).isEmpty = false := by
        cases h : (errs ++ putAll ops).isEmpty with
        | false => rfl
        | true => exact absurd (List.isEmpty_iff.1 h) hne
      rw [List.take_length]
      rcases he with rfl | ⟨v, rfl⟩
      · rw [endSpec_finish, hemp]; rfl
      · rw [endSpec_finishWith, hemp]; rfl

/-- **clause 2, faithful form** — otherwise the history ends with an error whose members are
    exactly the errors recorded up to that point, in recording order (all of them when the end
    of the history is reached) — provided that list is not a sole bundle -/
theorem finish_err_partial (errs ops e) (he : Finishes e) (hne : errs ++ putAll ops ≠ [])
    (hh : Harmless errs ops e) :
    ∃ k b, k ≤ ops.length ∧ (blockedAt errs ops = none → k = ops.length) ∧
      (run errs ops e).getLast? = some (.err b) ∧
      members b = errs ++ putAll (ops.take k) ∧ members b ≠ [] := by
  obtain ⟨k, hk, hnek, hall, hl⟩ := lastSpec_of_recorded errs ops e he hne
  have hmem : AOut.err (.multi (errs ++ putAll (ops.take k)) [] none) ∈ traceSpec errs ops e := by
    rw [traceSpec_eq, hl]; simp
  have hfix := (asBundle_collapse_fixed_iff _).2 (hh _ hmem)
  obtain ⟨b, hb⟩ := collapse_err (.multi (errs ++ putAll (ops.take k)) [] none)
  refine ⟨k, b, hk, hall, by rw [run_getLast, hl, hb], ?_⟩
  rw [hb] at hfix
  simp only [asBundle, AOut.err.injEq, Err.multi.injEq, and_true] at hfix
  exact ⟨hfix, by rw [hfix]; exact hnek⟩

/-- **clause 2, exact form** — what the library hands back in every case: the single recorded
    error itself, or a fresh bundle (no location, no span) of the two or more recorded errors -/
theorem finish_err_exact (errs ops e) (he : Finishes e) (hne : errs ++ putAll ops ≠ []) :
    ∃ k b, k ≤ ops.length ∧ (blockedAt errs ops = none → k = ops.length) ∧
      (run errs ops e).getLast? = some (.err b) ∧
      Spec.C05.Bundles b (errs ++ putAll (ops.take k)) := by
  obtain ⟨k, hk, hnek, hall, hl⟩ := lastSpec_of_recorded errs ops e he hne
  refine ⟨k, _, hk, hall, by rw [run_getLast, hl, collapse_err_multi], hnek, ?_⟩
  generalize errs ++ putAll (ops.take k) = r at hnek
  match r, hnek with
  | [x], _ => exact Or.inl rfl
  | x :: y :: t, _ => exact Or.inr ⟨by simp, rfl⟩

/-- **clause 3** — every operation that does not end the history gets the answer that belongs to
    it alone, whatever the accumulator holds -/
theorem answers_positional (errs ops e) (i : Nat) (hi : i + 1 < (run errs ops e).length) :
    (run errs ops e)[i]? = (ops[i]?).map answer := by
  rw [run_length] at hi
  have hi' : i < answered errs ops := by omega
  have hle := answered_le errs ops
  rw [run_eq, List.getElem?_append_left (by rw [List.length_map, List.length_take]; omega),
    List.getElem?_map, List.getElem?_take_of_lt hi']

/-- **clause 3** — `handle` (and `handle_in`) hands back the value exactly when given `Ok` -/
theorem handle_returns_value_iff (errs ops e) (i : Nat) (op : AOp) (v : Nat)
    (hi : i + 1 < (run errs ops e).length) (hop : ops[i]? = some op) :
    (run errs ops e)[i]? = some (.some v) ↔ op = .handleOk v ∨ op = .handleInOk v := by
  rw [answers_positional errs ops e i hi, hop]
  cases op <;> simp [answer]

theorem run_cons_of_not_cp (errs : List Err) (op : AOp) (ops : List AOp) (e : AEnd)
    (h : isCp op = false) : run errs (op :: ops) e = answer op :: run (errs ++ put op) ops e := by
  cases op with
  | checkpoint => cases h
  | handleOk v => simp [run, answer, put]
  | handleInOk v => simp [run, answer, put]
  | push x => rfl
  | handleErr x => rfl
  | handleInErr x => rfl
  | extend xs => rfl

/-- a prefix in which no checkpoint is blocked is answered operation by operation, and the rest
    goes on with everything recorded -/
theorem run_append_of_unblocked (errs : List Err) (pre post : List AOp) (e : AEnd)
    (h : blockedAt errs pre = none) :
    run errs (pre ++ post) e = pre.map answer ++ run (errs ++ putAll pre) post e := by
  induction pre generalizing errs with
  | nil => simp
  | cons op pre ih =>
      rw [blockedAt_cons] at h
      split at h
      · cases h
      · rename_i hcp
        have h' : blockedAt (errs ++ put op) pre = none := by
          cases hb : blockedAt (errs ++ put op) pre with
          | none => rfl
          | some j => rw [hb] at h; cases h
        cases hc : isCp op with
        | false =>
            rw [List.cons_append, run_cons_of_not_cp _ _ _ _ hc, ih _ h', List.map_cons,
              putAll_cons, List.append_assoc]
            rfl
        | true =>
            cases op with
            | checkpoint =>
                cases errs with
                | nil =>
                    show AOut.fresh :: run [] (pre ++ post) e = _
                    rw [ih [] h']
                    rfl
                | cons x xs => simp [isCp] at hcp
            | push x => cases hc
            | handleOk v => cases hc
            | handleErr x => cases hc
            | handleInOk v => cases hc
            | handleInErr x => cases hc
            | extend xs => cases hc

/-- **clause 4** — `checkpoint`, after any prefix that got through: it fails with everything
    recorded so far and that ends the history, or (nothing recorded) it hands back a fresh
    accumulator and the rest of the history runs on that -/
theorem checkpoint_clause (errs : List Err) (pre post : List AOp) (e : AEnd)
    (h : blockedAt errs pre = none) :
    (errs ++ putAll pre = [] →
        run errs (pre ++ .checkpoint :: post) e = pre.map answer ++ .fresh :: run [] post e) ∧
    (errs ++ putAll pre ≠ [] →
        run errs (pre ++ .checkpoint :: post) e =
          pre.map answer ++ [collapse (.err (.multi (errs ++ putAll pre) [] none))]) := by
  rw [run_append_of_unblocked errs pre _ e h]
  constructor
  · intro hnil; rw [hnil]; rfl
  · intro hne
    generalize errs ++ putAll pre = r at hne
    match r, hne with
    | [x], _ => rfl
    | x :: y :: t, _ => rfl

/-- **clause 4** — the accumulator handed back by `checkpoint` is armed: dropping it at once
    panics with the message for an empty accumulator -/
theorem checkpoint_hands_back_armed (errs : List Err) (pre : List AOp)
    (h : blockedAt errs pre = none) (hnil : errs ++ putAll pre = []) :
    run errs (pre ++ [.checkpoint]) (.drop false) = pre.map answer ++ [.fresh, .panic (bombMsg 0)] := by
  rw [(checkpoint_clause errs pre [] (.drop false) h).1 hnil]
  rfl

/-- **clause 5** — an accumulator that goes out of scope unfinished panics, and the message is
    the one for the number of recorded errors -/
theorem drop_clause (errs ops) (h : blockedAt errs ops = none) :
    (run errs ops (.drop false)).getLast? = some (.panic (bombMsg (errs ++ putAll ops).length)) := by
  rw [run_getLast]; unfold lastSpec; rw [h]; rfl

/-- **clause 5** — except while the thread is already unwinding -/
theorem drop_unwinding_clause (errs ops) (h : blockedAt errs ops = none) :
    (run errs ops (.drop true)).getLast? = some .quiet := by
  rw [run_getLast]; unfold lastSpec; rw [h]; rfl

/-- a failed checkpoint consumed the accumulator: nothing is left to finish or to drop -/
theorem blocked_trace_indep_of_end (errs ops i) (e e' : AEnd) (h : blockedAt errs ops = some i) :
    run errs ops e = run errs ops e' := by
  rw [run_eq, run_eq]; unfold lastSpec; rw [h]

/-- "even when empty" -/
theorem bombMsg_zero : bombMsg 0 = "darling::error::Accumulator dropped without being finished" := rfl

/-- "stating how many errors were lost when not" -/
theorem bombMsg_states_count (n : Nat) (h : n ≠ 0) :
    ∃ pre post, bombMsg n = pre ++ toString n ++ post := by
  refine ⟨"darling::error::Accumulator dropped without being finished. ", " errors were lost.", ?_⟩
  simp only [bombMsg, if_neg h]

theorem collapse_endSpec_eq_panic_iff (rec : List Err) (e : AEnd) (m : String) :
    collapse (endSpec rec e) = .panic m ↔ e = .drop false ∧ m = bombMsg rec.length := by
  cases e with
  | finish =>
      rw [endSpec_finish]
      cases rec.isEmpty
      · simp [collapse_err_multi]
      · simp [collapse]
  | finishWith v =>
      rw [endSpec_finishWith]
      cases rec.isEmpty
      · simp [collapse_err_multi]
      · simp [collapse]
  | intoInner => simp [endSpec, collapse]
  | drop u =>
      cases u with
      | true => simp [endSpec, collapse]
      | false =>
          simp only [endSpec, collapse, AOut.panic.injEq, true_and]
          exact eq_comm

/-- a panic occurs in a trace exactly at an unfinished, non-unwinding drop -/
theorem panic_mem_iff (errs ops e) (m : String) :
    AOut.panic m ∈ run errs ops e ↔
      blockedAt errs ops = none ∧ e = .drop false ∧ m = bombMsg (errs ++ putAll ops).length := by
  rw [run_eq]
  simp only [List.mem_append, List.mem_map, List.mem_singleton]
  constructor
  · rintro (⟨op, _, hop⟩ | h)
    · cases op <;> cases hop
    · unfold lastSpec at h
      cases hb : blockedAt errs ops with
      | some i =>
          rw [hb] at h
          obtain ⟨b', hb'⟩ := collapse_err (.multi (errs ++ putAll (ops.take i)) [] none)
          simp only [hb'] at h
          cases h
      | none =>
          rw [hb] at h
          exact ⟨rfl, (collapse_endSpec_eq_panic_iff _ _ _).1 h.symm⟩
  · rintro ⟨hb, rfl, rfl⟩
    refine Or.inr ?_
    unfold lastSpec; rw [hb]; rfl

/-! ## 7. the reading under which text and library agree on every history: leaves

  `Error::flatten` / `Error::into_vec` see through the difference: the leaves of the returned
  error, each with the locations of its enclosing bundles, are the leaves of the recorded errors
  in recording order — also when the one recorded error is a bundle. -/

theorem intoVec_collapse_bundle (r : List Err) (b : Err)
    (h : collapse (.err (.multi r [] none)) = .err b) :
    Err.intoVec b = Err.intoVecListP [] none r := by
  rw [collapse_err_multi] at h
  match r, h with
  | [], h => cases h; simp [Err.intoVec, Err.intoVecP]
  | [x], h => cases h; simp [Err.intoVec, Err.intoVecListP]
  | x :: y :: t, h => cases h; simp [Err.intoVec, Err.intoVecP]

theorem finish_err_leaves (errs ops e) (he : Finishes e) (hne : errs ++ putAll ops ≠ []) :
    ∃ k b, k ≤ ops.length ∧ (blockedAt errs ops = none → k = ops.length) ∧
      (run errs ops e).getLast? = some (.err b) ∧
      Err.intoVec b = Err.intoVecListP [] none (errs ++ putAll (ops.take k)) := by
  obtain ⟨k, hk, _, hall, hl⟩ := lastSpec_of_recorded errs ops e he hne
  obtain ⟨b, hb⟩ := collapse_err (.multi (errs ++ putAll (ops.take k)) [] none)
  exact ⟨k, b, hk, hall, by rw [run_getLast, hl, hb], intoVec_collapse_bundle _ _ hb⟩

/-! ## 8. the discrepancy, concretely -/

/-- `Error::multiple(vec![a, b]).at("field")`: one error, which is a bundle -/
def nested : Err := .multi [e1, e2] ["field"] none

/-- one error is recorded -/
example : putAll [.push nested] = [nested] := rfl
/-- the text demands an error whose members are that one error -/
example : traceSpec [] [.push nested] (.finishWith 7) = [.unit, .err (.multi [nested] [] none)] := rfl
/-- the library hands back the recorded error itself … -/
example : run [] [.push nested] (.finishWith 7) = [.unit, .err nested] := rfl
/-- … whose members are its two children: two errors where one was recorded, and the location
    `field` is on neither of them -/
example : members nested = [e1, e2] := rfl
example : (run [] [.push nested] (.finishWith 7)).map asBundle = [.unit, .err (.multi [e1, e2] [] none)] := rfl
/-- the same through `handle` and a failing `checkpoint` -/
example : run [] [.handleErr nested, .checkpoint, .push e1] .finish = [.none, .err nested] := rfl
example : traceSpec [] [.handleErr nested, .checkpoint, .push e1] .finish
    = [.none, .err (.multi [nested] [] none)] := rfl

theorem discrepancy_not_harmless : ¬ Harmless [] [.push nested] (.finishWith 7) := by
  intro h
  exact h [nested] (by simp [show traceSpec [] [.push nested] (.finishWith 7)
    = [.unit, .err (.multi [nested] [] none)] from rfl]) ⟨_, _, _, rfl⟩

theorem discrepancy_trace :
    (run [] [.push nested] (.finishWith 7)).map asBundle ≠ traceSpec [] [.push nested] (.finishWith 7) :=
  fun h => discrepancy_not_harmless ((run_asBundle_eq_spec_iff _ _ _).1 h)

/-- at the level of leaves nothing differs -/
example : Err.intoVec nested = Err.intoVecListP [] none [nested] := by
  simp [Err.intoVec, Err.intoVecListP, nested]

/-! ## 9. non-vacuity: every hypothesis of every theorem above is satisfiable (and the interesting
    ones are also refutable) -/

def h1 : List AOp := [.handleOk 3, .checkpoint, .push e1, .extend [e2, nested], .handleInErr e1]

-- `Harmless`: holds on a history with a passing checkpoint, errors and even a recorded bundle …
example : Harmless [] h1 .finish :=
  harmless_of_positions [] h1 .finish
    (by
      intro i hi
      match i, hi with
      | 0, h => cases h
      | 1, _ => rintro ⟨cs, ls, s, h⟩; cases h
      | 2, h => cases h
      | 3, h => cases h
      | 4, h => cases h
      | n + 5, h => simp [h1] at h)
    (by rintro _ ⟨cs, ls, s, h⟩; cases h)
example : run [] h1 .finish
    = [.some 3, .fresh, .unit, .unit, .none, .err (.multi [e1, e2, nested, e1] [] none)] := rfl
example : traceSpec [] h1 .finish
    = [.some 3, .fresh, .unit, .unit, .none, .err (.multi [e1, e2, nested, e1] [] none)] := rfl
-- … and fails on `discrepancy_not_harmless`.

-- `harmless_of_no_bundle_recorded`: its hypothesis holds for leaf-only histories
example : ∀ x ∈ ([] : List Err) ++ putAll [.push e1, .checkpoint], ∀ cs ls s, x ≠ Err.multi cs ls s := by
  intro x hx cs ls s
  simp only [putAll_cons, putAll_nil, put, List.nil_append, List.append_nil, List.mem_singleton] at hx
  subst hx
  intro h; cases h

-- `blockedAt … = none` (hypothesis of `run_append_of_unblocked`, `checkpoint_clause`,
-- `checkpoint_hands_back_armed`, `drop_clause`, `drop_unwinding_clause`): true with checkpoints
-- present, false when an error precedes one
example : blockedAt [] [.handleOk 1, .checkpoint, .extend [], .checkpoint, .push e1] = none := rfl
example : blockedAt [] [.handleOk 1, .checkpoint, .push e1, .handleOk 2, .checkpoint, .checkpoint] = some 4 := rfl
example : blockedAt [e1] [.checkpoint] = some 0 := rfl
-- `errs ++ putAll pre = []` together with it (for `checkpoint_hands_back_armed`)
example : blockedAt [] [.handleOk 1, .checkpoint, .extend []] = none
    ∧ ([] : List Err) ++ putAll [.handleOk 1, .checkpoint, .extend []] = [] := ⟨rfl, rfl⟩
example : run [] ([.handleOk 1, .checkpoint, .extend []] ++ [.checkpoint]) (.drop false)
    = [.some 1, .fresh, .unit, .fresh, .panic "darling::error::Accumulator dropped without being finished"] := rfl
-- `blockedAt … = some i` (hypothesis of `blocked_trace_indep_of_end`)
example : run [] [.push e1, .checkpoint] (.drop false) = run [] [.push e1, .checkpoint] .intoInner :=
  blocked_trace_indep_of_end [] _ 1 _ _ rfl

-- `Finishes e` and `errs ++ putAll ops ≠ []` (hypotheses of `finish_err_partial`,
-- `finish_err_exact`, `finish_err_leaves`)
example : Finishes .finish := Or.inl rfl
example : Finishes (.finishWith 4) := Or.inr ⟨4, rfl⟩
example : ([] : List Err) ++ putAll [.handleOk 1, .handleErr e2] ≠ [] := by
  simp [put]

-- `Untouched`: true and false
example : Untouched [.handleOk 1, .checkpoint, .extend [], .handleInOk 2] := by
  intro op hop
  simp only [List.mem_cons, List.not_mem_nil, or_false] at hop
  rcases hop with rfl | rfl | rfl | rfl <;> simp [Records]
example : ¬ Untouched [.handleOk 1, .extend [e1]] := by
  intro h
  exact h (.extend [e1]) (by simp) (by simp [Records])

-- the index hypotheses of `answers_positional` / `handle_returns_value_iff`
example : (1 : Nat) + 1 < (run [] [.push e1, .handleOk 5, .handleErr e2] .finish).length
    ∧ [AOp.push e1, .handleOk 5, .handleErr e2][1]? = some (.handleOk 5) := ⟨by decide, rfl⟩
-- … and an operation behind a failed checkpoint is not answered
example : ¬ ((2 : Nat) + 1 < (run [] [.push e1, .checkpoint, .handleOk 5] .finish).length) := by decide

-- `n ≠ 0` in `bombMsg_states_count`
example : bombMsg 2 = "darling::error::Accumulator dropped without being finished. 2 errors were lost." := by
  decide
example : run [] [.push e1, .extend [e2, e1]] (.drop false)
    = [.unit, .unit, .panic "darling::error::Accumulator dropped without being finished. 3 errors were lost."] := by
  have : bombMsg 3 = "darling::error::Accumulator dropped without being finished. 3 errors were lost." := by
    decide
  rw [← this]
  rfl
example : run [] [.push e1, .extend [e2, e1]] (.drop true) = [.unit, .unit, .quiet] := rfl

end C05
