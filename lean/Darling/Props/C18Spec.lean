import Darling.Props.C18
import Darling.Derive.Env
/-
  C18 — an independent, declarative specification written from the property text, and the
  end-to-end theorems `model ⟺ specification`.

  The specification below never mentions the model's booleans, `DataShape`, `ShapeSet`, the
  `is_empty` tests or the variant loop.  It is phrased with membership, `∃` and `∀` only:

    * a shape word is `any`, or a family (`struct_` / `enum_`) followed by `any` or a shape name;
    * a word *declares* a (family, shape) cell;  a tuple word also declares the newtype cell;
    * a body is accepted iff `any` is among the words, or (struct) its cell is declared, or
      (enum) some enum word is present and the cell of every variant is declared;
      a union is accepted by `any` only;
    * a rejected enum (under at least one enum word) carries one leaf error per non-conforming
      variant, in source order, each naming that variant's shape.

  The end-to-end object is the real pipeline: `DISS.fromList` (= `impl FromMeta for
  DeriveInputShapeSet`, run at derive time on the `supports(...)` list) followed by
  `DISS.validateBody` (= the emitted `__validate_body`, run on the input's body).
-/

namespace C18

/-! ## 1. The specification (from the property text) -/

/-- the two families of shape words -/
inductive Family where
  | struct | enum
  deriving Repr, DecidableEq, Inhabited

/-- one of the eleven shape words: `any`, or `<family>_<cell>` where the cell is `any`
    (`none`) or one of the four shape names -/
inductive SWord where
  | any
  | fam (f : Family) (cell : Option Shape)
  deriving Repr, DecidableEq, Inhabited

def Family.pre : Family → String
  | .struct => "struct_"
  | .enum => "enum_"

def shapeName : Shape → String
  | .named => "named" | .tuple => "tuple" | .unit => "unit" | .newtype => "newtype"

def cellName : Option Shape → String
  | none => "any"
  | some s => shapeName s

/-- the identifier written inside `supports(...)` -/
def SWord.text : SWord → String
  | .any => "any"
  | .fam f c => f.pre ++ cellName c

/-- the eleven words -/
def SWord.all : List SWord :=
  .any :: ([Family.struct, Family.enum].flatMap fun f =>
    [none, some Shape.named, some Shape.tuple, some Shape.newtype, some Shape.unit].map (SWord.fam f))

/-- the documented table of one cell: `any` admits every shape, a shape name admits itself, and
    "a tuple word also admits newtypes but not the reverse" -/
def cellAdmits : Option Shape → Shape → Prop
  | none, _ => True
  | some c, s => c = s ∨ (c = .tuple ∧ s = .newtype)

instance (c : Option Shape) (s : Shape) : Decidable (cellAdmits c s) := by
  cases c <;> unfold cellAdmits <;> infer_instance

/-- what one word declares.  The bare `any` is not a struct or enum word: it is handled on its
    own ("`any` accepts everything"), so that a union can tell the difference. -/
def SWord.declares : SWord → Family → Shape → Prop
  | .any, _, _ => False
  | .fam f' c, f, s => f' = f ∧ cellAdmits c s

instance (w : SWord) (f : Family) (s : Shape) : Decidable (w.declares f s) := by
  cases w <;> unfold SWord.declares <;> infer_instance

/-- words are additive: a cell is declared as soon as one word declares it -/
def Declared (ws : List SWord) (f : Family) (s : Shape) : Prop := ∃ w ∈ ws, w.declares f s

instance (ws : List SWord) (f : Family) (s : Shape) : Decidable (Declared ws f s) := by
  unfold Declared; infer_instance

/-- some word of the family is present ("a struct is rejected when only enum words are given and
    vice versa") -/
def HasFamily (ws : List SWord) (f : Family) : Prop := ∃ c, SWord.fam f c ∈ ws

instance (ws : List SWord) (f : Family) : Decidable (HasFamily ws f) :=
  decidable_of_iff
    (∃ c ∈ [none, some Shape.named, some Shape.tuple, some Shape.newtype, some Shape.unit],
      SWord.fam f c ∈ ws)
    ⟨fun ⟨c, _, h⟩ => ⟨c, h⟩,
     fun ⟨c, h⟩ => ⟨c, by cases c with
                          | none => decide
                          | some s => cases s <;> decide, h⟩⟩

/-- **the verdict demanded by the property text** -/
def Accepts (ws : List SWord) : BodyShape → Prop
  | .struct s => SWord.any ∈ ws ∨ Declared ws .struct s
  | .enum vs => SWord.any ∈ ws ∨ (HasFamily ws .enum ∧ ∀ v ∈ vs, Declared ws .enum v)
  | .union => SWord.any ∈ ws

instance (ws : List SWord) (b : BodyShape) : Decidable (Accepts ws b) := by
  cases b <;> unfold Accepts <;> infer_instance

/-- the variants that do not conform, in source order -/
def offenders (ws : List SWord) (vs : List Shape) : List Shape :=
  vs.filter (fun v => decide (¬ Declared ws .enum v))

/-- the error is made of exactly these leaves: one per entry of `shapes`, in order, each an
    "unsupported shape" leaf that names the observed shape (and a common expectation text) -/
def OneErrorPer (shapes : List Shape) (e : Err) : Prop :=
  ∃ expected : String,
    e.intoVec = shapes.map (fun v => Err.new (.unsupportedShape v.description (some expected)))

/-- a `supports(...)` entry that spells the word `w` (whatever its spans and token text) -/
def IsWordItem (n : NestedMeta) (w : SWord) : Prop :=
  ∃ p : Path, n = .item (.path p) ∧ p.getIdent = some w.text

/-- `items` spells the words `ws`, one entry per word, in order -/
inductive Spells : List NestedMeta → List SWord → Prop where
  | nil : Spells [] []
  | cons {n w items ws} : IsWordItem n w → Spells items ws → Spells (n :: items) (w :: ws)

/-- the canonical entry for a word -/
def SWord.item (w : SWord) (sp : Span := ⟨0, 0⟩) : NestedMeta :=
  .item (.path { global := false, segs := [w.text], plain := true, toks := w.text, span := sp })

/-- the pipeline of the derived code: the declaration is read at derive time, the emitted
    validator runs on the body -/
def derived (items : List NestedMeta) (b : BodyShape) : Outcome Unit :=
  match DISS.fromList items with
  | .ok d => d.validateBody b
  | .err e => .err e
  | .panic m => .panic m

/-- the shapes a family's words list for the stand-alone `ShapeSet::new(vec![..])` -/
def wordShapes (f : Family) : SWord → List Shape
  | .any => []
  | .fam f' none => if f' = f then [.named, .tuple, .newtype, .unit] else []
  | .fam f' (some c) => if f' = f then [c] else []

def familyShapes (ws : List SWord) (f : Family) : List Shape := ws.flatMap (wordShapes f)

/-! ## 2. Facts about the specification alone -/

theorem SWord.mem_all (w : SWord) : w ∈ SWord.all := by
  cases w with
  | any => decide
  | fam f c => cases f <;> cases c <;> (try rename_i s; cases s) <;> decide

theorem SWord.all_length : SWord.all.length = 11 := by decide

/-- the eleven spellings are pairwise different -/
theorem SWord.text_injective (a b : SWord) (h : a.text = b.text) : a = b := by
  have key : ∀ x ∈ SWord.all, ∀ y ∈ SWord.all, x.text = y.text → x = y := by decide
  exact key a (SWord.mem_all a) b (SWord.mem_all b) h

theorem declared_mono {ws ws' : List SWord} (h : ∀ w, w ∈ ws → w ∈ ws') (f : Family) (s : Shape) :
    Declared ws f s → Declared ws' f s := fun ⟨w, hw, hd⟩ => ⟨w, h w hw, hd⟩

/-- additivity: the declared cells of a concatenation are the union of the declared cells -/
theorem declared_append (ws₁ ws₂ : List SWord) (f : Family) (s : Shape) :
    Declared (ws₁ ++ ws₂) f s ↔ Declared ws₁ f s ∨ Declared ws₂ f s := by
  unfold Declared
  constructor
  · rintro ⟨w, hw, hd⟩
    rcases List.mem_append.mp hw with h | h
    · exact .inl ⟨w, h, hd⟩
    · exact .inr ⟨w, h, hd⟩
  · rintro (⟨w, hw, hd⟩ | ⟨w, hw, hd⟩)
    · exact ⟨w, List.mem_append.mpr (.inl hw), hd⟩
    · exact ⟨w, List.mem_append.mpr (.inr hw), hd⟩

theorem declared_hasFamily {ws : List SWord} {f : Family} {s : Shape} (h : Declared ws f s) :
    HasFamily ws f := by
  obtain ⟨w, hw, hd⟩ := h
  cases w with
  | any => exact hd.elim
  | fam f' c => obtain ⟨rfl, _⟩ := hd; exact ⟨c, hw⟩

/-- only the *set* of words matters: order and repetitions are irrelevant -/
theorem accepts_congr {ws ws' : List SWord} (h : ∀ w, w ∈ ws ↔ w ∈ ws') (b : BodyShape) :
    Accepts ws b ↔ Accepts ws' b := by
  have hd : ∀ f s, Declared ws f s ↔ Declared ws' f s := fun f s =>
    ⟨declared_mono (fun w => (h w).mp) f s, declared_mono (fun w => (h w).mpr) f s⟩
  have hf : HasFamily ws .enum ↔ HasFamily ws' .enum :=
    ⟨fun ⟨c, hc⟩ => ⟨c, (h _).mp hc⟩, fun ⟨c, hc⟩ => ⟨c, (h _).mpr hc⟩⟩
  cases b with
  | struct s => simp only [Accepts, h, hd]
  | «enum» vs => simp only [Accepts, h, hd, hf]
  | union => simp only [Accepts, h]

/-- adding words never turns an accepted body into a rejected one -/
theorem accepts_mono {ws ws' : List SWord} (h : ∀ w, w ∈ ws → w ∈ ws') (b : BodyShape) :
    Accepts ws b → Accepts ws' b := by
  cases b with
  | struct s =>
      rintro (ha | hd)
      · exact .inl (h _ ha)
      · exact .inr (declared_mono h _ _ hd)
  | «enum» vs =>
      rintro (ha | ⟨⟨c, hc⟩, hall⟩)
      · exact .inl (h _ ha)
      · exact .inr ⟨⟨c, h _ hc⟩, fun v hv => declared_mono h _ _ (hall v hv)⟩
  | union => exact fun ha => h _ ha

/-- `any` accepts everything -/
theorem any_accepts_everything {ws : List SWord} (h : SWord.any ∈ ws) (b : BodyShape) : Accepts ws b := by
  cases b with
  | struct s => exact .inl h
  | «enum» vs => exact .inl h
  | union => exact h

/-- struct words are additive (for a struct body the verdict of a concatenation is the
    disjunction of the verdicts) -/
theorem accepts_struct_append (ws₁ ws₂ : List SWord) (s : Shape) :
    Accepts (ws₁ ++ ws₂) (.struct s) ↔ Accepts ws₁ (.struct s) ∨ Accepts ws₂ (.struct s) := by
  simp only [Accepts, declared_append, List.mem_append]
  constructor
  · rintro ((h | h) | (h | h))
    · exact .inl (.inl h)
    · exact .inr (.inl h)
    · exact .inl (.inr h)
    · exact .inr (.inr h)
  · rintro ((h | h) | (h | h))
    · exact .inl (.inl h)
    · exact .inr (.inl h)
    · exact .inl (.inr h)
    · exact .inr (.inr h)

/-- a tuple word also admits newtypes … -/
theorem tuple_word_admits_newtype {ws : List SWord} {f : Family} (h : SWord.fam f (some .tuple) ∈ ws) :
    Declared ws f .newtype := ⟨_, h, rfl, .inr ⟨rfl, rfl⟩⟩

/-- … but not the reverse: without a tuple word (and without the family's `any`) a tuple is not
    declared, whatever else is -/
theorem tuple_needs_tuple_word {ws : List SWord} {f : Family}
    (h : Declared ws f .tuple) : SWord.fam f (some .tuple) ∈ ws ∨ SWord.fam f none ∈ ws := by
  obtain ⟨w, hw, hd⟩ := h
  cases w with
  | any => exact hd.elim
  | fam f' c =>
      obtain ⟨rfl, hc⟩ := hd
      cases c with
      | none => exact .inr hw
      | some c =>
          rcases hc with rfl | ⟨_, h2⟩
          · exact .inl hw
          · cases h2

/-- a struct is rejected when only enum words are given … -/
theorem struct_rejected_without_struct_word {ws : List SWord} (hany : SWord.any ∉ ws)
    (h : ¬ HasFamily ws .struct) (s : Shape) : ¬ Accepts ws (.struct s) := by
  rintro (ha | hd)
  · exact hany ha
  · exact h (declared_hasFamily hd)

/-- … and vice versa -/
theorem enum_rejected_without_enum_word {ws : List SWord} (hany : SWord.any ∉ ws)
    (h : ¬ HasFamily ws .enum) (vs : List Shape) : ¬ Accepts ws (.enum vs) := by
  rintro (ha | ⟨hf, _⟩)
  · exact hany ha
  · exact h hf

/-- a union satisfies no struct or enum word -/
theorem union_only_any {ws : List SWord} : Accepts ws .union ↔ SWord.any ∈ ws := Iff.rfl

/-! ## 3. The model against the specification

  Proof device only: the eleven words are translated to the enumeration used by the existing
  lemmas about the model (`applyWord_spec`, `validate_iff`, `validateEnum_eq`); the statements
  below mention the model (`DISS.fromList`, `DISS.validateBody`, `ShapeSet`) and the
  specification of section 1 only. -/

open Spec.C18 in
def SWord.toWord : SWord → Spec.C18.Word
  | .any => .any
  | .fam .struct none => .structAny
  | .fam .struct (some .named) => .structNamed
  | .fam .struct (some .tuple) => .structTuple
  | .fam .struct (some .newtype) => .structNewtype
  | .fam .struct (some .unit) => .structUnit
  | .fam .enum none => .enumAny
  | .fam .enum (some .named) => .enumNamed
  | .fam .enum (some .tuple) => .enumTuple
  | .fam .enum (some .newtype) => .enumNewtype
  | .fam .enum (some .unit) => .enumUnit

theorem toWord_text (w : SWord) : w.toWord.text = w.text := by
  have key : ∀ x ∈ SWord.all, x.toWord.text = x.text := by decide
  exact key w (SWord.mem_all w)

theorem toWord_eq_any (w : SWord) : w.toWord = .any ↔ w = .any := by
  have key : ∀ x ∈ SWord.all, (x.toWord = .any ↔ x = .any) := by decide
  exact key w (SWord.mem_all w)

theorem toWord_admitsStruct (w : SWord) (s : Shape) :
    w.toWord.admitsStruct s = true ↔ w.declares .struct s := by
  have key : ∀ x ∈ SWord.all, ∀ t ∈ [Shape.named, .tuple, .unit, .newtype],
      (x.toWord.admitsStruct t = true ↔ x.declares .struct t) := by decide
  exact key w (SWord.mem_all w) s (by cases s <;> decide)

theorem toWord_admitsVariant (w : SWord) (s : Shape) :
    w.toWord.admitsVariant s = true ↔ w.declares .enum s := by
  have key : ∀ x ∈ SWord.all, ∀ t ∈ [Shape.named, .tuple, .unit, .newtype],
      (x.toWord.admitsVariant t = true ↔ x.declares .enum t) := by decide
  exact key w (SWord.mem_all w) s (by cases s <;> decide)

theorem toWord_isEnumWord (w : SWord) : w.toWord.isEnumWord = true ↔ ∃ c, w = .fam .enum c := by
  cases w with
  | any => simp [SWord.toWord, Spec.C18.Word.isEnumWord]
  | fam f c =>
      cases f <;> cases c <;> (try rename_i s; cases s) <;>
        simp [SWord.toWord, Spec.C18.Word.isEnumWord]

theorem contains_any_iff (ws : List SWord) :
    (ws.map SWord.toWord).contains Spec.C18.Word.any = true ↔ SWord.any ∈ ws := by
  rw [List.contains_iff_mem, List.mem_map]
  constructor
  · rintro ⟨w, hw, h⟩; rw [(toWord_eq_any w).mp h] at hw; exact hw
  · intro h; exact ⟨_, h, rfl⟩

theorem any_admitsStruct_iff (ws : List SWord) (s : Shape) :
    (ws.map SWord.toWord).any (·.admitsStruct s) = true ↔ Declared ws .struct s := by
  rw [List.any_map, List.any_eq_true]
  constructor
  · rintro ⟨w, hw, h⟩; exact ⟨w, hw, (toWord_admitsStruct w s).mp h⟩
  · rintro ⟨w, hw, h⟩; exact ⟨w, hw, (toWord_admitsStruct w s).mpr h⟩

theorem conforms_iff (ws : List SWord) (s : Shape) :
    Spec.C18.conforms (ws.map SWord.toWord) s = true ↔ Declared ws .enum s := by
  unfold Spec.C18.conforms
  rw [List.any_map, List.any_eq_true]
  constructor
  · rintro ⟨w, hw, h⟩; exact ⟨w, hw, (toWord_admitsVariant w s).mp h⟩
  · rintro ⟨w, hw, h⟩; exact ⟨w, hw, (toWord_admitsVariant w s).mpr h⟩

theorem any_isEnumWord_iff (ws : List SWord) :
    (ws.map SWord.toWord).any (·.isEnumWord) = true ↔ HasFamily ws .enum := by
  rw [List.any_map, List.any_eq_true]
  constructor
  · rintro ⟨w, hw, h⟩
    obtain ⟨c, rfl⟩ := (toWord_isEnumWord w).mp h
    exact ⟨c, hw⟩
  · rintro ⟨c, hc⟩; exact ⟨_, hc, (toWord_isEnumWord _).mpr ⟨c, rfl⟩⟩

/-- the table used by the existing theorems says the same as the specification of section 1 -/
theorem table_iff (ws : List SWord) (b : BodyShape) :
    Spec.C18.accepts (ws.map SWord.toWord) b = true ↔ Accepts ws b := by
  cases b with
  | struct s =>
      simp only [Spec.C18.accepts, Accepts, Bool.or_eq_true, contains_any_iff, any_admitsStruct_iff]
  | «enum» vs =>
      simp only [Spec.C18.accepts, Accepts, Bool.or_eq_true, Bool.and_eq_true, contains_any_iff,
        any_isEnumWord_iff, List.all_eq_true, conforms_iff]
  | union =>
      simp only [Spec.C18.accepts, Accepts, Bool.or_false, contains_any_iff]

theorem offenders_eq (ws : List SWord) (vs : List Shape) :
    Spec.C18.nonConforming (ws.map SWord.toWord) vs = offenders ws vs := by
  unfold Spec.C18.nonConforming offenders
  congr 1
  funext v
  by_cases h : Declared ws .enum v
  · simp [h, (conforms_iff ws v).mpr h]
  · have : Spec.C18.conforms (ws.map SWord.toWord) v = false := by
      rw [Bool.eq_false_iff]; exact fun hc => h ((conforms_iff ws v).mp hc)
    simp [h, this]

/-! ### derive time: reading `supports(w₁, …, wₙ)` -/

/-- the reader folds any list of shape-word entries without an error, and ends in the state
    that records exactly which of the eleven words occurred -/
theorem fromListLoop_words (pre : List Spec.C18.Word) {items : List NestedMeta} {ws : List SWord}
    (h : Spells items ws) :
    DISS.fromListLoop (dissOf pre) items = .ok (dissOf (pre ++ ws.map SWord.toWord)) := by
  induction h generalizing pre with
  | nil => simp only [DISS.fromListLoop, List.map_nil, List.append_nil]
  | @cons n w items ws hw _ ih =>
      obtain ⟨p, rfl, hp⟩ := hw
      simp only [DISS.fromListLoop, hp, ← toWord_text, applyWord_spec]
      rw [ih (pre ++ [w.toWord])]
      simp only [List.map_cons, List.append_assoc, List.singleton_append]

/-- **derive time.**  A `supports(...)` list made of shape words (any number, any order,
    repetitions allowed, arbitrary spans) is always read successfully. -/
theorem supports_parses {items : List NestedMeta} {ws : List SWord}
    (h : Spells items ws) :
    DISS.fromList items = .ok (dissOf (ws.map SWord.toWord)) := by
  have := fromListLoop_words [] h
  rw [dissOf_nil] at this
  simpa only [DISS.fromList, List.nil_append] using this

theorem derived_eq {items : List NestedMeta} {ws : List SWord}
    (h : Spells items ws) (b : BodyShape) :
    derived items b = (dissOf (ws.map SWord.toWord)).validateBody b := by
  simp only [derived, supports_parses h]

/-! ### exactly the eleven words: every other identifier is refused at derive time -/

theorem stripPrefix_eq_lit (pre word lit : String) (hp : pre.toList.isPrefixOf word.toList = true)
    (h : DataShape.stripPrefix pre word = lit) : word = pre ++ lit := by
  unfold DataShape.stripPrefix at h
  rw [if_pos hp] at h
  have h1 := List.prefix_iff_eq_append.mp (List.isPrefixOf_iff_prefix.mp hp)
  rw [String.length_toList] at h1
  have h2 : (word.toList.drop pre.length) = lit.toList := by
    rw [← h, String.toList_ofList]
  apply String.toList_inj.mp
  rw [String.toList_append, ← h2, h1]

theorem setWord_error (d : DataShape) (word : String)
    (h : ∀ lit ∈ ["newtype", "named", "tuple", "unit", "any"], DataShape.stripPrefix d.pre word ≠ lit) :
    d.setWord word = .error (Err.unknownValue word) := by
  unfold DataShape.setWord
  split
  · exact absurd ‹_› (h "newtype" (by decide))
  · exact absurd ‹_› (h "named" (by decide))
  · exact absurd ‹_› (h "tuple" (by decide))
  · exact absurd ‹_› (h "unit" (by decide))
  · exact absurd ‹_› (h "any" (by decide))
  · rfl


theorem setWord_non_word (d : DataShape) (f : Family) (hpre : d.pre = f.pre) (word : String)
    (hp : f.pre.toList.isPrefixOf word.toList = true) (h : ∀ w : SWord, w.text ≠ word) :
    d.setWord word = .error (Err.unknownValue word) := by
  apply setWord_error
  intro lit hl hs
  rw [hpre] at hs
  have hw := stripPrefix_eq_lit _ _ _ hp hs
  simp only [List.mem_cons, List.not_mem_nil, or_false] at hl
  rcases hl with rfl | rfl | rfl | rfl | rfl
  · exact h (.fam f (some .newtype)) hw.symm
  · exact h (.fam f (some .named)) hw.symm
  · exact h (.fam f (some .tuple)) hw.symm
  · exact h (.fam f (some .unit)) hw.symm
  · exact h (.fam f none) hw.symm

theorem applyWord_non_word (d : DISS) (he : d.enumValues.pre = "enum_")
    (hs : d.structValues.pre = "struct_") (word : String) (h : ∀ w : SWord, w.text ≠ word) :
    d.applyWord word = .error (Err.unknownValue word) := by
  unfold DISS.applyWord
  have h0 : (word == "any") = false := by
    rw [beq_eq_false_iff_ne]; exact fun hc => h .any hc.symm
  rw [h0]
  simp only [Bool.false_eq_true, if_false]
  split
  · rename_i hp
    rw [setWord_non_word d.enumValues .enum he word hp h]
  · split
    · rename_i hp
      rw [setWord_non_word d.structValues .struct hs word hp h]
    · rfl

theorem fromListLoop_append (pre : List Spec.C18.Word) {items : List NestedMeta} {ws : List SWord}
    (h : Spells items ws) (tail : List NestedMeta) :
    DISS.fromListLoop (dissOf pre) (items ++ tail)
      = DISS.fromListLoop (dissOf (pre ++ ws.map SWord.toWord)) tail := by
  induction h generalizing pre with
  | nil => simp only [List.nil_append, List.map_nil, List.append_nil]
  | @cons n w items ws hw _ ih =>
      obtain ⟨p, rfl, hp⟩ := hw
      simp only [List.cons_append, DISS.fromListLoop, hp, ← toWord_text, applyWord_spec]
      rw [ih (pre ++ [w.toWord])]
      simp only [List.map_cons, List.append_assoc, List.singleton_append]

/-- **derive time, converse.**  After any number of shape words, an identifier that is not one
    of the eleven spellings stops the reader with "unknown value", spanned at that identifier:
    there is no twelfth word. -/
theorem supports_rejects_non_word {items : List NestedMeta} {ws : List SWord}
    (h : Spells items ws) (p : Path) (word : String) (hp : p.getIdent = some word)
    (hw : ∀ w : SWord, w.text ≠ word) (rest : List NestedMeta) :
    DISS.fromList (items ++ .item (.path p) :: rest)
      = .err ((Err.unknownValue word).withSpan p.first) := by
  have := fromListLoop_append [] h (.item (.path p) :: rest)
  rw [dissOf_nil] at this
  rw [DISS.fromList, this]
  simp only [DISS.fromListLoop, hp]
  rw [applyWord_non_word _ rfl rfl word hw]

/-! ### the end-to-end theorems -/

/-- **C18, verdict.**  For every list of shape words and every body (enums of any length), the
    derived code accepts the body exactly when the property text says so. -/
theorem derived_accepts_iff {items : List NestedMeta} {ws : List SWord}
    (h : Spells items ws) (b : BodyShape) :
    (derived items b).isOk = true ↔ Accepts ws b := by
  rw [derived_eq h, validate_iff, table_iff]

/-- the derived code never panics (in particular not on a union) -/
theorem derived_never_panics {items : List NestedMeta} {ws : List SWord}
    (h : Spells items ws) (b : BodyShape) (m : String) :
    derived items b ≠ .panic m := by
  rw [derived_eq h]; exact validate_never_panics _ _ _

/-- **C18, union.**  Unless the bare `any` is declared a union is an error — one leaf, naming
    the union — whatever struct and enum words are given. -/
theorem derived_union {items : List NestedMeta} {ws : List SWord}
    (h : Spells items ws) (hany : SWord.any ∉ ws) :
    derived items .union = .err (Err.new (.unsupportedShape "union" none)) := by
  rw [derived_eq h]
  apply union_is_error
  rw [Bool.eq_false_iff]
  exact fun hc => hany ((contains_any_iff ws).mp hc)

/-! ### one error per non-conforming variant -/

theorem variantErr_eq (ec : ShapeSet) :
    ∃ d, ∀ v, variantErr ec v = Err.new (.unsupportedShape v.description (some d)) := by
  obtain ⟨d, hd⟩ := display_ok ec
  exact ⟨d, fun v => by simp only [variantErr, hd]⟩

theorem not_any_contains {ws : List SWord} (hany : SWord.any ∉ ws) :
    (ws.map SWord.toWord).contains Spec.C18.Word.any = false := by
  rw [Bool.eq_false_iff]
  exact fun hc => hany ((contains_any_iff ws).mp hc)

/-- what the derived code returns on an enum when the bare `any` is absent and at least one
    enum word is declared -/
theorem derived_enum_eq {items : List NestedMeta} {ws : List SWord}
    (h : Spells items ws) (hany : SWord.any ∉ ws) (hf : HasFamily ws .enum) (vs : List Shape) :
    ∃ expected : String,
      derived items (.enum vs) =
        match (offenders ws vs).map
            (fun v => Err.new (.unsupportedShape v.description (some expected))) with
        | [] => .ok ()
        | errs => Err.bundleErr errs := by
  obtain ⟨d, hd⟩ := variantErr_eq (dissOf (ws.map SWord.toWord)).enumValues.toShapeSet
  refine ⟨d, ?_⟩
  rw [derived_eq h]
  unfold DISS.validateBody
  rw [dissOf_any, not_any_contains hany]
  simp only [Bool.false_eq_true, if_false]
  rw [validateEnum_eq _ vs ((any_isEnumWord_iff ws).mpr hf), offenders_eq]
  have : (offenders ws vs).map (variantErr (dissOf (ws.map SWord.toWord)).enumValues.toShapeSet)
      = (offenders ws vs).map (fun v => Err.new (.unsupportedShape v.description (some d))) :=
    List.map_congr_left (fun v _ => hd v)
  rw [this]
  generalize (offenders ws vs).map
    (fun v => Err.new (.unsupportedShape v.description (some d))) = l
  cases l <;> rfl

/-- **C18, error count — under the side condition that some enum word is declared.**
    The enum is accepted when no variant offends; otherwise the result is an error whose leaves
    are exactly one "unsupported shape" leaf per non-conforming variant, in source order. -/
theorem derived_enum_errors_partial {items : List NestedMeta} {ws : List SWord}
    (h : Spells items ws) (hany : SWord.any ∉ ws) (hf : HasFamily ws .enum) (vs : List Shape) :
    (offenders ws vs = [] ∧ derived items (.enum vs) = .ok ()) ∨
    (offenders ws vs ≠ [] ∧ ∃ e, derived items (.enum vs) = .err e ∧
        OneErrorPer (offenders ws vs) e ∧ e.len = (offenders ws vs).length) := by
  obtain ⟨d, hd⟩ := derived_enum_eq h hany hf vs
  rw [hd]
  cases hoff : offenders ws vs with
  | nil => exact .inl ⟨rfl, rfl⟩
  | cons x xs =>
      refine .inr ⟨List.cons_ne_nil _ _, ?_⟩
      cases xs with
      | nil =>
          refine ⟨Err.new (.unsupportedShape x.description (some d)), rfl, ⟨d, ?_⟩, ?_⟩
          · simp only [Err.intoVec, Err.new, Err.intoVecP_leaf, Err.inheritSpan, List.map_cons,
              List.map_nil, List.append_nil]
          · simp only [Err.new, Err.len_leaf, List.length_cons, List.length_nil]
      | cons y r =>
          have hleaf : ∀ z ∈ (x :: y :: r).map
              (fun v => Err.new (.unsupportedShape v.description (some d))), z.isLeaf = true := by
            intro z hz
            obtain ⟨v, _, rfl⟩ := List.mem_map.mp hz
            rfl
          refine ⟨.multi ((x :: y :: r).map
              (fun v => Err.new (.unsupportedShape v.description (some d)))) [] none, rfl, ⟨d, ?_⟩, ?_⟩
          · simp only [Err.intoVec, Err.intoVecP_multi, List.append_nil, Option.or_none]
            exact Err.intoVecListP_leaves_id _ hleaf
          · rw [Err.len_multi, Err.lenList_leaves _ hleaf, List.length_map]

/-- the count alone, in the form of the property text: the number of errors is the number of
    non-conforming variants -/
theorem derived_enum_error_count_partial {items : List NestedMeta} {ws : List SWord}
    (h : Spells items ws) (hany : SWord.any ∉ ws) (hf : HasFamily ws .enum) (vs : List Shape)
    (e : Err) (he : derived items (.enum vs) = .err e) :
    e.len = (offenders ws vs).length := by
  rcases derived_enum_errors_partial h hany hf vs with ⟨_, hok⟩ | ⟨_, e', he', _, hlen⟩
  · rw [hok] at he; cases he
  · rw [he'] at he; cases he; exact hlen

/-- without an enum word the enum is refused as a whole: one leaf that names the enum, however
    many variants there are (this is the "vice versa" clause; see discrepancy D3 below for how it
    sits with "one error per non-conforming variant") -/
theorem derived_enum_without_enum_word {items : List NestedMeta} {ws : List SWord}
    (h : Spells items ws) (hany : SWord.any ∉ ws) (hf : ¬ HasFamily ws .enum) (vs : List Shape) :
    ∃ expected : String,
      derived items (.enum vs) = .err (Err.new (.unsupportedShape "enum" (some expected))) := by
  rw [derived_eq h]
  unfold DISS.validateBody
  rw [dissOf_any, not_any_contains hany]
  simp only [Bool.false_eq_true, if_false]
  unfold DISS.validateEnum
  have he : (ws.map SWord.toWord).any (·.isEnumWord) = false := by
    rw [Bool.eq_false_iff]; exact fun hc => hf ((any_isEnumWord_iff ws).mp hc)
  rw [enum_isEmpty, he]
  obtain ⟨d, hdd⟩ := display_ok (dissOf (ws.map SWord.toWord)).structValues.toShapeSet
  exact ⟨"struct with " ++ d, by simp only [Bool.not_false, if_true, hdd]⟩

/-! ### the stand-alone shape-set API (`ShapeSet::new`, `contains`, `check`) -/

theorem foldl_insert_eq (l : List Shape) (acc : ShapeSet) :
    l.foldl ShapeSet.insert acc =
      ⟨acc.newtype || l.contains .newtype, acc.named || l.contains .named,
       acc.tuple || l.contains .tuple, acc.unit || l.contains .unit⟩ := by
  induction l generalizing acc with
  | nil => simp only [List.foldl_nil, List.contains_nil, Bool.or_false]
  | cons x xs ih =>
      rw [List.foldl_cons, ih]
      cases x <;> simp [ShapeSet.insert, Bool.or_comm]

/-- `ShapeSet::new(items)` remembers exactly which shapes were listed (order and repetitions
    are irrelevant) -/
theorem ofList_eq (l : List Shape) :
    ShapeSet.ofList l =
      ⟨l.contains .newtype, l.contains .named, l.contains .tuple, l.contains .unit⟩ := by
  unfold ShapeSet.ofList
  rw [foldl_insert_eq]
  simp only [Bool.false_or]

/-- **C18, run-time API.**  `contains`: a shape is in the set iff it was listed, or it is the
    newtype shape and the tuple shape was listed (and not the other way round) -/
theorem api_contains_iff (l : List Shape) (s : Shape) :
    (ShapeSet.ofList l).containsShape s = true ↔ s ∈ l ∨ (s = .newtype ∧ Shape.tuple ∈ l) := by
  rw [ofList_eq]
  cases s <;> simp [ShapeSet.containsShape]

/-- `check` agrees with `contains`, its error names the observed shape, and it never panics -/
theorem api_check (l : List Shape) (s : Shape) :
    (s ∈ l ∨ (s = .newtype ∧ Shape.tuple ∈ l)) ∧ (ShapeSet.ofList l).check s = .ok () ∨
    ¬ (s ∈ l ∨ (s = .newtype ∧ Shape.tuple ∈ l)) ∧
      ∃ expected, (ShapeSet.ofList l).check s
        = .err (Err.new (.unsupportedShape s.description (some expected))) := by
  obtain ⟨d, hd⟩ := display_ok (ShapeSet.ofList l)
  by_cases h : (ShapeSet.ofList l).containsShape s = true
  · exact .inl ⟨(api_contains_iff l s).mp h, by simp only [ShapeSet.check, h, if_true]⟩
  · refine .inr ⟨fun hc => h ((api_contains_iff l s).mpr hc), d, ?_⟩
    simp only [ShapeSet.check, h, hd, Bool.false_eq_true, if_false]

theorem api_check_isOk (l : List Shape) (s : Shape) :
    ((ShapeSet.ofList l).check s).isOk = true ↔ s ∈ l ∨ (s = .newtype ∧ Shape.tuple ∈ l) := by
  rw [check_ok_iff, api_contains_iff]

/-! ### the stand-alone API against the derived code -/

theorem toWord_beq : ∀ a b : SWord, (a.toWord == b.toWord) = (a == b) := by
  have key : ∀ x ∈ SWord.all, ∀ y ∈ SWord.all, (x.toWord == y.toWord) = (x == y) := by decide
  exact fun a b => key a (SWord.mem_all a) b (SWord.mem_all b)

theorem contains_toWord (ws : List SWord) (w : SWord) :
    (ws.map SWord.toWord).contains w.toWord = ws.contains w := by
  induction ws with
  | nil => rfl
  | cons v vs ih => simp only [List.map_cons, List.contains_cons, ih, toWord_beq]

theorem wordShapes_contains (f : Family) (w : SWord) (x : Shape) :
    (wordShapes f w).contains x = ((SWord.fam f none == w) || (SWord.fam f (some x) == w)) := by
  have key : ∀ w ∈ SWord.all, ∀ f ∈ [Family.struct, Family.enum],
      ∀ x ∈ [Shape.named, .tuple, .unit, .newtype],
      (wordShapes f w).contains x = ((SWord.fam f none == w) || (SWord.fam f (some x) == w)) := by
    decide
  exact key w (SWord.mem_all w) f (by cases f <;> decide) x (by cases x <;> decide)

/-- the family's shape list contains a shape iff the family's `any` or that very word occurs -/
theorem familyShapes_contains (ws : List SWord) (f : Family) (x : Shape) :
    (familyShapes ws f).contains x
      = (ws.contains (.fam f none) || ws.contains (.fam f (some x))) := by
  induction ws with
  | nil => rfl
  | cons w ws ih =>
      have : familyShapes (w :: ws) f = wordShapes f w ++ familyShapes ws f := by
        simp only [familyShapes, List.flatMap_cons]
      rw [this, List.contains_append, ih, wordShapes_contains, List.contains_cons, List.contains_cons]
      generalize (SWord.fam f none == w) = a
      generalize (SWord.fam f (some x) == w) = b
      generalize ws.contains (SWord.fam f none) = c
      generalize ws.contains (SWord.fam f (some x)) = d
      cases a <;> cases b <;> cases c <;> cases d <;> rfl

/-- **C18, same sets.**  The set the emitted validator builds for struct bodies is the set the
    stand-alone API builds from the shapes listed by the struct words … -/
theorem emitted_struct_set (ws : List SWord) :
    (dissOf (ws.map SWord.toWord)).structValues.toShapeSet
      = ShapeSet.ofList (familyShapes ws .struct) := by
  rw [ofList_eq]
  simp only [dissOf, toShapeSet_fields, familyShapes_contains]
  have h0 := contains_toWord ws (.fam .struct none)
  have h1 := contains_toWord ws (.fam .struct (some .named))
  have h2 := contains_toWord ws (.fam .struct (some .tuple))
  have h3 := contains_toWord ws (.fam .struct (some .newtype))
  have h4 := contains_toWord ws (.fam .struct (some .unit))
  simp only [SWord.toWord] at h0 h1 h2 h3 h4
  rw [h0, h1, h2, h3, h4]

/-- … and likewise for enum variants -/
theorem emitted_enum_set (ws : List SWord) :
    (dissOf (ws.map SWord.toWord)).enumValues.toShapeSet
      = ShapeSet.ofList (familyShapes ws .enum) := by
  rw [ofList_eq]
  simp only [dissOf, toShapeSet_fields, familyShapes_contains]
  have h0 := contains_toWord ws (.fam .enum none)
  have h1 := contains_toWord ws (.fam .enum (some .named))
  have h2 := contains_toWord ws (.fam .enum (some .tuple))
  have h3 := contains_toWord ws (.fam .enum (some .newtype))
  have h4 := contains_toWord ws (.fam .enum (some .unit))
  simp only [SWord.toWord] at h0 h1 h2 h3 h4
  rw [h0, h1, h2, h3, h4]

/-- the specification's "declared" is the API's `contains` on the listed shapes -/
theorem declared_iff_api (ws : List SWord) (f : Family) (s : Shape) :
    Declared ws f s ↔ (ShapeSet.ofList (familyShapes ws f)).containsShape s = true := by
  cases f with
  | struct => rw [← emitted_struct_set, struct_contains, any_admitsStruct_iff]
  | «enum» => rw [← emitted_enum_set, enum_contains, conforms_iff]

/-- **C18, same verdicts (struct).**  With a struct word declared (and no bare `any`) the
    derived code returns, on a struct body, literally what `ShapeSet::check` returns — the same
    verdict and the same error. -/
theorem derived_struct_eq_api {items : List NestedMeta} {ws : List SWord}
    (h : Spells items ws) (hany : SWord.any ∉ ws) (hf : HasFamily ws .struct) (s : Shape) :
    derived items (.struct s) = (ShapeSet.ofList (familyShapes ws .struct)).check s := by
  rw [derived_eq h]
  unfold DISS.validateBody
  rw [dissOf_any, not_any_contains hany]
  simp only [Bool.false_eq_true, if_false]
  unfold DISS.validateStruct
  have hs : (ws.map SWord.toWord).any (·.isStructWord) = true := by
    obtain ⟨c, hc⟩ := hf
    refine List.any_eq_true.mpr ⟨_, List.mem_map.mpr ⟨_, hc, rfl⟩, ?_⟩
    cases c with
    | none => rfl
    | some c => cases c <;> rfl
  rw [struct_isEmpty, hs, emitted_struct_set]
  simp only [Bool.not_true, Bool.false_eq_true, if_false]

/-- the verdict alone needs no side condition: without a struct word both refuse -/
theorem derived_struct_verdict_eq_api {items : List NestedMeta} {ws : List SWord}
    (h : Spells items ws) (hany : SWord.any ∉ ws) (s : Shape) :
    (derived items (.struct s)).isOk
      = ((ShapeSet.ofList (familyShapes ws .struct)).check s).isOk := by
  rw [Bool.eq_iff_iff, derived_accepts_iff h, check_ok_iff, ← declared_iff_api]
  exact ⟨fun hh => hh.resolve_left hany, .inr⟩

/-- **C18, same verdicts (enum).**  An enum is accepted by the derived code iff some enum word
    is declared and `ShapeSet::check` accepts every variant. -/
theorem derived_enum_verdict_eq_api {items : List NestedMeta} {ws : List SWord}
    (h : Spells items ws) (hany : SWord.any ∉ ws) (vs : List Shape) :
    (derived items (.enum vs)).isOk = true ↔
      HasFamily ws .enum ∧
        ∀ v ∈ vs, ((ShapeSet.ofList (familyShapes ws .enum)).check v).isOk = true := by
  rw [derived_accepts_iff h]
  simp only [check_ok_iff, ← declared_iff_api]
  exact ⟨fun hh => hh.resolve_left hany, .inr⟩

/-- the errors `ShapeSet::check` itself reports on the variants, in source order -/
def apiErrors (S : ShapeSet) (vs : List Shape) : List Err :=
  vs.filterMap fun v => match S.check v with
    | .err e => some e
    | _ => none

theorem checkVariants_eq_api (S : ShapeSet) (errs : List Err) (vs : List Shape) :
    DISS.checkVariants S errs vs = .ok (errs ++ apiErrors S vs) := by
  induction vs generalizing errs with
  | nil => simp only [DISS.checkVariants, apiErrors, List.filterMap_nil, List.append_nil]
  | cons v vs ih =>
      cases hc : S.check v with
      | ok u => simp only [DISS.checkVariants, hc, ih, apiErrors, List.filterMap_cons]
      | err e =>
          simp only [DISS.checkVariants, hc, ih, apiErrors, List.filterMap_cons, List.append_assoc,
            List.singleton_append]
      | panic m => exact absurd hc (check_never_panics _ _ _)

/-- **C18, same verdicts (enum), with the errors.**  With an enum word declared (and no bare
    `any`) the derived code returns the bundle of exactly the errors `ShapeSet::check` reports
    on the variants. -/
theorem derived_enum_eq_api {items : List NestedMeta} {ws : List SWord}
    (h : Spells items ws) (hany : SWord.any ∉ ws) (hf : HasFamily ws .enum) (vs : List Shape) :
    derived items (.enum vs) =
      match apiErrors (ShapeSet.ofList (familyShapes ws .enum)) vs with
      | [] => .ok ()
      | errs => Err.bundleErr errs := by
  rw [derived_eq h]
  unfold DISS.validateBody
  rw [dissOf_any, not_any_contains hany]
  simp only [Bool.false_eq_true, if_false]
  unfold DISS.validateEnum
  rw [enum_isEmpty, (any_isEnumWord_iff ws).mpr hf, emitted_enum_set, checkVariants_eq_api]
  simp only [Bool.not_true, Bool.false_eq_true, if_false, List.nil_append]
  generalize apiErrors (ShapeSet.ofList (familyShapes ws .enum)) vs = l
  cases l <;> rfl

/-! ### variant-level `supports(...)` (`FromVariant` receivers: the five bare words) -/

/-- a `supports(...)` entry of a `FromVariant` receiver: a bare cell name -/
def IsCellItem (n : NestedMeta) (c : Option Shape) : Prop :=
  ∃ p : Path, n = .item (.path p) ∧ p.getIdent = some (cellName c)

/-- the canonical entry for a bare cell name -/
def cellItem (c : Option Shape) (sp : Span := ⟨0, 0⟩) : NestedMeta :=
  .item (.path { global := false, segs := [cellName c], plain := true, toks := cellName c, span := sp })

inductive SpellsCells : List NestedMeta → List (Option Shape) → Prop where
  | nil : SpellsCells [] []
  | cons {n c items cs} : IsCellItem n c → SpellsCells items cs → SpellsCells (n :: items) (c :: cs)

/-- the verdict the text demands of a variant-level declaration -/
def AcceptsVariant (cs : List (Option Shape)) (s : Shape) : Prop := ∃ c ∈ cs, cellAdmits c s

/-- the derived `from_variant` check: declaration read at derive time, `ShapeSet::check` on the variant -/
def derivedVariant (items : List NestedMeta) (s : Shape) : Outcome Unit :=
  match DataShape.fromList items with
  | .ok d => d.toShapeSet.check s
  | .err e => .err e
  | .panic m => .panic m

/-- proof device: the state after the words `cs` -/
def dsOf (cs : List (Option Shape)) : DataShape :=
  { pre := "", any := cs.contains none, named := cs.contains (some .named),
    tuple := cs.contains (some .tuple), newtype := cs.contains (some .newtype),
    unit := cs.contains (some .unit) }

theorem strip_empty : ∀ c : Option Shape, DataShape.stripPrefix "" (cellName c) = cellName c := by
  intro c
  have key : ∀ x ∈ [none, some Shape.named, some Shape.tuple, some Shape.newtype, some Shape.unit],
      DataShape.stripPrefix "" (cellName x) = cellName x := by decide
  exact key c (by cases c with | none => decide | some s => cases s <;> decide)

theorem setWord_spec (cs : List (Option Shape)) (c : Option Shape) :
    (dsOf cs).setWord (cellName c) = .ok (dsOf (cs ++ [c])) := by
  unfold DataShape.setWord
  have hp : (dsOf cs).pre = "" := rfl
  rw [hp, strip_empty]
  cases c with
  | none => simp [cellName, dsOf]
  | some s => cases s <;> simp [cellName, shapeName, dsOf]

theorem ds_fromListLoop (pre : List (Option Shape)) {items : List NestedMeta}
    {cs : List (Option Shape)} (h : SpellsCells items cs) (errs : List Err) :
    DataShape.fromListLoop (dsOf pre) errs items = (dsOf (pre ++ cs), errs) := by
  induction h generalizing pre with
  | nil => simp only [DataShape.fromListLoop, List.append_nil]
  | @cons n c items cs hc _ ih =>
      obtain ⟨p, rfl, hp⟩ := hc
      simp only [DataShape.fromListLoop, hp, setWord_spec]
      rw [ih (pre ++ [c])]
      simp only [List.append_assoc, List.singleton_append]

theorem variant_supports_parses {items : List NestedMeta} {cs : List (Option Shape)}
    (h : SpellsCells items cs) : DataShape.fromList items = .ok (dsOf cs) := by
  have h0 : (dsOf []) = {} := by decide
  have := ds_fromListLoop [] h []
  rw [h0] at this
  simp only [DataShape.fromList, this, List.nil_append]

theorem dsOf_contains (cs : List (Option Shape)) (s : Shape) :
    (dsOf cs).toShapeSet.containsShape s = true ↔ AcceptsVariant cs s := by
  unfold AcceptsVariant
  simp only [dsOf, toShapeSet_fields]
  have hm : ∀ c : Option Shape, cs.contains c = true ↔ c ∈ cs := fun c => List.contains_iff_mem
  constructor
  · intro h
    cases s <;>
      simp only [ShapeSet.containsShape, Bool.or_eq_true, hm] at h <;>
      first
        | (rcases h with h | h
           · exact ⟨none, h, trivial⟩
           · exact ⟨_, h, .inl rfl⟩)
        | (rcases h with (h | h) | (h | h)
           · exact ⟨none, h, trivial⟩
           · exact ⟨_, h, .inl rfl⟩
           · exact ⟨none, h, trivial⟩
           · exact ⟨_, h, .inr ⟨rfl, rfl⟩⟩)
  · rintro ⟨c, hc, ha⟩
    cases c with
    | none => cases s <;> simp [ShapeSet.containsShape, hc]
    | some c =>
        rcases ha with rfl | ⟨rfl, rfl⟩
        · cases c <;> simp [ShapeSet.containsShape, hc]
        · simp [ShapeSet.containsShape, hc]

/-- **C18, variant level.**  A `FromVariant` receiver declaring `supports(c₁, …, cₙ)` accepts a
    variant exactly when one of the words admits its shape; never a panic. -/
theorem derivedVariant_accepts_iff {items : List NestedMeta} {cs : List (Option Shape)}
    (h : SpellsCells items cs) (s : Shape) :
    (derivedVariant items s).isOk = true ↔ AcceptsVariant cs s := by
  simp only [derivedVariant, variant_supports_parses h, check_ok_iff, dsOf_contains]

theorem derivedVariant_never_panics {items : List NestedMeta} {cs : List (Option Shape)}
    (h : SpellsCells items cs) (s : Shape) (m : String) : derivedVariant items s ≠ .panic m := by
  simp only [derivedVariant, variant_supports_parses h]
  exact check_never_panics _ _ _

/-! ## 4. Where the property text and the behaviour part ways

  D3 — "one error per non-conforming variant" needs the side condition `HasFamily ws .enum` of
  `derived_enum_errors_partial`: under struct words only, every variant is non-conforming, yet
  the enum is refused with ONE error (the "vice versa" clause wins). -/

/-- D3, concrete: three non-conforming variants, one error -/
example :
    offenders [.fam .struct (some .named)] [.unit, .tuple, .named] = [.unit, .tuple, .named] ∧
    derived [SWord.item (.fam .struct (some .named))] (.enum [.unit, .tuple, .named])
      = .err (Err.new (.unsupportedShape "enum" (some "struct with named fields"))) ∧
    (Err.new (.unsupportedShape "enum" (some "struct with named fields"))).len = 1 := by
  refine ⟨by decide, rfl, rfl⟩

/-- D3, the empty enum: no variant offends, and still it is an error under struct words only -/
example :
    offenders [.fam .struct (some .named)] [] = [] ∧
    derived [SWord.item (.fam .struct (some .named))] (.enum [])
      = .err (Err.new (.unsupportedShape "enum" (some "struct with named fields"))) := ⟨rfl, rfl⟩

/-!
  D1 (REPAIRED) — "A receiver declaring `supports(...)` accepts an input exactly when …" used to
  fail for NEWTYPE receivers (`struct W(Inner);`): `FromDeriveInputImpl::to_tokens` returned
  early for them and never emitted `__validate_body`.  The library now calls the receiver's own
  validator in the newtype arm before it delegates, and `Env.runOuter` mirrors that.  The
  statements below are the positive property for newtype receivers. -/

/-- the emitted validator never panics, whatever the declaration (not only a parsed one) -/
theorem validateBody_never_panics (d : DISS) (b : BodyShape) (m : String) :
    d.validateBody b ≠ .panic m := by
  intro h
  unfold DISS.validateBody at h
  split at h
  · cases h
  · cases b with
    | union => cases h
    | struct s =>
        simp only at h
        unfold DISS.validateStruct at h
        split at h
        · obtain ⟨x, hx⟩ := display_ok d.enumValues.toShapeSet
          simp only [hx] at h
          cases h
        · exact check_never_panics _ _ _ h
    | «enum» vs =>
        simp only at h
        unfold DISS.validateEnum at h
        split at h
        · obtain ⟨x, hx⟩ := display_ok d.structValues.toShapeSet
          simp only [hx] at h
          cases h
        · rw [checkVariants_spec, List.nil_append] at h
          cases hf : (vs.filter (fun v => !d.enumValues.toShapeSet.containsShape v)) with
          | nil => simp [hf] at h
          | cons x xs => cases xs <;> simp [hf, List.map, Err.bundleErr, Err.multiple] at h

/-- what a newtype receiver does once its own shape check has passed: the inner receiver is
    asked, and its value is wrapped -/
def newtypeDelegation (run : String → Derive.Elem → Outcome Val) (r : Options.ROuter)
    (f : Options.RField) (el : Derive.Elem) : Outcome Val :=
  match f.ty with
  | .recv inner => (run inner el).map (fun v => .record r.base.ident [("0", v)])
  | _ => .err (Err.custom "unsupported newtype inner")

/-- **C18, newtype receivers.**  A newtype `FromDeriveInput` receiver declaring `supports(..)`
    runs its own validator on the body first; an error of the validator is the result, and
    only after `Ok(())` is the inner receiver asked. -/
theorem newtype_receiver_validates (env : Env.T) (run conv) (r : Options.ROuter)
    (f : Options.RField) (d : DeclD) (diss : DISS)
    (h : r.base.data = .struct .tuple [f]) (ht : r.trait_ = .fromDeriveInput)
    (hs : r.supports = some diss) :
    Env.runOuter env run conv r (.deriveInput d) =
      match diss.validateBody d.body.shape with
      | .ok () => newtypeDelegation run r f (.deriveInput d)
      | .err e => .err e
      | .panic m => .panic m := by
  unfold Env.runOuter newtypeDelegation
  simp only [h, ht, hs]
  cases diss.validateBody d.body.shape <;> rfl

/-- a body the declaration refuses is refused by the receiver, with the validator's error -/
theorem newtype_receiver_rejects (env : Env.T) (run conv) (r : Options.ROuter)
    (f : Options.RField) (d : DeclD) (diss : DISS) (e : Err)
    (h : r.base.data = .struct .tuple [f]) (ht : r.trait_ = .fromDeriveInput)
    (hs : r.supports = some diss) (hv : diss.validateBody d.body.shape = .err e) :
    Env.runOuter env run conv r (.deriveInput d) = .err e := by
  rw [newtype_receiver_validates env run conv r f d diss h ht hs, hv]

/-- a body the declaration admits is handed to the inner receiver, as before -/
theorem newtype_receiver_delegates (env : Env.T) (run conv) (r : Options.ROuter)
    (f : Options.RField) (d : DeclD) (diss : DISS)
    (h : r.base.data = .struct .tuple [f]) (ht : r.trait_ = .fromDeriveInput)
    (hs : r.supports = some diss) (hv : diss.validateBody d.body.shape = .ok ()) :
    Env.runOuter env run conv r (.deriveInput d) = newtypeDelegation run r f (.deriveInput d) := by
  rw [newtype_receiver_validates env run conv r f d diss h ht hs, hv]

/-- the shape check adds no panic: a newtype receiver panics only if the delegation does -/
theorem newtype_receiver_panics_only_inside (env : Env.T) (run conv) (r : Options.ROuter)
    (f : Options.RField) (d : DeclD) (diss : DISS) (m : String)
    (h : r.base.data = .struct .tuple [f]) (ht : r.trait_ = .fromDeriveInput)
    (hs : r.supports = some diss)
    (hp : Env.runOuter env run conv r (.deriveInput d) = .panic m) :
    newtypeDelegation run r f (.deriveInput d) = .panic m := by
  rw [newtype_receiver_validates env run conv r f d diss h ht hs] at hp
  cases hv : diss.validateBody d.body.shape with
  | ok u => rw [hv] at hp; exact hp
  | err e => rw [hv] at hp; cases hp
  | panic m' => exact absurd hv (validateBody_never_panics _ _ _)

/-- **C18, newtype receivers, end to end.**  With the declaration `supports(w₁, …, wₙ)` read at
    derive time, a newtype receiver accepts an input exactly when the body's shape is in the
    declared set AND the inner receiver accepts the input. -/
theorem newtype_receiver_accepts_iff (env : Env.T) (run conv) (r : Options.ROuter)
    (f : Options.RField) (d : DeclD) (diss : DISS) {items : List NestedMeta} {ws : List SWord}
    (hsp : Spells items ws) (hd : DISS.fromList items = .ok diss)
    (h : r.base.data = .struct .tuple [f]) (ht : r.trait_ = .fromDeriveInput)
    (hs : r.supports = some diss) :
    (Env.runOuter env run conv r (.deriveInput d)).isOk = true ↔
      Accepts ws d.body.shape ∧ (newtypeDelegation run r f (.deriveInput d)).isOk = true := by
  have hacc := derived_accepts_iff hsp d.body.shape
  simp only [derived, hd] at hacc
  rw [newtype_receiver_validates env run conv r f d diss h ht hs, ← hacc]
  cases diss.validateBody d.body.shape with
  | ok u => simp only [Outcome.isOk, true_and]
  | err e => simp only [Outcome.isOk, Bool.false_eq_true, false_and]
  | panic m => simp only [Outcome.isOk, Bool.false_eq_true, false_and]

/-- in particular: whatever the inner receiver would say, only declared shapes get through -/
theorem newtype_receiver_accepts_only_declared (env : Env.T) (run conv) (r : Options.ROuter)
    (f : Options.RField) (d : DeclD) (diss : DISS) {items : List NestedMeta} {ws : List SWord}
    (hsp : Spells items ws) (hd : DISS.fromList items = .ok diss)
    (h : r.base.data = .struct .tuple [f]) (ht : r.trait_ = .fromDeriveInput)
    (hs : r.supports = some diss)
    (hok : (Env.runOuter env run conv r (.deriveInput d)).isOk = true) :
    Accepts ws d.body.shape :=
  ((newtype_receiver_accepts_iff env run conv r f d diss hsp hd h ht hs).mp hok).1

/-- a newtype receiver `struct W(Inner);` declaring `supports(struct_named)` -/
def wrapperReceiver : Options.ROuter :=
  { (default : Options.ROuter) with
    trait_ := .fromDeriveInput
    base := { (default : Options.RCore) with
              ident := "W"
              data := .struct .tuple [{ (default : Options.RField) with ty := .recv "Inner" }] }
    supports := some { structValues := { pre := "struct_", named := true } } }

/-- D1 repaired, concrete: the union is now REJECTED by the wrapper, with the validator's error,
    even though the inner receiver would accept it; a named struct still goes through -/
example (env : Env.T) (conv) :
    Env.runOuter env (fun _ _ => .ok .unit) conv wrapperReceiver
        (.deriveInput { ident := "U", attrs := [], body := .union })
      = .err (Err.new (.unsupportedShape "union" none)) ∧
    Env.runOuter env (fun _ _ => .ok .unit) conv wrapperReceiver
        (.deriveInput { ident := "A", attrs := [], body := .struct .named [] })
      = .ok (.record "W" [("0", .unit)]) :=
  ⟨rfl, rfl⟩

/-- the hypotheses of the newtype theorems hold for `wrapperReceiver` and the parsed declaration
    `supports(struct_named)` -/
example :
    wrapperReceiver.base.data = .struct .tuple [{ (default : Options.RField) with ty := .recv "Inner" }] ∧
    wrapperReceiver.trait_ = .fromDeriveInput ∧
    (∃ diss, wrapperReceiver.supports = some diss ∧
      DISS.fromList [SWord.item (.fam .struct (some .named))] = .ok diss) :=
  ⟨rfl, rfl, _, rfl, rfl⟩

/-!
  D2 — "`struct_*` / `enum_*` words are additive" holds inside ONE `supports(...)` list only.
  A second `supports(...)` on the same receiver replaces the first (no duplicate-option error,
  no union of the two lists): `FdiOptions::parse_nested` assigns `self.supports`. -/

/-- D2: reading a `supports(...)` option overwrites whatever was declared before -/
theorem supports_last_wins (o : Oracle) (s : Options.OuterOpts) (mi : Meta)
    (hp : mi.path'.isIdent "supports" = true) (v : Option DISS)
    (hr : Options.readOptDISS mi = .ok v) :
    Options.outerTraitStep .fromDeriveInput o s mi = .ok { s with supports := v } := by
  simp only [Options.outerTraitStep, hp, hr, Options.withRead, Bool.true_and, beq_self_eq_true,
    if_true]

/-- the option `supports(items…)` as the derive macro sees it -/
def supportsMeta (items : List NestedMeta) : Meta :=
  .list { global := false, segs := ["supports"], plain := true, toks := "supports", span := ⟨0, 8⟩ }
    items none none "supports(..)" ⟨0, 20⟩

/-- D2, concrete: `supports(struct_named)` then `supports(enum_unit)` on one receiver — after the
    first a named struct is accepted, after the second it is refused -/
example (o : Oracle) :
    ∃ d1 d2 s1 s2,
      Options.outerTraitStep .fromDeriveInput o {}
          (supportsMeta [SWord.item (.fam .struct (some .named))]) = .ok s1 ∧
      s1.supports = some d1 ∧ (d1.validateBody (.struct .named)).isOk = true ∧
      Options.outerTraitStep .fromDeriveInput o s1
          (supportsMeta [SWord.item (.fam .enum (some .unit))]) = .ok s2 ∧
      s2.supports = some d2 ∧ (d2.validateBody (.struct .named)).isOk = false ∧
      Accepts [.fam .struct (some .named), .fam .enum (some .unit)] (.struct .named) :=
  ⟨_, _, _, _, rfl, rfl, rfl, rfl, rfl, rfl, by decide⟩

/-! ## 5. Non-vacuity -/

/-- every word list is spelled by some entry list: `Spells` is satisfiable for every `ws` -/
theorem spells_items (ws : List SWord) : Spells (ws.map (fun w => SWord.item w)) ws := by
  induction ws with
  | nil => exact .nil
  | cons w ws ih => exact .cons ⟨_, rfl, rfl⟩ ih

/-- the spans and the token text of an entry are free -/
example : IsWordItem
    (.item (.path { global := false, segs := ["enum_unit"], plain := true, toks := "enum_unit",
                    span := ⟨17, 26⟩ })) (.fam .enum (some .unit)) := ⟨_, rfl, rfl⟩

-- `SWord.any ∉ ws`, `HasFamily ws .enum` (hypotheses of `derived_enum_errors_partial`,
-- `derived_enum_eq`, `derived_enum_eq_api`) hold together, with both outcomes reachable
example : SWord.any ∉ [SWord.fam .enum (some .unit), .fam .struct none] := by decide
example : HasFamily [SWord.fam .enum (some .unit), .fam .struct none] .enum := ⟨_, List.mem_cons_self⟩
example : offenders [.fam .enum (some .unit), .fam .struct none] [.unit, .unit] = [] := by decide
example : offenders [.fam .enum (some .unit), .fam .struct none] [.unit, .tuple, .unit, .named]
    = [.tuple, .named] := by decide
example :
    derived [SWord.item (.fam .enum (some .unit)), SWord.item (.fam .struct none)]
      (.enum [.unit, .tuple, .unit, .named])
    = .err (.multi [Err.new (.unsupportedShape "unnamed fields" (some "no fields")),
                    Err.new (.unsupportedShape "named fields" (some "no fields"))] [] none) := rfl
example :
    derived [SWord.item (.fam .enum (some .unit)), SWord.item (.fam .struct none)]
      (.enum [.unit, .unit]) = .ok () := rfl
-- `¬ HasFamily ws .enum` (hypothesis of `derived_enum_without_enum_word`)
example : ¬ HasFamily [SWord.fam .struct none] .enum := by
  rintro ⟨c, hc⟩; simp at hc
-- `HasFamily ws .struct` (hypothesis of `derived_struct_eq_api`), both outcomes
example : HasFamily [SWord.fam .struct (some .tuple)] .struct := ⟨_, List.mem_cons_self⟩
example : derived [SWord.item (.fam .struct (some .tuple))] (.struct .newtype) = .ok () := rfl
example : derived [SWord.item (.fam .struct (some .newtype))] (.struct .tuple)
    = .err (Err.new (.unsupportedShape "unnamed fields" (some "one unnamed field"))) := rfl
-- the verdict theorem has both verdicts, for every kind of body
example : Accepts [.fam .struct (some .tuple), .fam .enum (some .unit)] (.struct .newtype) := by decide
example : ¬ Accepts [.fam .struct (some .newtype)] (.struct .tuple) := by decide
example : ¬ Accepts [.fam .enum (some .unit)] (.struct .unit) := by decide
example : ¬ Accepts [.fam .struct none, .fam .enum none] .union := by decide
example : Accepts [.any] .union := by decide
example : derived [SWord.item .any] .union = .ok () := rfl
example : derived [SWord.item (.fam .struct none), SWord.item (.fam .enum none)] .union
    = .err (Err.new (.unsupportedShape "union" none)) := rfl
-- `supports_rejects_non_word`: the hypotheses hold for, e.g., `struct_struct_named`
example : ∀ w : SWord, w.text ≠ "struct_struct_named" := by
  intro w; have key : ∀ x ∈ SWord.all, x.text ≠ "struct_struct_named" := by decide
  exact key w (SWord.mem_all w)
example : DISS.fromList [SWord.item (.fam .enum none),
      .item (.path { global := false, segs := ["struct_struct_named"], plain := true,
                     toks := "struct_struct_named", span := ⟨9, 28⟩ })]
    = .err ((Err.unknownValue "struct_struct_named").withSpan ⟨9, 28⟩) := rfl
-- variant level
example : SpellsCells [cellItem none, cellItem (some .tuple) ⟨5, 10⟩] [none, some .tuple] :=
  .cons ⟨_, rfl, rfl⟩ (.cons ⟨_, rfl, rfl⟩ .nil)
example : derivedVariant [cellItem (some .tuple)] .newtype = .ok () := rfl
example : derivedVariant [cellItem (some .newtype), cellItem (some .unit)] .tuple
    = .err (Err.new (.unsupportedShape "unnamed fields" (some "one unnamed field or no fields"))) := rfl
example : AcceptsVariant [some .tuple] .newtype := ⟨_, List.mem_cons_self, .inr ⟨rfl, rfl⟩⟩
example : ¬ AcceptsVariant [some .newtype, some .unit] .tuple := by
  rintro ⟨c, hc, ha⟩
  simp only [List.mem_cons, List.not_mem_nil, or_false] at hc
  rcases hc with rfl | rfl <;> rcases ha with h | ⟨h, _⟩ <;> cases h
-- D2 hypotheses (those of the newtype theorems are exhibited next to `wrapperReceiver`)
example : (supportsMeta [SWord.item (.fam .enum (some .unit))]).path'.isIdent "supports" = true := rfl
example : ∃ v, Options.readOptDISS (supportsMeta [SWord.item (.fam .enum (some .unit))]) = .ok v :=
  ⟨_, rfl⟩

end C18
