import Darling.Props.C03Universe
import Darling.Derive.Env
/-
  C03, derived receivers — discharge of the hypothesis `∀ n, (rh n).SpansIn A` of
  `C03.hooksOf_spansIn` for the derived `FromMeta` receivers of a corpus, so that the span theorem
  holds end to end: every span anywhere in an error that a receiver of any corpus (or a built-in
  conversion over it) returns for a span-well-formed item lies inside that item.

    (a) `struct_fromList_errsIn` / `structHooks_spansIn`: the all-nodes invariant for the item loop,
        the flatten hand-over, the missing-field checks, the bundle and the post-transform of an
        arbitrary `SStruct`, under the contract `FieldsSpansIn A` on its field converters;
    (b) `enumHooks_spansIn`: the enum counterpart (word / string / list forms, unit, newtype and
        struct variants);
    (c) `semStruct_fieldsSpansIn`, `fromMetaHooks_spansIn`, `recvHooksF_spansIn`: the assembly of
        `Env` (built-in field converters by `hooksOf_spansIn`, nested receivers by induction on the
        fuel, the harness's `with` / `map` / `and_then` functions, whose own errors are span-less by
        construction), and the end-to-end corollaries `recv_allWithin`, `corpus_allWithin`.

  The only hypothesis left is the oracle hypothesis `OracleArrWithin env.oracle A` of C03Universe
  (the `ExprArray` oracle answers inside the item under consideration).
-/
open Derive Options

namespace C03
variable {ν : Type}

/-! ### did-you-mean enrichment does not touch spans -/

mutual
theorem addSiblingAlts_allWithin (A : Span) (thr : Nat) (scores : String → List (String × Nat)) :
    (e : Err) → e.allWithin A = true → (Suggest.addSiblingAlts thr scores e).allWithin A = true
  | .leaf k ls sp, h => by
      simp only [Suggest.addSiblingAlts]
      split
      · exact h
      · split <;> exact h
  | .multi cs ls sp, h => by
      simp only [Suggest.addSiblingAlts]
      split
      · exact h
      · simp only [Err.allWithin, Bool.and_eq_true] at h ⊢
        exact ⟨h.1, addSiblingAltsList_allWithin A thr scores cs h.2⟩
theorem addSiblingAltsList_allWithin (A : Span) (thr : Nat) (scores : String → List (String × Nat)) :
    (es : List Err) → Err.allWithinList A es = true →
      Err.allWithinList A (Suggest.addSiblingAltsList thr scores es) = true
  | [], _ => by simp only [Suggest.addSiblingAltsList, Err.allWithinList]
  | c :: cs, h => by
      simp only [Err.allWithinList, Bool.and_eq_true] at h
      simp only [Suggest.addSiblingAltsList, Err.allWithinList, Bool.and_eq_true]
      exact ⟨addSiblingAlts_allWithin A thr scores c h.1, addSiblingAltsList_allWithin A thr scores cs h.2⟩
end

theorem _root_.Outcome.ErrsIn.addSiblingAlts {α : Type} {A : Span} {o : Outcome α} (h : o.ErrsIn A) (thr : Nat)
    (scores : String → List (String × Nat)) : (o.mapErr (Suggest.addSiblingAlts thr scores)).ErrsIn A := by
  cases o with
  | ok a => exact errsIn_ok A _
  | err e => exact errsIn_err (addSiblingAlts_allWithin A thr scores e (h e rfl))
  | panic m => exact errsIn_panic A m

/-- `r.bind g` (`.and_then(g)` / `.map(g)`) -/
theorem _root_.Outcome.ErrsIn.bind {α β : Type} {A : Span} {o : Outcome α} (h : o.ErrsIn A) (g : α → Outcome β)
    (hg : ∀ a, (g a).ErrsIn A) : (o.bind g).ErrsIn A := by
  cases o with
  | ok a => exact hg a
  | err e => exact errsIn_err (h e rfl)
  | panic m => exact errsIn_panic A m

theorem nestedWFList_append (A : Span) : (xs ys : List NestedMeta) →
    NestedMeta.spanWFList A (xs ++ ys) = (NestedMeta.spanWFList A xs && NestedMeta.spanWFList A ys)
  | [], ys => by simp only [List.nil_append, NestedMeta.spanWFList, Bool.true_and]
  | x :: xs, ys => by
      simp only [List.cons_append, NestedMeta.spanWFList, nestedWFList_append A xs ys, Bool.and_assoc]

/-! ### (a) the struct receiver -/

/-- the contract of the field converters of a struct parser, relative to the ambient span `A` -/
structure FieldsSpansIn (A : Span) (s : SStruct ν) : Prop where
  conv : ∀ f ∈ s.fields, ∀ m : Meta, m.spanWF = true → m.span.within A = true → (f.conv m).ErrsIn A
  fromList : ∀ f ∈ s.fields, ∀ items, NestedMeta.spanWFList A items = true → (f.fromList items).ErrsIn A
  post : ∀ v, (s.post v).ErrsIn A

/-- the all-nodes invariant of the parser state: every recorded error has all its spans inside
    `A`, and the items buffered for a flatten field are well-formed and inside `A` -/
def StInv (A : Span) (st : PState ν) : Prop :=
  ErrsAll A st.errs ∧ NestedMeta.spanWFList A st.flat = true

theorem stInv_init (A : Span) : StInv A ({} : PState ν) :=
  ⟨fun e he => (by cases he), rfl⟩

theorem StInv.push {A : Span} {st : PState ν} {e : Err} (h : StInv A st) (he : e.AllWithin A) :
    StInv A (st.push e) := ⟨h.1.push he, h.2⟩

theorem StInv.set {A : Span} {st : PState ν} (h : StInv A st) (i : String) (s : Slot ν) :
    StInv A (st.set i s) := h

/-- one iteration of the item loop keeps the invariant -/
theorem stepItem_inv {A : Span} (s : SStruct ν) (c : FieldsSpansIn A s) (st st' : PState ν) (it : NestedMeta)
    (hwf : it.spanWF = true) (hA : it.span.within A = true) (hp : StInv A st)
    (h : stepItem s st it = .ok st') : StInv A st' := by
  have unsp : ∀ e : Err, e.Unspanned → (e.withSpan it.span).AllWithin A :=
    fun e he => (he.allWithin A).withSpan hA
  cases it with
  | lit l =>
      simp only [stepItem] at h
      cases h
      exact hp.push (unsp _ (unsp_unsupportedFormat _))
  | item inner =>
      simp only [stepItem] at h
      cases ha : s.arm inner.path'.toStr with
      | none =>
          rw [ha] at h
          simp only [] at h
          by_cases hf : s.hasFlatten = true
          · simp only [hf, if_true] at h; cases h
            refine ⟨hp.1, ?_⟩
            simp only [nestedWFList_append, hp.2, Bool.true_and, NestedMeta.spanWFList, Bool.and_true,
              Bool.and_eq_true]
            exact ⟨hA, hwf⟩
          · simp only [hf] at h
            by_cases hu : s.allowUnknown = true
            · simp only [hu, if_true] at h; cases h; exact hp
            · simp only [hu] at h; cases h
              exact hp.push (unsp _ rfl)
      | some f =>
          have hm := arm_mem' s _ f ha
          have hcv' := c.conv f hm inner hwf hA
          rw [ha] at h
          simp only [] at h
          by_cases hmul : f.multiple = true
          · simp only [hmul, if_true] at h
            cases hcv : f.conv inner with
            | ok v => rw [hcv] at h; cases h; exact hp
            | err e =>
                rw [hcv] at h; cases h
                exact hp.push (((hcv' e hcv).withSpan hA).at _)
            | panic m => rw [hcv] at h; cases h
          · simp only [hmul] at h
            by_cases hseen : (st.slot f.ident).seen = true
            · simp only [hseen] at h; cases h
              exact hp.push (unsp _ (unsp_new _))
            · simp only [hseen] at h
              cases hcv : f.conv inner with
              | ok v => rw [hcv] at h; cases h; exact hp
              | err e =>
                  rw [hcv] at h; cases h
                  exact StInv.push (st := st.set f.ident _) hp (((hcv' e hcv).withSpan hA).at _)
              | panic m => rw [hcv] at h; cases h

theorem coreLoop_inv {A : Span} (s : SStruct ν) (c : FieldsSpansIn A s) :
    (items : List NestedMeta) → NestedMeta.spanWFList A items = true → ∀ (st st' : PState ν),
      StInv A st → coreLoop s st items = .ok st' → StInv A st'
  | [], _, st, st', hp, h => by simp only [coreLoop] at h; cases h; exact hp
  | it :: rest, hi, st, st', hp, h => by
      simp only [NestedMeta.spanWFList, Bool.and_eq_true] at hi
      simp only [coreLoop] at h
      cases hs : stepItem s st it with
      | error m => rw [hs] at h; cases h
      | ok st1 =>
          rw [hs] at h
          exact coreLoop_inv s c rest hi.2 st1 st' (stepItem_inv s c st st1 it hi.1.2 hi.1.1 hp hs) h

/-- the flatten hand-over: the buffered items are a sub-list of the items, still inside `A` -/
theorem flattenInit_inv {A : Span} (s : SStruct ν) (c : FieldsSpansIn A s) (st st' : PState ν)
    (hp : StInv A st) (h : flattenInit s st = .ok st') : StInv A st' := by
  unfold flattenInit at h
  cases hf : s.fields.find? (·.flatten) with
  | none => rw [hf] at h; cases h; exact hp
  | some ff =>
      rw [hf] at h
      simp only [] at h
      have hres : (ff.fromList st.flat).ErrsIn A := c.fromList ff (List.mem_of_find?_eq_some hf) st.flat hp.2
      have hres' : (if s.names.isEmpty = true then ff.fromList st.flat else
          (ff.fromList st.flat).mapErr (Suggest.addSiblingAlts s.thr
            (fun n => s.names.map (fun a => (a, s.score n a))))).ErrsIn A := by
        split
        · exact hres
        · exact hres.addSiblingAlts _ _
      revert h hres'
      generalize (if s.names.isEmpty = true then ff.fromList st.flat else
          (ff.fromList st.flat).mapErr (Suggest.addSiblingAlts s.thr
            (fun n => s.names.map (fun a => (a, s.score n a))))) = res
      intro h hres'
      cases res with
      | ok v => cases h; exact hp
      | err e => cases h; exact StInv.push (st := st.set ff.ident _) hp (hres' e rfl)
      | panic m => cases h

/-- `CheckMissing`: absences are recorded without a span -/
theorem checkMissing_inv {A : Span} : (fs : List (SField ν)) → (st : PState ν) → StInv A st →
    StInv A (checkMissing fs st)
  | [], st, hp => by simp only [checkMissing]; exact hp
  | f :: rest, st, hp => by
      simp only [checkMissing]
      apply checkMissing_inv rest
      split
      · split
        · split
          · exact hp
          · exact hp.push ((unsp_new _).allWithin A)
        · exact hp
      · exact hp

theorem defaultValue_errsIn (A : Span) (r : SStruct ν) (f : SField ν) (d : DefaultSrc ν) :
    (defaultValue r f d).ErrsIn A := by
  unfold defaultValue
  split
  · exact errsIn_ok A _
  · split
    · exact errsIn_ok A _
    · exact errsIn_panic A _

/-- the initialisers return no error of their own -/
theorem initField_errsIn (A : Span) (r : SStruct ν) (st : PState ν) (f : SField ν) :
    (initField r st f).ErrsIn A := by
  unfold initField
  simp only []
  split
  · split
    · split
      · exact errsIn_ok A _
      · exact defaultValue_errsIn A r f _
    · exact errsIn_ok A _
  · split
    · split
      · exact errsIn_ok A _
      · exact defaultValue_errsIn A r f _
    · split
      · exact errsIn_ok A _
      · exact errsIn_panic A _

theorem initFields_errsIn (A : Span) (r : SStruct ν) (st : PState ν) :
    (fs : List (SField ν)) → (initFields r st fs).ErrsIn A
  | [] => by simp only [initFields]; exact errsIn_ok A _
  | f :: rest => by
      simp only [initFields]
      have hf := initField_errsIn A r st f
      cases h : initField r st f with
      | ok v => exact (initFields_errsIn A r st rest).map _
      | err e => exact errsIn_err (hf e h)
      | panic m => exact errsIn_panic A m

/-- everything after the attribute walk: flatten hand-over, missing fields, the bundle (an unspanned
    `multi` node over errors inside `A`, or the single error), its location, the post-transform -/
theorem finishStruct_errsIn {A : Span} (r : SStruct ν) (c : FieldsSpansIn A r) (flattenHere : Bool)
    (loc : Option String) (st : PState ν) (hp : StInv A st) :
    (finishStruct r flattenHere loc st).ErrsIn A := by
  unfold finishStruct
  simp only []
  have h1 : ∀ st1, (if flattenHere = true then flattenInit r st else .ok st) = .ok st1 → StInv A st1 := by
    intro st1 h
    cases flattenHere with
    | true => simp only [if_true] at h; exact flattenInit_inv r c st st1 hp h
    | false => simp only [Bool.false_eq_true, if_false] at h; cases h; exact hp
  cases hs1 : (if flattenHere = true then flattenInit r st else Except.ok st) with
  | error m => exact errsIn_panic A m
  | ok st1 =>
      have h2 := checkMissing_inv r.fields st1 (h1 st1 hs1)
      simp only []
      cases he : (checkMissing r.fields st1).errs with
      | cons x xs =>
          simp only []
          have hb : (Err.bundleErr (x :: xs) : Outcome ν).ErrsIn A := bundleErr_errsIn (by rw [← he]; exact h2.1)
          cases loc with
          | none => exact hb
          | some l => exact hb.at l
      | nil =>
          simp only []
          have hi := initFields_errsIn A r (checkMissing r.fields st1) r.fields
          cases hk : initFields r (checkMissing r.fields st1) r.fields with
          | ok kvs => exact c.post _
          | err e => exact errsIn_err (hi e hk)
          | panic m => exact errsIn_panic A m

/-- **the emitted `from_list` of a named struct**: every span anywhere in the error it returns
    for a well-formed item list inside `A` lies inside `A` -/
theorem struct_fromList_errsIn {A : Span} (r : SStruct ν) (c : FieldsSpansIn A r) (items : List NestedMeta)
    (hi : NestedMeta.spanWFList A items = true) : (Derive.fromList r items).ErrsIn A := by
  unfold Derive.fromList
  cases h : coreLoop r {} items with
  | error m => exact errsIn_panic A m
  | ok st => exact finishStruct_errsIn r c true none st (coreLoop_inv r c items hi {} st (stInv_init A) h)

theorem struct_fromList_allWithin {A : Span} (r : SStruct ν) (c : FieldsSpansIn A r) (items : List NestedMeta)
    (hi : NestedMeta.spanWFList A items = true) (e : Err) (he : Derive.fromList r items = .err e) :
    e.AllWithin A := struct_fromList_errsIn r c items hi e he

/-! the assembled hooks of a derived struct -/

theorem structHooks_spansIn_unit (A : Span) (v : ν) (fw : Option (Outcome ν)) (fn : Option ν) :
    (structHooks (.unit v) fw fn).SpansIn A := by
  constructor <;> intro f hf <;> simp [structHooks] at hf
  subst hf; exact unsp_ok _

theorem structHooks_spansIn_newtype {A : Span} (inner : Hooks ν) (wrap : ν → ν) (hi : inner.SpansIn A)
    (fw : Option (Outcome ν)) (fn : Option ν) : (structHooks (.newtype inner wrap) fw fn).SpansIn A := by
  constructor <;> intro f hf <;> simp [structHooks] at hf
  subst hf; intro m hwf hA; exact ((hi.fromMeta m hwf hA).withSpan hA).map _

theorem structHooks_spansIn_named {A : Span} (s : SStruct ν) (c : FieldsSpansIn A s)
    (fw : Option (Outcome ν)) (hfw : ∀ r, fw = some r → r.ErrsUnspanned) (fn : Option ν) :
    (structHooks (.named s) fw fn).SpansIn A := by
  constructor <;> intro f hf <;> simp [structHooks] at hf
  · exact hfw f hf
  · subst hf; exact struct_fromList_errsIn s c

/-! ### (b) the enum receiver -/

/-- what `enumHooks_spansIn` needs of a variant: the converter of a newtype variant honours the
    contract, the field parser of a struct variant satisfies `FieldsSpansIn` -/
def VariantSpansIn (A : Span) (v : SVariant ν) : Prop :=
  match v.kind with
  | .unit _ => True
  | .newtype fromMeta _ _ => ∀ m : Meta, m.spanWF = true → m.span.within A = true → (fromMeta m).ErrsIn A
  | .struct s => FieldsSpansIn A s

/-- `DataMatchArm` of the selected variant on the (well-formed) item that selected it -/
theorem dataArm_errsIn {A : Span} (v : SVariant ν) (hv : VariantSpansIn A v) (nested : Meta)
    (hwf : nested.spanWF = true) (hA : nested.span.within A = true) : (dataArm v nested).ErrsIn A := by
  unfold dataArm
  unfold VariantSpansIn at hv
  cases hk : v.kind with
  | unit val =>
      simp only []
      cases nested <;> first
        | exact errsIn_ok A _
        | exact errsIn_err ((unsp_unsupportedFormat _).allWithin A)
  | newtype fm fn wrap =>
      rw [hk] at hv
      exact ((hv nested hwf hA).at _).map _
  | struct s =>
      rw [hk] at hv
      simp only [] at hv ⊢
      cases nested with
      | path _ => exact errsIn_err ((unsp_unsupportedFormat _).allWithin A)
      | nameValue _ _ _ _ => exact errsIn_err ((unsp_unsupportedFormat _).allWithin A)
      | list p items bad ts t sp =>
          simp only [Meta.span] at hA
          simp only [Meta.spanWF, Bool.and_eq_true] at hwf
          cases bad with
          | some b =>
              obtain ⟨msg, bs⟩ := b
              exact errsIn_err ((leaf_allWithin _ _ (within_trans hwf.1.2 hA)).at _)
          | none =>
              simp only []
              have hi := nestedWFList_mono hA items hwf.2
              cases h : coreLoop s {} items with
              | error m => exact errsIn_panic A m
              | ok st =>
                  exact finishStruct_errsIn s hv true (some v.name) st
                    (coreLoop_inv s hv items hi {} st (stInv_init A) h)

/-- the emitted `from_list` of an enum: too few / too many items and a bare literal are reported
    without a span, an unknown variant at the item, the rest by the selected variant and then
    spanned with the item that selected it -/
theorem enumFromList_errsIn {A : Span} (e : SEnum ν) (hv : ∀ v ∈ e.variants, VariantSpansIn A v)
    (outer : List NestedMeta) (hi : NestedMeta.spanWFList A outer = true) :
    (enumFromList e outer).ErrsIn A := by
  unfold enumFromList
  split
  · exact errsIn_err ((unsp_new _).allWithin A)
  · rename_i nested
    simp only [NestedMeta.spanWFList, Bool.and_eq_true, Bool.and_true] at hi
    simp only []
    cases ha : e.arm nested.path'.toStr with
    | none =>
        refine errsIn_err (Err.AllWithin.withSpan (Err.Unspanned.allWithin ?_ A) hi.1)
        unfold SEnum.unknownErr
        split <;> rfl
    | some v => exact (dataArm_errsIn v (hv v (List.mem_of_find?_eq_some ha)) nested hi.2 hi.1).withSpan hi.1
  · exact errsIn_err ((unsp_unsupportedFormat _).allWithin A)
  · exact errsIn_err ((unsp_new _).allWithin A)

/-- the emitted `from_string` of an enum returns span-less errors -/
theorem enumFromString_unsp (e : SEnum ν) (lit : String) : (enumFromString e lit).ErrsUnspanned := by
  unfold enumFromString
  cases e.arm lit with
  | none => exact unsp_err (unsp_unknownValue _)
  | some v =>
      simp only []
      cases v.kind with
      | unit val => exact unsp_ok _
      | newtype fm fn wrap =>
          cases fn with
          | some x => exact unsp_ok _
          | none => exact unsp_err (unsp_unsupportedFormat _)
      | struct s => exact unsp_err (unsp_unsupportedFormat _)

theorem enumHooks_spansIn {A : Span} (e : SEnum ν) (hv : ∀ v ∈ e.variants, VariantSpansIn A v)
    (hw : ∀ r, e.fromWord = some r → r.ErrsUnspanned) : (enumHooks e).SpansIn A := by
  constructor <;> intro f hf <;> simp [enumHooks] at hf
  · exact hw f hf
  · subst hf; exact enumFromList_errsIn e hv
  · subst hf; exact enumFromString_unsp e

/-! ### (c) the receivers of a corpus -/

/-! the harness's custom functions: their own errors are span-less by construction -/

theorem customWith_errsIn {A : Span} (o : Oracle) (rh : String → Hooks Val) (w : String) (f : Meta → Outcome Val)
    (h : Env.customWith o rh w = some f) (hr : ∀ n, (rh n).SpansIn A) :
    ∀ m : Meta, m.spanWF = true → m.span.within A = true → (f m).ErrsIn A := by
  have hb : ∀ t : Ty, t.usesArr = false → (hooksOf o rh t).SpansIn A :=
    fun t ht => hooksOf_spansIn' o rh A hr t (fun h' => by rw [ht] at h'; cases h')
  unfold Env.customWith at h
  simp only [] at h
  split at h
  · cases h; intro m hwf hA; exact ((hb _ rfl).fromMeta m hwf hA).map _
  · cases h; intro m hwf hA; exact ((hb _ rfl).fromMeta m hwf hA).map _
  · cases h; intro m hwf hA; exact ((hb _ rfl).fromMeta m hwf hA).map _
  · cases h; intro m _ _; exact errsIn_err ((unsp_custom _).allWithin A)
  · cases h

theorem customPost_unsp (p : Post) (t : Ty) (g : Val → Outcome Val)
    (h : Env.customPost p = some (t, g)) : ∀ v, (g v).ErrsUnspanned := by
  unfold Env.customPost at h
  split at h
  · cases h; intro v; simp only []; split <;> exact unsp_ok _
  · cases h; intro v; simp only []; split <;> exact unsp_ok _
  · cases h; intro v; simp only []; split <;> first | exact unsp_ok _ | exact unsp_err (unsp_custom _)
  · cases h
  · cases h

/-! the fields of a derived receiver -/

theorem with_base_errsIn {A : Span} (o : Oracle) (rh : String → Hooks Val) (hr : ∀ n, (rh n).SpansIn A)
    (ho : OracleArrWithin o A) (w : Option String) (ty : Ty) (m : Meta) (hwf : m.spanWF = true)
    (hA : m.span.within A = true) :
    ((match w.bind (Env.customWith o rh) with
      | some w => w
      | none => (hooksOf o rh ty).fromMeta) m).ErrsIn A := by
  cases hw : w.bind (Env.customWith o rh) with
  | none => exact (hooksOf_spansIn o rh A hr ho ty).fromMeta m hwf hA
  | some f =>
      cases w with
      | none => cases hw
      | some s => exact customWith_errsIn o rh s f hw hr m hwf hA

theorem semField_conv_errsIn {A : Span} (env : Env.T) (rh : String → Hooks Val) (hr : ∀ n, (rh n).SpansIn A)
    (ho : OracleArrWithin env.oracle A) (f : RField) (m : Meta) (hwf : m.spanWF = true)
    (hA : m.span.within A = true) : ((Env.semField env rh f).conv m).ErrsIn A := by
  simp only [Env.semField]
  cases hp : f.post with
  | none => exact with_base_errsIn _ rh hr ho _ _ m hwf hA
  | some p =>
      cases hq : Env.customPost p with
      | none => simp only [Option.bind_some, hq]; exact with_base_errsIn _ rh hr ho _ _ m hwf hA
      | some tg =>
          obtain ⟨t, g⟩ := tg
          simp only [Option.bind_some, hq]
          split <;> exact (with_base_errsIn _ rh hr ho _ _ m hwf hA).bind g
            (fun v => (customPost_unsp p t g hq v).errsIn A)

theorem semField_fromList_errsIn {A : Span} (env : Env.T) (rh : String → Hooks Val) (hr : ∀ n, (rh n).SpansIn A)
    (ho : OracleArrWithin env.oracle A) (f : RField) (items : List NestedMeta)
    (hi : NestedMeta.spanWFList A items = true) : ((Env.semField env rh f).fromList items).ErrsIn A :=
  (hooksOf_spansIn env.oracle rh A hr ho f.ty).fromList items hi

/-- the struct parser assembled for a derived receiver satisfies the field contract -/
theorem semStruct_fieldsSpansIn {A : Span} (env : Env.T) (rh : String → Hooks Val) (hr : ∀ n, (rh n).SpansIn A)
    (ho : OracleArrWithin env.oracle A) (core : RCore) (fields : List RField)
    (build : List (String × Val) → Val) : FieldsSpansIn A (Env.semStruct env rh core fields build) := by
  constructor
  · intro sf hsf
    simp only [Env.semStruct, List.mem_map] at hsf
    obtain ⟨f, _, rfl⟩ := hsf
    exact semField_conv_errsIn env rh hr ho f
  · intro sf hsf
    simp only [Env.semStruct, List.mem_map] at hsf
    obtain ⟨f, _, rfl⟩ := hsf
    exact semField_fromList_errsIn env rh hr ho f
  · intro v
    show (Outcome.ErrsIn A _)
    simp only [Env.semStruct]
    cases hp : core.post.bind Env.customPost with
    | none => exact errsIn_ok A _
    | some tg =>
        obtain ⟨t, g⟩ := tg
        cases hcp : core.post with
        | none => rw [hcp] at hp; cases hp
        | some p => rw [hcp] at hp; exact (customPost_unsp p t g hp v).errsIn A

theorem optionMap_unsp {α ν : Type} (fw : Option α) (g : α → Outcome ν) (hg : ∀ a, (g a).ErrsUnspanned) :
    ∀ x, fw.map g = some x → x.ErrsUnspanned := by
  intro x hx
  cases fw with
  | none => cases hx
  | some a => simp only [Option.map_some, Option.some.injEq] at hx; subst hx; exact hg a

/-- the assembled hooks of any `FromMeta` receiver the derive model produces -/
theorem fromMetaHooks_spansIn {A : Span} (env : Env.T) (rh : String → Hooks Val) (hr : ∀ n, (rh n).SpansIn A)
    (ho : OracleArrWithin env.oracle A) (r : RFromMeta) : (Env.fromMetaHooks env rh r).SpansIn A := by
  unfold Env.fromMetaHooks
  simp only []
  have hfw : ∀ (a : Sum String String), (match a with
      | .inl c => (match env.oracle.val? ("fn:" ++ c) with
          | some v => Outcome.ok v
          | none => .err (Err.custom ("unknown from_word callable " ++ c)))
      | .inr variant => .ok (.variant r.base.ident variant .unit) : Outcome Val).ErrsUnspanned := by
    intro a
    cases a with
    | inl c => simp only []; split <;> first | exact unsp_ok _ | exact unsp_err (unsp_custom _)
    | inr v => exact unsp_ok _
  cases hd : r.base.data with
  | struct style fields =>
      have named := structHooks_spansIn_named _
        (semStruct_fieldsSpansIn env rh hr ho r.base fields (fun kvs => .record r.base.ident kvs))
        _ (optionMap_unsp r.fromWord _ hfw) (r.fromNone.bind (fun c => env.oracle.val? ("fn:" ++ c)))
      cases style with
      | unit => exact structHooks_spansIn_unit A _ _ _
      | named => exact named
      | tuple =>
          cases fields with
          | nil => exact named
          | cons f rest =>
              cases rest with
              | nil => exact structHooks_spansIn_newtype _ _ (hooksOf_spansIn _ rh A hr ho _) _ _
              | cons g rest => exact named
  | enum variants =>
      refine enumHooks_spansIn _ ?_ (optionMap_unsp r.fromWord _ hfw)
      intro sv hsv
      simp only [List.mem_map] at hsv
      obtain ⟨rv, _, rfl⟩ := hsv
      have strct : ∀ fs (c : RCore) (b : List (String × Val) → Val),
          FieldsSpansIn A (Env.semStruct env rh c fs b) :=
        fun fs c b => semStruct_fieldsSpansIn env rh hr ho c fs b
      unfold VariantSpansIn
      simp only []
      cases hs : rv.style with
      | unit => trivial
      | named => exact strct _ _ _
      | tuple =>
          cases hf : rv.fields with
          | nil => exact strct _ _ _
          | cons f rest =>
              cases rest with
              | nil => intro m hwf hA; exact (hooksOf_spansIn _ rh A hr ho _).fromMeta m hwf hA
              | cons g rest => exact strct _ _ _

/-- **every receiver of every corpus honours the span contract, at every nesting depth** -/
theorem recvHooksF_spansIn (env : Env.T) (A : Span) (ho : OracleArrWithin env.oracle A) :
    ∀ (fuel : Nat) (name : String), (Env.recvHooksF fuel env name).SpansIn A
  | 0, _ => by simp only [Env.recvHooksF]; exact empty_spansIn A
  | fuel + 1, name => by
      simp only [Env.recvHooksF]
      cases hf : env.decls.find? (·.1 == name) with
      | none => exact empty_spansIn A
      | some x =>
          obtain ⟨n, t, d, sp⟩ := x
          simp only []
          cases hd : Options.derive t env.oracle (fun _ => none) sp d with
          | err e => exact empty_spansIn A
          | panic m => exact empty_spansIn A
          | ok dv =>
              cases dv with
              | outer r => exact empty_spansIn A
              | fromMeta r =>
                  exact fromMetaHooks_spansIn env _ (fun n => recvHooksF_spansIn env A ho fuel n) ho r

theorem recvHooks_spansIn (env : Env.T) (A : Span) (ho : OracleArrWithin env.oracle A) (name : String) :
    (Env.recvHooks env name).SpansIn A :=
  recvHooksF_spansIn env A ho _ name

/-! ### end to end -/

/-- **C03 for `FromMeta` receivers**: every span anywhere in the error the generated `from_meta` of
    any receiver of any corpus returns for a well-formed item lies inside that item -/
theorem recv_allWithin (env : Env.T) (name : String) (m : Meta) (hwf : m.spanWF = true)
    (ho : OracleArrWithin env.oracle m.span) (e : Err)
    (he : (Env.recvHooks env name).fromMeta m = .err e) : e.AllWithin m.span :=
  (recvHooks_spansIn env m.span ho name).fromMeta m hwf (within_refl _) e he

theorem recv_nested_allWithin (env : Env.T) (name : String) (n : NestedMeta) (hwf : n.spanWF = true)
    (ho : OracleArrWithin env.oracle n.span) (e : Err)
    (he : (Env.recvHooks env name).fromNestedMeta n = .err e) : e.AllWithin n.span :=
  (recvHooks_spansIn env n.span ho name).fromNestedMeta n hwf (within_refl _) e he

/-- the `from_list` entry point, inside any hull that contains the (well-formed) items -/
theorem recv_fromList_allWithin (env : Env.T) (name : String) (items : List NestedMeta) (hull : Span)
    (hi : NestedMeta.spanWFList hull items = true) (ho : OracleArrWithin env.oracle hull) (e : Err)
    (he : (Env.recvHooks env name).fromList items = .err e) : e.AllWithin hull :=
  (recvHooks_spansIn env hull ho name).fromList items hi e he

/-- **C03 for every target type over a corpus** (built-in conversions, wrappers and maps over the
    corpus's receivers, to any depth): no hypothesis about receivers is left -/
theorem corpus_spansIn (env : Env.T) (A : Span) (ho : OracleArrWithin env.oracle A) (t : Ty) :
    (hooksOf env.oracle (Env.recvHooks env) t).SpansIn A :=
  hooksOf_spansIn env.oracle _ A (recvHooks_spansIn env A ho) ho t

theorem corpus_allWithin (env : Env.T) (t : Ty) (m : Meta) (hwf : m.spanWF = true)
    (ho : OracleArrWithin env.oracle m.span) (e : Err)
    (he : (hooksOf env.oracle (Env.recvHooks env) t).fromMeta m = .err e) : e.AllWithin m.span :=
  (corpus_spansIn env m.span ho t).fromMeta m hwf (within_refl _) e he

/-- … in the shape of the converter contract `ConvSpans` -/
theorem corpus_convSpans (env : Env.T) (t : Ty) (m : Meta) (hwf : m.spanWF = true)
    (ho : OracleArrWithin env.oracle m.span) (e : Err)
    (he : (hooksOf env.oracle (Env.recvHooks env) t).fromMeta m = .err e) :
    ∀ sp, e.span = some sp → sp.within m.span = true :=
  (corpus_allWithin env t m hwf ho e he).span

/-! ### non-vacuity -/

private def fld (n : String) (t : Ty) : FieldD := { ident := some n, ty := t, tyToks := "", vis := "", attrs := [] }

/-- the corpus
    `#[derive(FromMeta)] struct R { a: bool, inner: E }`,
    `#[derive(FromMeta)] enum E { Unit, St { x: u8 } }` -/
private def exEnv : Env.T :=
  { decls := [
      ("R", .fromMeta,
        { ident := "R", attrs := [], body := .struct .named [fld "a" .bool, fld "inner" (.recv "E")] }, {}),
      ("E", .fromMeta,
        { ident := "E", attrs := [], body := .enum [
            { ident := "Unit", style := .unit, fields := [], attrs := [], discriminant := none },
            { ident := "St", style := .named, fields := [fld "x" (.int ⟨"u8", false, 8, false⟩)],
              attrs := [], discriminant := none }] }, {})],
    oracle := {}, thr := 0 }

private def pth (n : String) (lo hi : Nat) : Path :=
  { global := false, segs := [n], plain := true, toks := n, span := ⟨lo, hi⟩ }

/-- `r(a = 1, inner(st(x = "q", y)))`, the value of `x` ending at `xHi` -/
private def mRx (xHi : Nat) : Meta :=
  .list (pth "r" 0 1)
    [.item (.nameValue (pth "a" 2 3) (.lit ⟨.int "1" "", "1", ⟨6, 7⟩⟩) "a = 1" ⟨2, 7⟩),
     .item (.list (pth "inner" 9 14)
        [.item (.list (pth "st" 15 17)
            [.item (.nameValue (pth "x" 18 19) (.lit ⟨.str "q", "\"q\"", ⟨22, xHi⟩⟩) "x = \"q\"" ⟨18, 25⟩),
             .item (.path (pth "y" 27 28))]
            none (some ⟨18, 28⟩) "x = \"q\", y" ⟨15, 29⟩)]
        none (some ⟨15, 29⟩) "st(x = \"q\", y)" ⟨9, 30⟩)]
    none (some ⟨2, 30⟩) "a = 1, inner(st(x = \"q\", y))" ⟨0, 31⟩

private def mR : Meta := mRx 25

example : mR.spanWF = true := by decide
example : (mRx 40).spanWF = false := by decide

/-- three mistakes at three nesting levels (wrong literal type 6..7, bad integer 22..25, unknown
    field 27..28 inside a bundle spanned with the nested item 9..30, the whole spanned with the
    item 0..31): every span lies inside the item -/
example : ∃ e, (Env.recvHooks exEnv "R").fromMeta mR = .err e
    ∧ e.allWithin mR.span = true ∧ e.len = 3 ∧ e.unspanned = false :=
  ⟨_, rfl, by decide, by decide, by decide⟩

/-- … as an instance of the theorem -/
example (e : Err) (he : (Env.recvHooks exEnv "R").fromMeta mR = .err e) : e.AllWithin mR.span :=
  recv_allWithin exEnv "R" mR (by decide) (oracle_arrsWithin (by decide)) e he

/-- … and through a wrapper over the receiver -/
example (e : Err)
    (he : (hooksOf exEnv.oracle (Env.recvHooks exEnv) (.option (.recv "R"))).fromMeta mR = .err e) :
    e.AllWithin mR.span :=
  corpus_allWithin exEnv _ mR (by decide) (oracle_arrsWithin (by decide)) e he

/-- well-formedness is needed: on the ill-formed item a span sticks out -/
example : ∃ e, (Env.recvHooks exEnv "R").fromMeta (mRx 40) = .err e
    ∧ e.allWithin (mRx 40).span = false :=
  ⟨_, rfl, by decide⟩

end C03
