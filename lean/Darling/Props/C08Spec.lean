import Darling.Derive.Env
import Darling.Props.C02
/-
  C08 — Attribute selection, merging across attributes, and forwarding: a specification written
  from the property text, and the proofs that the model (`Derive.extract`, `Env.runOuter`) meets it.

  §1  the specification: `listed` (path is in `attributes(..)`), `itemsOf` (bare / empty = no items,
      `none` = not an item list), `mergedItems` (the "single list"), `fwdSel` / `forwardedSpec`
      (what `forward_attrs` selects: absent ↦ nothing, bare ↦ the non-listed, list ↦ the named),
      `Other`, `WellFormed`, and the one side condition `NoOverlap`.
  §2  proof machinery (`walkP`, `fwdM`, `extract_eq`): the walk splits into a parse half and a
      forward half.
  §3  theorems about the extractor, for all receivers and all attribute lists:
        selection     `reads_only_listed`, `extract_normal_form`, `interleaving_invariance`,
                      `malformed_listed_reports`
        merging       `splitting_invariance`, `several_are_one_list`, `single_list_partial`,
                      `split_anywhere`, `bare_or_empty_inert`
        positional    `walk_positional_partial`, `walk_positional_general_partial` (+ `walkMistakes`)
        inertness     `other_attribute_inert`
        forwarding    `forwarding_partial`, `attrs_field_gets_exactly_partial`,
                      `forwards_exactly_iff_noOverlap` (the side condition is the weakest one)
  §4  the whole receiver: `runOuter_congr` (attributes matter through `extract` only) and the
      end-to-end forms `runOuter_splitting_invariance`, `runOuter_interleaving_invariance`,
      `runOuter_other_inert` — for receivers that are not newtypes.
  §5  discrepancies with the property text: `overlap_discrepancy` (D1), `newtype_ignores_its_declaration` (D2).
  §6  non-vacuity of every hypothesis.
-/
open Derive Options Spec.C02

namespace C08
variable {ν : Type}

/-! ## 1. The specification, clause by clause (no loop, no state, no step function) -/

/-- *"the attributes whose path is listed in its `attributes(...)` declaration"* -/
def listedIn (names : List String) (a : Attr) : Bool := names.contains a.path.toStr
def listed (r : SOuter ν) (a : Attr) : Bool := listedIn r.attrNames a

/-- the items an attribute holds: a bare one (`#[n]`) and an empty one (`#[n()]`) hold none;
    `none` = the body is not a list of items at all (`#[n = ..]`, unparseable tokens) -/
def itemsOf (a : Attr) : Option (List NestedMeta) :=
  match a.body with
  | .path _ => some []
  | .list _ items none _ _ _ => some items
  | .list _ _ (some _) _ _ _ => none
  | .nameValue _ _ _ _ => none

/-- the one error a listed attribute whose body is not an item list is answered with -/
def malformedErr (a : Attr) : Err :=
  match a.body with
  | .list _ _ (some (msg, sp)) _ _ _ => .leaf (.custom msg) [] (some sp)
  | .nameValue p _ _ sp =>
      (Err.custom ("Name-value arguments are not supported. Use #[" ++ displayPath p ++ "(...)]")).withSpan sp
  | _ => Err.custom ""

/-- every listed attribute holds a list of items (the domain of the merging clause: *"all item
    sequences, all partitions of a sequence into attributes"*) -/
def WellFormedFor (names : List String) (attrs : List Attr) : Prop :=
  ∀ a ∈ attrs, listedIn names a = true → (itemsOf a).isSome = true
def WellFormed (r : SOuter ν) (attrs : List Attr) : Prop := WellFormedFor r.attrNames attrs

/-- *"treats several such attributes on one element as a single list"*: that list -/
def mergedItemsOf (names : List String) (attrs : List Attr) : List NestedMeta :=
  (attrs.filter (listedIn names)).flatMap (fun a => (itemsOf a).getD [])
def mergedItems (r : SOuter ν) (attrs : List Attr) : List NestedMeta := mergedItemsOf r.attrNames attrs

/-- *"the attributes selected by `forward_attrs` (all non-consumed ones when given bare)"* -/
def fwdSel (names : List String) (fw : Option FwdFilter) (a : Attr) : Bool :=
  match fw with
  | none => false
  | some .all => !listedIn names a
  | some (.only ns) => ns.contains a.path.toStr

/-- *"exactly [those], unmodified and in source order"*: a sub-list of the very same values -/
def forwardedOf (names : List String) (fw : Option FwdFilter) (attrs : List Attr) : List Attr :=
  attrs.filter (fwdSel names fw)
def forwardedSpec (r : SOuter ν) (attrs : List Attr) : List Attr := forwardedOf r.attrNames r.forward attrs

/-- *"every other attribute"*: not listed, and not handed to an `attrs` field -/
def Other (r : SOuter ν) (a : Attr) : Prop :=
  listed r a = false ∧ (r.attrsField.isSome = true → fwdSel r.attrNames r.forward a = false)

/-- the side condition of the forwarding clause (see `overlap_discrepancy`): no attribute of the
    element is both listed in `attributes(..)` and named in the `forward_attrs(..)` list -/
def NoOverlapFor (names : List String) (fw : Option FwdFilter) (attrs : List Attr) : Prop :=
  ∀ a ∈ attrs, listedIn names a = true → fwdSel names fw a = false
def NoOverlap (r : SOuter ν) (attrs : List Attr) : Prop := NoOverlapFor r.attrNames r.forward attrs

/-- the receiver without its `attrs` field: what is *parsed*, forwarding left out -/
def parseOnly (r : SOuter ν) : SOuter ν := { r with attrsField := none }

/-! ## 2. Proof machinery (not part of the specification) -/

/-- the attribute the model forwards -/
def fwdM (r : SOuter ν) (a : Attr) : Bool :=
  !listed r a && r.willFwdAny &&
    (match r.forward with
     | some .all => true
     | some (.only ns) => ns.contains a.path.toStr
     | none => false)

/-- the parse half of the walk -/
def walkP (r : SOuter ν) : PState ν → List Attr → Except String (PState ν)
  | p, [] => .ok p
  | p, a :: rest =>
      if listed r a then
        match attrItems a with
        | .items xs => (match coreLoop r.fields p xs with
            | .ok p' => walkP r p' rest
            | .error m => .error m)
        | .err e => walkP r (p.push e) rest
      else walkP r p rest

theorem attrItems_eq (a : Attr) :
    attrItems a = (match itemsOf a with
      | some xs => .items xs
      | none => .err (malformedErr a)) := by
  unfold attrItems itemsOf malformedErr
  cases a.body with
  | path p => rfl
  | nameValue p e t s => rfl
  | list p items bad ts t s =>
      cases bad with
      | none => rfl
      | some b => cases b; rfl

theorem listed_eq (r : SOuter ν) (a : Attr) :
    (r.willParseAny && r.attrNames.contains a.path.toStr) = listed r a := by
  unfold listed listedIn SOuter.willParseAny
  cases h : r.attrNames with
  | nil => simp
  | cons x xs => simp

theorem stepAttr_eq (r : SOuter ν) (st : XState ν) (a : Attr) :
    stepAttr r st a =
      if listed r a then
        (match attrItems a with
         | .items xs => (match coreLoop r.fields st.p xs with
             | .ok p => .ok ⟨p, st.fwd⟩
             | .error m => .error m)
         | .err e => .ok ⟨st.p.push e, st.fwd⟩)
      else .ok ⟨st.p, st.fwd ++ (if fwdM r a then [a] else [])⟩ := by
  unfold stepAttr
  simp only [listed_eq]
  cases hl : listed r a with
  | true =>
      simp only [if_true]
      cases hi : attrItems a with
      | items xs =>
          cases xs with
          | nil => simp only [coreLoop]
          | cons x rest =>
              simp only []
              cases coreLoop r.fields st.p (x :: rest) <;> rfl
      | err e => rfl
  | false =>
      simp only [Bool.false_eq_true, if_false, fwdM, hl, Bool.not_false, Bool.true_and]
      cases hw : r.willFwdAny with
      | false => simp
      | true =>
          simp only [if_true, Bool.true_and]
          cases hf : r.forward with
          | none => simp
          | some f =>
              cases f with
              | all => simp
              | only ns =>
                  by_cases hc : a.path.toStr ∈ ns
                  · simp [hc]
                  · simp [hc]

theorem attrLoop_eq (r : SOuter ν) (st : XState ν) (attrs : List Attr) :
    attrLoop r st attrs = (match walkP r st.p attrs with
      | .ok p => .ok ⟨p, st.fwd ++ attrs.filter (fwdM r)⟩
      | .error m => .error m) := by
  induction attrs generalizing st with
  | nil => simp [attrLoop, walkP]
  | cons a rest ih =>
      simp only [attrLoop, walkP]
      rw [stepAttr_eq]
      cases hl : listed r a with
      | true =>
          have hf : fwdM r a = false := by simp [fwdM, hl]
          simp only [if_true, List.filter_cons, hf, Bool.false_eq_true, if_false]
          cases attrItems a with
          | items xs =>
              simp only []
              cases coreLoop r.fields st.p xs with
              | ok p => simp only []; rw [ih]
              | error m => rfl
          | err e => simp only []; rw [ih]
      | false =>
          simp only [Bool.false_eq_true, if_false]
          rw [ih]
          cases walkP r st.p rest with
          | error m => rfl
          | ok p =>
              cases hf : fwdM r a <;> simp [hf]

theorem walkP_none_listed (r : SOuter ν) (p : PState ν) (attrs : List Attr)
    (h : ∀ a ∈ attrs, listed r a = false) : walkP r p attrs = .ok p := by
  induction attrs with
  | nil => rfl
  | cons a rest ih =>
      simp only [walkP, h a List.mem_cons_self, Bool.false_eq_true, if_false]
      exact ih (fun b hb => h b (List.mem_cons_of_mem _ hb))

theorem walkP_filter (r : SOuter ν) (p : PState ν) (attrs : List Attr) :
    walkP r p attrs = walkP r p (attrs.filter (listed r)) := by
  induction attrs generalizing p with
  | nil => rfl
  | cons a rest ih =>
      cases hl : listed r a with
      | true =>
          simp only [List.filter_cons, hl, if_true, walkP]
          cases attrItems a with
          | items xs =>
              simp only []
              cases coreLoop r.fields p xs with
              | ok p' => exact ih p'
              | error m => rfl
          | err e => exact ih _
      | false =>
          simp only [List.filter_cons, hl, Bool.false_eq_true, if_false, walkP]
          exact ih p

theorem walkP_append (r : SOuter ν) (p : PState ν) (xs ys : List Attr) :
    walkP r p (xs ++ ys) = (match walkP r p xs with
      | .ok p' => walkP r p' ys
      | .error m => .error m) := by
  induction xs generalizing p with
  | nil => rfl
  | cons a rest ih =>
      simp only [List.cons_append, walkP]
      cases listed r a with
      | true =>
          simp only [if_true]
          cases attrItems a with
          | items xs =>
              simp only []
              cases coreLoop r.fields p xs with
              | ok p' => exact ih p'
              | error m => rfl
          | err e => exact ih _
      | false => simp only [Bool.false_eq_true, if_false]; exact ih p

theorem coreLoop_append (s : SStruct ν) (p : PState ν) (xs ys : List NestedMeta) :
    coreLoop s p (xs ++ ys) = (match coreLoop s p xs with
      | .ok p' => coreLoop s p' ys
      | .error m => .error m) := by
  induction xs generalizing p with
  | nil => rfl
  | cons x rest ih =>
      simp only [List.cons_append, coreLoop]
      cases stepItem s p x with
      | ok p' => exact ih p'
      | error m => rfl

theorem mergedItems_cons (r : SOuter ν) (a : Attr) (rest : List Attr) :
    mergedItems r (a :: rest) =
      (if listed r a then (itemsOf a).getD [] else []) ++ mergedItems r rest := by
  unfold mergedItems mergedItemsOf listed
  cases h : listedIn r.attrNames a <;> simp [h]

theorem mergedItems_append (r : SOuter ν) (xs ys : List Attr) :
    mergedItems r (xs ++ ys) = mergedItems r xs ++ mergedItems r ys := by
  simp [mergedItems, mergedItemsOf, List.filter_append, List.flatMap_append]

/-- on well-formed attributes the parse half of the walk is the item loop over the merged list -/
theorem walkP_wellFormed (r : SOuter ν) (p : PState ν) (attrs : List Attr) (h : WellFormed r attrs) :
    walkP r p attrs = coreLoop r.fields p (mergedItems r attrs) := by
  induction attrs generalizing p with
  | nil => rfl
  | cons a rest ih =>
      have hr : WellFormed r rest := fun b hb => h b (List.mem_cons_of_mem _ hb)
      rw [mergedItems_cons]
      cases hl : listed r a with
      | true =>
          have hi := h a List.mem_cons_self hl
          cases hx : itemsOf a with
          | none => rw [hx] at hi; cases hi
          | some xs =>
              simp only [walkP, hl, if_true, attrItems_eq, hx, Option.getD_some]
              rw [coreLoop_append]
              cases coreLoop r.fields p xs with
              | ok p' => exact ih p' hr
              | error m => rfl
      | false =>
          simp only [walkP, hl, Bool.false_eq_true, if_false, List.nil_append]
          exact ih p hr

theorem walkP_parseOnly (r : SOuter ν) (p : PState ν) (attrs : List Attr) :
    walkP (parseOnly r) p attrs = walkP r p attrs := by
  induction attrs generalizing p with
  | nil => rfl
  | cons a rest ih =>
      have h1 : listed (parseOnly r) a = listed r a := rfl
      have h2 : (parseOnly r).fields = r.fields := rfl
      simp only [walkP, h1, h2, ih]

/-- the extractor, split into its two halves -/
theorem extract_eq (r : SOuter ν) (attrs : List Attr) :
    extract r attrs = (match walkP r {} attrs with
      | .ok p => attrsValue r p (attrs.filter (fwdM r))
      | .error m => .error m) := by
  unfold extract
  by_cases h : (r.willParseAny || r.willFwdAny) = true
  · simp only [h, Bool.not_true, Bool.false_eq_true, if_false]
    rw [attrLoop_eq]
    show (match (match walkP r {} attrs with
      | .ok p => (Except.ok ⟨p, [] ++ attrs.filter (fwdM r)⟩ : Except String (XState ν))
      | .error m => Except.error m) with
      | .error m => Except.error m
      | .ok st => attrsValue r st.p st.fwd) = _
    cases walkP r {} attrs with
    | error m => rfl
    | ok p => simp only [List.nil_append]
  · have h' : (r.willParseAny || r.willFwdAny) = false := by
      cases hh : (r.willParseAny || r.willFwdAny) with
      | true => exact absurd hh h
      | false => rfl
    have hp : r.willParseAny = false := by cases hh : r.willParseAny <;> simp_all
    have hw : r.willFwdAny = false := by cases hh : r.willFwdAny <;> simp_all
    have hn : ∀ a ∈ attrs, listed r a = false := by
      intro a _
      rw [← listed_eq, hp]; rfl
    have hf : attrs.filter (fwdM r) = [] := by
      rw [List.filter_eq_nil_iff]
      intro a _
      simp [fwdM, hw]
    rw [walkP_none_listed r {} attrs hn, hf]
    simp only [h', Bool.not_false, if_true]

theorem fwdM_imp_not_listed (r : SOuter ν) (a : Attr) (h : fwdM r a = true) : listed r a = false := by
  cases hl : listed r a with
  | false => rfl
  | true => simp [fwdM, hl] at h

theorem fwdM_le_fwdSel (r : SOuter ν) (a : Attr) (h : fwdM r a = true) :
    r.attrsField.isSome = true ∧ fwdSel r.attrNames r.forward a = true := by
  have hl := fwdM_imp_not_listed r a h
  unfold fwdM at h
  simp only [hl, Bool.not_false, Bool.true_and, Bool.and_eq_true] at h
  obtain ⟨hw, hm⟩ := h
  unfold SOuter.willFwdAny at hw
  unfold fwdSel
  cases hf : r.forward with
  | none => rw [hf] at hw; cases hw
  | some f =>
      rw [hf] at hw hm
      simp only [Bool.and_eq_true] at hw
      refine ⟨hw.2, ?_⟩
      cases f with
      | all => simpa [listed] using hl
      | only ns => simpa using hm

/-- with an `attrs` field and no overlap on this attribute, the model forwards what the text selects -/
theorem fwdM_eq_fwdSel (r : SOuter ν) (a : Attr) (hA : r.attrsField.isSome = true)
    (hno : listed r a = true → fwdSel r.attrNames r.forward a = false) :
    fwdM r a = fwdSel r.attrNames r.forward a := by
  cases hs : fwdSel r.attrNames r.forward a with
  | false =>
      cases hm : fwdM r a with
      | false => rfl
      | true => have := (fwdM_le_fwdSel r a hm).2; rw [hs] at this; cases this
  | true =>
      have hl : listed r a = false := by
        cases hl : listed r a with
        | false => rfl
        | true => have := hno hl; rw [hs] at this; cases this
      unfold fwdSel at hs
      unfold fwdM SOuter.willFwdAny
      cases hf : r.forward with
      | none => rw [hf] at hs; cases hs
      | some f =>
          rw [hf] at hs
          cases f with
          | all => simp [hl, hA, FwdFilter.isEmpty]
          | only ns =>
              have hmem : a.path.toStr ∈ ns := by simpa using hs
              have hne : ns.isEmpty = false := by
                cases ns with
                | nil => cases hmem
                | cons x xs => rfl
              simp [hl, hA, FwdFilter.isEmpty, hne, hmem]

theorem attrsValue_forwarded (r : SOuter ν) (p : PState ν) (attrs : List Attr) (h : NoOverlap r attrs) :
    attrsValue r p (attrs.filter (fwdM r)) = attrsValue r p (forwardedSpec r attrs) := by
  cases hA : r.attrsField with
  | none => simp only [attrsValue, hA]
  | some mk =>
      have : attrs.filter (fwdM r) = forwardedSpec r attrs := by
        unfold forwardedSpec forwardedOf
        apply List.filter_congr
        intro a ha
        exact fwdM_eq_fwdSel r a (by simp [hA]) (h a ha)
      rw [this]

theorem filter_fwdM_unlisted (r : SOuter ν) (attrs : List Attr) :
    (attrs.filter (fun a => !listed r a)).filter (fwdM r) = attrs.filter (fwdM r) := by
  rw [List.filter_filter]
  apply List.filter_congr
  intro a _
  cases hm : fwdM r a with
  | false => rfl
  | true => simp [fwdM_imp_not_listed r a hm]

theorem filter_fwdM_listed (r : SOuter ν) (attrs : List Attr) :
    (attrs.filter (listed r)).filter (fwdM r) = [] := by
  rw [List.filter_filter, List.filter_eq_nil_iff]
  intro a _
  cases hm : fwdM r a with
  | false => simp
  | true => simp [fwdM_imp_not_listed r a hm]

theorem attrsValue_parseOnly (r : SOuter ν) (p : PState ν) (fwd : List Attr) :
    attrsValue (parseOnly r) p fwd = .ok (p, none) := rfl

/-! ## 3. Main theorems -/

/-! ### 3.1 Selection: *"reads exactly the attributes whose path is listed"* -/

/-- **Only listed attributes are read**: what is parsed (values and errors) is a function of the
    sub-list of listed attributes; every other attribute can be deleted, inserted, or have its body
    replaced by arbitrary tokens.  (That every listed attribute *is* read is `walk_positional`:
    each of its items is accounted for.) -/
theorem reads_only_listed (r : SOuter ν) (attrs : List Attr) :
    extract (parseOnly r) attrs = extract (parseOnly r) (attrs.filter (listed r)) := by
  rw [extract_eq, extract_eq, walkP_parseOnly, walkP_parseOnly, ← walkP_filter]
  cases walkP r {} attrs <;> rfl

/-- **Normal form.**  The result is a function of two sub-lists only: the listed attributes (in
    their order) and the others (in theirs).  No hypothesis: malformed bodies included. -/
theorem extract_normal_form (r : SOuter ν) (attrs : List Attr) :
    extract r attrs = extract r (attrs.filter (listed r) ++ attrs.filter (fun a => !listed r a)) := by
  rw [extract_eq, extract_eq]
  have hw : walkP r {} (attrs.filter (listed r) ++ attrs.filter (fun a => !listed r a)) = walkP r {} attrs := by
    rw [walkP_filter r {} (_ ++ _), List.filter_append, List.filter_filter, List.filter_filter]
    have h1 : attrs.filter (fun a => listed r a && listed r a) = attrs.filter (listed r) := by
      apply List.filter_congr; intro a _; simp
    have h2 : attrs.filter (fun a => listed r a && !listed r a) = [] := by
      rw [List.filter_eq_nil_iff]; intro a _; simp
    rw [h1, h2, List.append_nil, ← walkP_filter]
  have hf : (attrs.filter (listed r) ++ attrs.filter (fun a => !listed r a)).filter (fwdM r) = attrs.filter (fwdM r) := by
    rw [List.filter_append, filter_fwdM_listed, filter_fwdM_unlisted, List.nil_append]
  rw [hw, hf]

/-- **All interleavings.**  Two attribute lists with the same listed attributes in the same order
    and the same other attributes in the same order — however the two kinds are interleaved —
    give the identical result. -/
theorem interleaving_invariance (r : SOuter ν) (A B : List Attr)
    (hl : A.filter (listed r) = B.filter (listed r))
    (hn : A.filter (fun a => !listed r a) = B.filter (fun a => !listed r a)) :
    extract r A = extract r B := by
  rw [extract_normal_form r A, extract_normal_form r B, hl, hn]

/-! ### 3.2 Merging: *"several such attributes on one element are a single list"* -/

/-- **Splitting invariance.**  Any two ways of writing the same items, in the same order, over any
    number of listed attributes (under any of the listed names, bare and empty ones anywhere), with
    the same other attributes interleaved in any way, give the identical value or identical errors. -/
theorem splitting_invariance (r : SOuter ν) (A B : List Attr)
    (hA : WellFormed r A) (hB : WellFormed r B)
    (hitems : mergedItems r A = mergedItems r B)
    (hother : A.filter (fun a => !listed r a) = B.filter (fun a => !listed r a)) :
    extract r A = extract r B := by
  rw [extract_eq, extract_eq, walkP_wellFormed r {} A hA, walkP_wellFormed r {} B hB, hitems,
    ← filter_fwdM_unlisted r A, ← filter_fwdM_unlisted r B, hother]

/-- **Several attributes are one.**  The listed attributes of an element can be replaced by any
    single listed attribute `m` that holds all their items. -/
theorem several_are_one_list (r : SOuter ν) (attrs : List Attr) (m : Attr)
    (hwf : WellFormed r attrs) (hm : listed r m = true) (hmi : itemsOf m = some (mergedItems r attrs)) :
    extract r attrs = extract r (m :: attrs.filter (fun a => !listed r a)) := by
  apply splitting_invariance r _ _ hwf
  · intro a ha hl
    rcases List.mem_cons.mp ha with rfl | ha
    · simp [hmi]
    · have := (List.mem_filter.mp ha).2
      have hl' : listed r a = true := hl
      simp [hl'] at this
  · rw [mergedItems_cons, hm, if_pos rfl, hmi, Option.getD_some]
    have : mergedItems r (attrs.filter (fun a => !listed r a)) = [] := by
      unfold mergedItems mergedItemsOf
      have : (attrs.filter (fun a => !listed r a)).filter (listedIn r.attrNames) = [] := by
        rw [List.filter_filter, List.filter_eq_nil_iff]
        intro a _
        show ¬ ((listed r a && !listed r a) = true)
        simp
      rw [this]; rfl
    rw [this, List.append_nil]
  · have hm' : (!listed r m) = false := by simp [hm]
    simp only [List.filter_cons, hm', Bool.false_eq_true, if_false, List.filter_filter, Bool.and_self]

/-- **One list, stated with the struct parser's loop**: on well-formed attributes the extractor is
    the derived struct parser's item loop (the loop of C01 / C02) run once, from the initial state,
    over the merged list; the `attrs` field is built from exactly `forwardedSpec`. -/
theorem single_list_partial (r : SOuter ν) (attrs : List Attr) (hwf : WellFormed r attrs)
    (hno : NoOverlap r attrs) :
    extract r attrs = (match coreLoop r.fields {} (mergedItems r attrs) with
      | .ok p => attrsValue r p (forwardedSpec r attrs)
      | .error m => .error m) := by
  rw [extract_eq, walkP_wellFormed r {} attrs hwf]
  cases coreLoop r.fields {} (mergedItems r attrs) with
  | error m => rfl
  | ok p => exact attrsValue_forwarded r p attrs hno

/-- **Positional form.**  For a receiver whose converters return (`C02.WF`), after the walk over
    well-formed attributes: the local of every field holds what the merged list says positionally
    (`C02.specSlot`: first occurrence under its name, or every occurrence for `multiple`), the
    flatten buffer holds the unclaimed items of all listed attributes in order, the accumulator
    holds exactly the item mistakes of the merged list in order (`Spec.C02.loopMistakes`; duplicates
    are detected across attributes), and the `attrs` field is built from `forwardedSpec`. -/
theorem walk_positional_partial (r : SOuter ν) (hr : C02.WF r.fields) (attrs : List Attr)
    (hwf : WellFormed r attrs) (hno : NoOverlap r attrs) :
    ∃ p, extract r attrs = attrsValue r p (forwardedSpec r attrs)
      ∧ (∀ f ∈ r.fields.fields, p.slot f.ident = C02.specSlot r.fields (mergedItems r attrs) f)
      ∧ p.flat = buffered r.fields (mergedItems r attrs)
      ∧ p.errs = loopMistakes r.fields [] (mergedItems r attrs) := by
  obtain ⟨p, hp, hinv⟩ := C02.coreLoop_spec r.fields hr (mergedItems r attrs)
  refine ⟨p, ?_, hinv.slots, hinv.flat, hinv.errs⟩
  rw [single_list_partial r attrs hwf hno, hp]

/-- **Splitting one attribute anywhere** (no condition on the rest of the list, which may hold
    malformed attributes): a listed attribute holding `xs ++ ys` is two listed attributes — under
    any of the listed names — holding `xs` and `ys`. -/
theorem split_anywhere (r : SOuter ν) (a a1 a2 : Attr) (xs ys : List NestedMeta)
    (hl : listed r a = true) (hl1 : listed r a1 = true) (hl2 : listed r a2 = true)
    (hi : itemsOf a = some (xs ++ ys)) (hi1 : itemsOf a1 = some xs) (hi2 : itemsOf a2 = some ys)
    (pre post : List Attr) :
    extract r (pre ++ a :: post) = extract r (pre ++ a1 :: a2 :: post) := by
  have nf : ∀ b, listed r b = true → fwdM r b = false := by
    intro b hb; simp [fwdM, hb]
  rw [extract_eq, extract_eq, walkP_append, walkP_append]
  have hfl : (pre ++ a :: post).filter (fwdM r) = (pre ++ a1 :: a2 :: post).filter (fwdM r) := by
    simp [List.filter_append, nf a hl, nf a1 hl1, nf a2 hl2]
  rw [hfl]
  cases walkP r {} pre with
  | error m => rfl
  | ok p =>
      simp only [walkP, hl, hl1, hl2, if_true, attrItems_eq, hi, hi1, hi2]
      rw [coreLoop_append]
      cases coreLoop r.fields p xs with
      | error m => rfl
      | ok p' => rfl

/-! ### 3.3 Inertness: *"every other attribute, whatever its token content, has no effect"* -/

theorem extract_remove (r : SOuter ν) (a : Attr) (hp : ∀ p, walkP r p [a] = .ok p) (hf : fwdM r a = false)
    (pre post : List Attr) : extract r (pre ++ a :: post) = extract r (pre ++ post) := by
  rw [extract_eq, extract_eq, walkP_append, walkP_append]
  have hfl : (pre ++ a :: post).filter (fwdM r) = (pre ++ post).filter (fwdM r) := by
    simp [List.filter_append, hf]
  rw [hfl]
  cases walkP r {} pre with
  | error m => rfl
  | ok p =>
      have : walkP r p (a :: post) = walkP r p post := by
        have := walkP_append r p [a] post
        simp only [List.singleton_append, hp p] at this
        exact this
      simp only [this]

/-- **Every other attribute is inert**, at every position, whatever its body (the statement does not
    look at `a.body`, `a.toks`, `a.span`). -/
theorem other_attribute_inert (r : SOuter ν) (a : Attr) (h : Other r a) (pre post : List Attr) :
    extract r (pre ++ a :: post) = extract r (pre ++ post) := by
  apply extract_remove r a
  · intro p; simp only [walkP, h.1, Bool.false_eq_true, if_false]
  · cases hm : fwdM r a with
    | false => rfl
    | true =>
        obtain ⟨hA, hs⟩ := fwdM_le_fwdSel r a hm
        rw [h.2 hA] at hs; cases hs

/-- **… and so is a bare or empty listed attribute** (*"with empty or bare ones interspersed"*) -/
theorem bare_or_empty_inert (r : SOuter ν) (a : Attr) (hl : listed r a = true) (hi : itemsOf a = some [])
    (pre post : List Attr) : extract r (pre ++ a :: post) = extract r (pre ++ post) := by
  apply extract_remove r a
  · intro p; simp only [walkP, hl, if_true, attrItems_eq, hi, coreLoop]
  · simp [fwdM, hl]

/-! ### 3.4 Forwarding: *"hands its `attrs` field exactly the attributes selected by
    `forward_attrs` (all non-consumed ones when given bare), unmodified and in source order"* -/

/-- **Forwarding.**  The result is: what the receiver without an `attrs` field parses, together with
    the `attrs` field built from exactly `forwardedSpec` — a sub-list (`List.filter`) of the
    element's attributes, hence the same values in source order.  Forwarding never disturbs
    parsing. -/
theorem forwarding_partial (r : SOuter ν) (attrs : List Attr) (hno : NoOverlap r attrs) :
    extract r attrs = (match extract (parseOnly r) attrs with
      | .ok (p, _) => attrsValue r p (forwardedSpec r attrs)
      | .error m => .error m) := by
  rw [extract_eq, extract_eq, walkP_parseOnly]
  cases walkP r {} attrs with
  | error m => rfl
  | ok p => simp only [attrsValue_parseOnly]; exact attrsValue_forwarded r p attrs hno

/-- the `attrs` field function is applied to exactly the selected attributes -/
theorem attrs_field_gets_exactly_partial (r : SOuter ν) (attrs : List Attr) (mk : List Attr → Outcome ν)
    (hA : r.attrsField = some mk) (hno : NoOverlap r attrs) (p : PState ν) (v : ν)
    (h : extract r attrs = .ok (p, some v)) : mk (forwardedSpec r attrs) = .ok v := by
  rw [forwarding_partial r attrs hno] at h
  cases hx : extract (parseOnly r) attrs with
  | error m => rw [hx] at h; cases h
  | ok pv =>
      obtain ⟨p0, v0⟩ := pv
      rw [hx] at h
      simp only [attrsValue, hA] at h
      cases hmk : mk (forwardedSpec r attrs) with
      | ok x => rw [hmk] at h; simp only [Except.ok.injEq, Prod.mk.injEq, Option.some.injEq] at h; rw [h.2]
      | err e => rw [hmk] at h; simp at h
      | panic m => rw [hmk] at h; cases h

/-- bare `forward_attrs`: *"all non-consumed ones"* — never needs the side condition -/
theorem noOverlap_of_bare (r : SOuter ν) (h : r.forward = some .all ∨ r.forward = none) (attrs : List Attr) :
    NoOverlap r attrs := by
  intro a _ hl
  unfold fwdSel
  rcases h with h | h <;> simp [h, hl]

/-- a `forward_attrs(..)` list disjoint from the `attributes(..)` list never needs it either -/
theorem noOverlap_of_disjoint (r : SOuter ν) (ns : List String) (h : r.forward = some (.only ns))
    (hd : ∀ n ∈ ns, n ∉ r.attrNames) (attrs : List Attr) : NoOverlap r attrs := by
  intro a _ hl
  unfold fwdSel
  simp only [h]
  cases hc : ns.contains a.path.toStr with
  | false => rfl
  | true =>
      have h1 : a.path.toStr ∈ ns := by simpa using hc
      have h2 : a.path.toStr ∈ r.attrNames := by simpa [listedIn] using hl
      exact absurd h2 (hd _ h1)

/-! ### 3.5 The side condition is the weakest one -/

theorem filter_length_mono {α : Type} (p q : α → Bool) (l : List α) (hle : ∀ a ∈ l, p a = true → q a = true) :
    (l.filter p).length ≤ (l.filter q).length := by
  induction l with
  | nil => exact Nat.le_refl _
  | cons a rest ih =>
      have ih' := ih (fun b hb => hle b (List.mem_cons_of_mem _ hb))
      cases hp : p a with
      | false =>
          cases hq : q a with
          | false => simpa [List.filter_cons, hp, hq] using ih'
          | true => simp only [List.filter_cons, hp, hq, Bool.false_eq_true, if_false, if_true, List.length_cons]; omega
      | true =>
          have hq := hle a List.mem_cons_self hp
          simp only [List.filter_cons, hp, hq, if_true, List.length_cons]; omega

theorem filter_eq_of_le {α : Type} (p q : α → Bool) (l : List α) (hle : ∀ a ∈ l, p a = true → q a = true)
    (h : l.filter p = l.filter q) : ∀ a ∈ l, q a = true → p a = true := by
  induction l with
  | nil => intro a ha; cases ha
  | cons x rest ih =>
      have hle' : ∀ b ∈ rest, p b = true → q b = true := fun b hb => hle b (List.mem_cons_of_mem _ hb)
      cases hp : p x with
      | true =>
          have hq := hle x List.mem_cons_self hp
          simp only [List.filter_cons, hp, hq, if_true, List.cons.injEq, true_and] at h
          intro a ha hqa
          rcases List.mem_cons.mp ha with rfl | ha
          · exact hp
          · exact ih hle' h a ha hqa
      | false =>
          cases hq : q x with
          | false =>
              simp only [List.filter_cons, hp, hq, Bool.false_eq_true, if_false] at h
              intro a ha hqa
              rcases List.mem_cons.mp ha with rfl | ha
              · rw [hq] at hqa; cases hqa
              · exact ih hle' h a ha hqa
          | true =>
              simp only [List.filter_cons, hp, hq, Bool.false_eq_true, if_false, if_true] at h
              have h1 := filter_length_mono p q rest hle'
              have h2 := congrArg List.length h
              simp only [List.length_cons] at h2
              omega

/-- for a receiver with an `attrs` field, the model forwards exactly what the text selects **iff**
    no attribute of the element is both listed and named for forwarding -/
theorem forwards_exactly_iff_noOverlap (r : SOuter ν) (hA : r.attrsField.isSome = true) (attrs : List Attr) :
    attrs.filter (fwdM r) = forwardedSpec r attrs ↔ NoOverlap r attrs := by
  constructor
  · intro h a ha hl
    have := filter_eq_of_le (fwdM r) (fwdSel r.attrNames r.forward) attrs
      (fun b _ hb => (fwdM_le_fwdSel r b hb).2) h a ha
    cases hs : fwdSel r.attrNames r.forward a with
    | false => rfl
    | true =>
        have hm := this hs
        have hl' : listed r a = true := hl
        rw [fwdM_imp_not_listed r a hm] at hl'; cases hl'
  · intro h
    unfold forwardedSpec forwardedOf
    apply List.filter_congr
    intro a ha
    exact fwdM_eq_fwdSel r a hA (h a ha)

/-! ### 3.6 Positional form for *all* attribute lists (malformed listed attributes included) -/

/-- every mistake the walk reports, in order — positionally: an item of a listed attribute is judged
    against all items of the listed attributes before it (`Spec.C02.itemMistakes`, through
    `loopMistakes`), a listed attribute whose body is not an item list is answered with its one
    error and contributes no items, every other attribute contributes nothing -/
def walkMistakes (r : SOuter ν) : List NestedMeta → List Attr → List Err
  | _, [] => []
  | earlier, a :: rest =>
      if listed r a then
        match itemsOf a with
        | some xs => loopMistakes r.fields earlier xs ++ walkMistakes r (earlier ++ xs) rest
        | none => malformedErr a :: walkMistakes r earlier rest
      else walkMistakes r earlier rest

def addErrs (es : List Err) (p : PState ν) : PState ν := { p with errs := es ++ p.errs }

theorem push_addErrs (es : List Err) (p : PState ν) (e : Err) :
    (addErrs es p).push e = addErrs es (p.push e) := by
  simp [addErrs, PState.push, List.append_assoc]

theorem set_addErrs (es : List Err) (p : PState ν) (i : String) (s : Slot ν) :
    (addErrs es p).set i s = addErrs es (p.set i s) := rfl

/-- the item loop never reads the accumulator: errors already present are carried along -/
theorem stepItem_addErrs (r : SStruct ν) (es : List Err) (p : PState ν) (it : NestedMeta) :
    stepItem r (addErrs es p) it = (match stepItem r p it with
      | .ok q => .ok (addErrs es q)
      | .error m => .error m) := by
  cases it with
  | lit l => simp only [stepItem, push_addErrs]
  | item m =>
      simp only [stepItem]
      cases r.arm m.path'.toStr with
      | none =>
          simp only []
          split
          · rfl
          · split
            · rfl
            · simp only [push_addErrs]
      | some f =>
          have hs : (addErrs es p).slot f.ident = p.slot f.ident := rfl
          simp only [hs]
          split
          · cases f.conv m with
            | ok v => rfl
            | err e => simp only [set_addErrs, push_addErrs]
            | panic msg => rfl
          · split
            · cases f.conv m with
              | ok v => rfl
              | err e => simp only [set_addErrs, push_addErrs]
              | panic msg => rfl
            · simp only [push_addErrs]

theorem coreLoop_addErrs (r : SStruct ν) (es : List Err) (p : PState ν) (xs : List NestedMeta) :
    coreLoop r (addErrs es p) xs = (match coreLoop r p xs with
      | .ok q => .ok (addErrs es q)
      | .error m => .error m) := by
  induction xs generalizing p with
  | nil => rfl
  | cons x rest ih =>
      simp only [coreLoop]
      rw [stepItem_addErrs]
      cases stepItem r p x with
      | ok p' => exact ih p'
      | error m => rfl

/-- the invariant of the walk: locals and flatten buffer are what the items read so far say
    positionally; the accumulator holds the given errors -/
structure WInv (r : SOuter ν) (pre : List NestedMeta) (errs : List Err) (p : PState ν) : Prop where
  slots : ∀ f ∈ r.fields.fields, p.slot f.ident = C02.specSlot r.fields pre f
  flat : p.flat = buffered r.fields pre
  errs : p.errs = errs

theorem coreLoop_winv (r : SOuter ν) (hr : C02.WF r.fields) (pre xs : List NestedMeta) (errs : List Err)
    (p : PState ν) (h : WInv r pre errs p) :
    ∃ q, coreLoop r.fields p xs = .ok q ∧ WInv r (pre ++ xs) (errs ++ loopMistakes r.fields pre xs) q := by
  let pz : PState ν := { p with errs := [] }
  have hp : p = addErrs errs pz := by
    cases p with
    | mk sl fl er =>
        have : er = errs := h.errs
        simp [addErrs, pz, this]
  have inv0 : C02.Inv r.fields pre (addErrs (loopMistakes r.fields [] pre) pz) :=
    ⟨h.slots, h.flat, by simp [addErrs, pz]⟩
  obtain ⟨q0, hq0, hinv⟩ := C02.coreLoop_inv r.fields hr xs pre _ inv0
  rw [coreLoop_addErrs] at hq0
  cases hz : coreLoop r.fields pz xs with
  | error m => rw [hz] at hq0; cases hq0
  | ok qz =>
      rw [hz] at hq0
      have hq : q0 = addErrs (loopMistakes r.fields [] pre) qz := by
        simp only [Except.ok.injEq] at hq0; exact hq0.symm
      refine ⟨addErrs errs qz, ?_, ?_, ?_, ?_⟩
      · rw [hp, coreLoop_addErrs, hz]
      · intro f hf
        have := hinv.slots f hf
        rw [hq] at this
        exact this
      · have := hinv.flat
        rw [hq] at this
        exact this
      · have he := hinv.errs
        rw [hq, C02.loopMistakes_append] at he
        simp only [addErrs, List.nil_append] at he
        have := List.append_cancel_left he
        simp only [addErrs, this]

theorem walkP_winv (r : SOuter ν) (hr : C02.WF r.fields) (attrs : List Attr) :
    ∀ (pre : List NestedMeta) (errs : List Err) (p : PState ν), WInv r pre errs p →
      ∃ q, walkP r p attrs = .ok q ∧ WInv r (pre ++ mergedItems r attrs) (errs ++ walkMistakes r pre attrs) q := by
  induction attrs with
  | nil =>
      intro pre errs p h
      refine ⟨p, rfl, ?_⟩
      have : mergedItems r [] = [] := rfl
      simpa [this, walkMistakes] using h
  | cons a rest ih =>
      intro pre errs p h
      rw [mergedItems_cons]
      cases hl : listed r a with
      | false =>
          simp only [walkP, walkMistakes, hl, Bool.false_eq_true, if_false, List.nil_append]
          exact ih pre errs p h
      | true =>
          simp only [walkP, walkMistakes, hl, if_true, attrItems_eq]
          cases hx : itemsOf a with
          | some xs =>
              simp only [Option.getD_some]
              obtain ⟨q1, hq1, h1⟩ := coreLoop_winv r hr pre xs errs p h
              rw [hq1]
              simp only []
              obtain ⟨q2, hq2, h2⟩ := ih (pre ++ xs) _ q1 h1
              refine ⟨q2, hq2, ?_⟩
              simpa [List.append_assoc] using h2
          | none =>
              simp only [Option.getD_none, List.nil_append]
              have h1 : WInv r pre (errs ++ [malformedErr a]) (p.push (malformedErr a)) :=
                ⟨h.slots, h.flat, by simp [PState.push, h.errs]⟩
              obtain ⟨q2, hq2, h2⟩ := ih pre _ _ h1
              refine ⟨q2, hq2, ?_⟩
              simpa [List.append_assoc] using h2

theorem winv_init (r : SOuter ν) : WInv r [] [] ({} : PState ν) := by
  have := C02.inv_init r.fields
  exact ⟨this.slots, this.flat, rfl⟩

/-- **Positional form, all attribute lists.**  After the walk over *any* attribute list: locals and
    flatten buffer are the positional reading of the merged items, and the accumulator holds exactly
    `walkMistakes`.  Every item of every listed attribute is accounted for; nothing else is. -/
theorem walk_positional_general_partial (r : SOuter ν) (hr : C02.WF r.fields) (attrs : List Attr)
    (hno : NoOverlap r attrs) :
    ∃ p, extract r attrs = attrsValue r p (forwardedSpec r attrs)
      ∧ (∀ f ∈ r.fields.fields, p.slot f.ident = C02.specSlot r.fields (mergedItems r attrs) f)
      ∧ p.flat = buffered r.fields (mergedItems r attrs)
      ∧ p.errs = walkMistakes r [] attrs := by
  obtain ⟨p, hp, hinv⟩ := walkP_winv r hr attrs [] [] {} (winv_init r)
  refine ⟨p, ?_, ?_, ?_, ?_⟩
  · rw [extract_eq, hp]; exact attrsValue_forwarded r p attrs hno
  · simpa using hinv.slots
  · simpa using hinv.flat
  · simpa using hinv.errs

/-- on well-formed attributes the mistakes are those of the merged list -/
theorem walkMistakes_wellFormed (r : SOuter ν) (attrs : List Attr) (h : WellFormed r attrs) (pre : List NestedMeta) :
    walkMistakes r pre attrs = loopMistakes r.fields pre (mergedItems r attrs) := by
  induction attrs generalizing pre with
  | nil => rfl
  | cons a rest ih =>
      have hr : WellFormed r rest := fun b hb => h b (List.mem_cons_of_mem _ hb)
      rw [mergedItems_cons]
      cases hl : listed r a with
      | false => simp only [walkMistakes, hl, Bool.false_eq_true, if_false, List.nil_append]; exact ih hr pre
      | true =>
          have hi := h a List.mem_cons_self hl
          cases hx : itemsOf a with
          | none => rw [hx] at hi; cases hi
          | some xs =>
              simp only [walkMistakes, hl, if_true, hx, Option.getD_some]
              rw [C02.loopMistakes_append, ih hr]

/-- a listed attribute whose body is not an item list is read: it is answered with its one error -/
theorem malformed_listed_reports (r : SOuter ν) (a : Attr) (hl : listed r a = true) (hi : itemsOf a = none)
    (pre : List Attr) :
    extract (parseOnly r) (pre ++ [a]) = (match extract (parseOnly r) pre with
      | .ok (p, _) => .ok (p.push (malformedErr a), none)
      | .error m => .error m) := by
  rw [extract_eq, extract_eq, walkP_parseOnly, walkP_parseOnly, walkP_append]
  cases walkP r {} pre with
  | error m => rfl
  | ok p => simp only [walkP, hl, if_true, attrItems_eq, hi, attrsValue_parseOnly]

/-! ## 4. The whole receiver (`Env.runOuter`): attributes matter only through the extractor -/

/-- the element with its attribute list replaced -/
def setAttrs : Elem → List Attr → Elem
  | .deriveInput d, as => .deriveInput { d with attrs := as }
  | .field f, as => .field { f with attrs := as }
  | .variant v, as => .variant { v with attrs := as }
  | .typeParam t, as => .typeParam { t with attrs := as }
  | .attrs _, as => .attrs as

theorem setAttrs_self (el : Elem) : setAttrs el el.attrsOf = el := by
  cases el <;> rfl

theorem attrsOf_setAttrs (el : Elem) (as : List Attr) : (setAttrs el as).attrsOf = as := by
  cases el <;> rfl

/-- a receiver that is not a newtype looks at the element's attributes through `extract` only -/
theorem runOuter_congr (env : Env.T) (run conv : String → Elem → Outcome Val) (r : ROuter) (el : Elem)
    (A B : List Attr) (hnt : ∀ f, r.base.data ≠ .struct .tuple [f])
    (h : ∀ (fields : SStruct Val) (af : Option (List Attr → Outcome Val)),
      extract ⟨fields, r.attrNames, r.forward, af⟩ A = extract ⟨fields, r.attrNames, r.forward, af⟩ B) :
    Env.runOuter env run conv r (setAttrs el A) = Env.runOuter env run conv r (setAttrs el B) := by
  unfold Env.runOuter
  split
  · rename_i f hd; exact absurd hd (hnt f)
  · cases ht : r.trait_ <;> cases el <;> simp only [setAttrs, Elem.attrsOf, h, earlyParts, genericsVal]
  · rfl

/-- **Splitting invariance, end to end**: the whole result of a derived element-level receiver
    (value or errors, all magic fields included) is the same for any two ways of writing the same
    items over listed attributes with the same other attributes interleaved. -/
theorem runOuter_splitting_invariance (env : Env.T) (run conv : String → Elem → Outcome Val) (r : ROuter)
    (el : Elem) (A B : List Attr) (hnt : ∀ f, r.base.data ≠ .struct .tuple [f])
    (hA : WellFormedFor r.attrNames A) (hB : WellFormedFor r.attrNames B)
    (hitems : mergedItemsOf r.attrNames A = mergedItemsOf r.attrNames B)
    (hother : A.filter (fun a => !listedIn r.attrNames a) = B.filter (fun a => !listedIn r.attrNames a)) :
    Env.runOuter env run conv r (setAttrs el A) = Env.runOuter env run conv r (setAttrs el B) :=
  runOuter_congr env run conv r el A B hnt
    (fun fields af => splitting_invariance ⟨fields, r.attrNames, r.forward, af⟩ A B hA hB hitems hother)

/-- **Inertness, end to end**: an attribute that is neither listed nor selected for forwarding has
    no effect on the whole result, at any position, whatever its body. -/
theorem runOuter_other_inert (env : Env.T) (run conv : String → Elem → Outcome Val) (r : ROuter)
    (el : Elem) (a : Attr) (pre post : List Attr) (hnt : ∀ f, r.base.data ≠ .struct .tuple [f])
    (hl : listedIn r.attrNames a = false) (hf : fwdSel r.attrNames r.forward a = false) :
    Env.runOuter env run conv r (setAttrs el (pre ++ a :: post)) = Env.runOuter env run conv r (setAttrs el (pre ++ post)) :=
  runOuter_congr env run conv r el _ _ hnt
    (fun fields af => other_attribute_inert ⟨fields, r.attrNames, r.forward, af⟩ a ⟨hl, fun _ => hf⟩ pre post)

/-- **Interleavings, end to end** (malformed bodies included) -/
theorem runOuter_interleaving_invariance (env : Env.T) (run conv : String → Elem → Outcome Val) (r : ROuter)
    (el : Elem) (A B : List Attr) (hnt : ∀ f, r.base.data ≠ .struct .tuple [f])
    (hl : A.filter (listedIn r.attrNames) = B.filter (listedIn r.attrNames))
    (hn : A.filter (fun a => !listedIn r.attrNames a) = B.filter (fun a => !listedIn r.attrNames a)) :
    Env.runOuter env run conv r (setAttrs el A) = Env.runOuter env run conv r (setAttrs el B) :=
  runOuter_congr env run conv r el A B hnt
    (fun fields af => interleaving_invariance ⟨fields, r.attrNames, r.forward, af⟩ A B hl hn)

/-! ## 5. Discrepancies between the property text and the model -/

private def mkPath (name : String) : Path :=
  { global := false, segs := [name], plain := true, toks := name, span := ⟨0, 0⟩ }
private def word (name : String) : NestedMeta := .item (.path (mkPath name))
/-- `#[name(items)]` -/
private def mkAttr (name : String) (items : List NestedMeta) (toks : String) : Attr :=
  { path := mkPath name, body := .list (mkPath name) items none none "" ⟨0, 0⟩, toks := toks, span := ⟨0, 0⟩ }
/-- `#[name]` -/
private def bareAttr (name : String) : Attr :=
  { path := mkPath name, body := .path (mkPath name), toks := "#[" ++ name ++ "]", span := ⟨0, 0⟩ }
/-- `#[name = "x"]` -/
private def nvAttr (name : String) : Attr :=
  { path := mkPath name,
    body := .nameValue (mkPath name) (.lit ⟨.str "x", "\"x\"", ⟨0, 0⟩⟩) (name ++ " = \"x\"") ⟨0, 0⟩,
    toks := "#[" ++ name ++ " = \"x\"]", span := ⟨0, 0⟩ }
/-- `#[name(a = )]`: tokens that are not a list of items -/
private def badAttr (name : String) : Attr :=
  { path := mkPath name, body := .list (mkPath name) [] (some ("expected expression", ⟨0, 0⟩)) none "" ⟨0, 0⟩,
    toks := "#[" ++ name ++ "(a = )]", span := ⟨0, 0⟩ }

/-- a struct receiver that ignores unknown items; the observed value is the printed attributes -/
private def noFields : SStruct (List String) :=
  { fields := [], allowUnknown := true, containerDefault := none, build := fun _ => [], mkList := fun _ => [],
    post := .ok, score := fun _ _ => 0, thr := 0 }

/-- `#[darling(attributes(my), forward_attrs(my, doc))] struct R { attrs: Vec<syn::Attribute>, .. }` -/
private def rOverlap : SOuter (List String) :=
  { fields := noFields, attrNames := ["my"], forward := some (.only ["my", "doc"]),
    attrsField := some (fun as => .ok (as.map (·.toks))) }

private def elemOverlap : List Attr := [mkAttr "my" [word "a"] "#[my(a)]", nvAttr "doc", bareAttr "other"]

/-- **D1 (overlap).**  By the text the `attrs` field holds *"exactly the attributes selected by
    `forward_attrs`"* — here `#[my(a)]` and `#[doc = "x"]` … -/
example : (forwardedSpec rOverlap elemOverlap).map (·.toks) = ["#[my(a)]", "#[doc = \"x\"]"] := by decide

/-- … the model hands over `#[doc = "x"]` only: a name that is also listed in `attributes(..)` is
    consumed, not forwarded (first match arm wins). -/
theorem overlap_discrepancy :
    (extract rOverlap elemOverlap).toOption.map (·.2) = some (some ["#[doc = \"x\"]"]) := by decide

/-- the side condition of the `_partial` theorems is what fails on it -/
example : ¬ NoOverlap rOverlap elemOverlap := by
  intro h
  have := h (mkAttr "my" [word "a"] "#[my(a)]") (by simp [elemOverlap]) (by decide)
  revert this; decide

/-- **D2 (newtype receivers).**  A receiver declared as a newtype (`struct W(Inner);`) delegates to
    the inner type's own impl: its own `attributes(..)` and `forward_attrs` declarations are never
    looked at, so it does *not* read *"exactly the attributes whose path is listed in its
    `attributes(...)` declaration"*. -/
theorem newtype_ignores_its_declaration (env : Env.T) (run conv : String → Elem → Outcome Val) (r : ROuter)
    (f : RField) (hd : r.base.data = .struct .tuple [f]) (names : List String) (fw : Option FwdFilter)
    (el : Elem) :
    Env.runOuter env run conv r el = Env.runOuter env run conv { r with attrNames := names, forward := fw } el := by
  unfold Env.runOuter
  simp only [hd]

/-- in particular, for a newtype the conclusion of `runOuter_other_inert` has no reason to hold:
    once the receiver's own `supports(..)` verdict (a function of the element's body shape only,
    `FromDeriveInput` only) has passed, the result is whatever the inner receiver (`run inner`)
    makes of the element, e.g. of an attribute listed by the inner type only -/
theorem newtype_delegates (env : Env.T) (run conv : String → Elem → Outcome Val) (r : ROuter) (f : RField)
    (inner : String) (hd : r.base.data = .struct .tuple [f]) (hty : f.ty = .recv inner) (el : Elem) :
    Env.runOuter env run conv r el =
      (match (match r.trait_, el, r.supports with
          | .fromDeriveInput, .deriveInput d, some diss => diss.validateBody d.body.shape
          | _, _, _ => (.ok () : Outcome Unit)) with
       | .err e => .err e
       | .panic m => .panic m
       | .ok () => (run inner el).map (fun v => .record r.base.ident [("0", v)])) := by
  unfold Env.runOuter
  simp only [hd, hty]
  cases r.trait_ <;> cases el <;> cases r.supports <;> rfl

/-- without a `supports(..)` declaration the delegation is unconditional -/
theorem newtype_delegates_of_no_supports (env : Env.T) (run conv : String → Elem → Outcome Val) (r : ROuter)
    (f : RField) (inner : String) (hd : r.base.data = .struct .tuple [f]) (hty : f.ty = .recv inner)
    (hs : r.supports = none) (el : Elem) :
    Env.runOuter env run conv r el = (run inner el).map (fun v => .record r.base.ident [("0", v)]) := by
  rw [newtype_delegates env run conv r f inner hd hty el, hs]
  cases r.trait_ <;> cases el <;> rfl

/-! ## 6. Non-vacuity: every hypothesis of every main theorem is met by concrete data -/

/-- `#[darling(attributes(my, conf), forward_attrs)] struct R { attrs: .. }` -/
private def rBare : SOuter (List String) :=
  { fields := noFields, attrNames := ["my", "conf"], forward := some .all,
    attrsField := some (fun as => .ok (as.map (·.toks))) }
/-- `#[darling(attributes(my), forward_attrs(doc))]` -/
private def rList : SOuter (List String) :=
  { fields := noFields, attrNames := ["my"], forward := some (.only ["doc"]),
    attrsField := some (fun as => .ok (as.map (·.toks))) }

private def A1 : List Attr :=
  [mkAttr "my" [word "a", word "b"] "#[my(a, b)]", nvAttr "doc", mkAttr "conf" [word "c"] "#[conf(c)]"]
private def B1 : List Attr :=
  [bareAttr "my", mkAttr "conf" [word "a"] "#[conf(a)]", nvAttr "doc", mkAttr "my" [] "#[my()]",
   mkAttr "my" [word "b", word "c"] "#[my(b, c)]"]
private def M1 : Attr := mkAttr "conf" [word "a", word "b", word "c"] "#[conf(a, b, c)]"

private theorem wfA1 : WellFormed rBare A1 := by
  intro a ha hl
  simp only [A1, List.mem_cons, List.not_mem_nil, or_false] at ha
  rcases ha with rfl | rfl | rfl <;> first | rfl | (revert hl; decide)
private theorem wfB1 : WellFormed rBare B1 := by
  intro a ha hl
  simp only [B1, List.mem_cons, List.not_mem_nil, or_false] at ha
  rcases ha with rfl | rfl | rfl | rfl | rfl <;> first | rfl | (revert hl; decide)

/-- `splitting_invariance`: two genuinely different partitions (different names, a bare and an
    empty attribute, the foreign attribute at a different place) satisfy all four hypotheses -/
example : WellFormed rBare A1 ∧ WellFormed rBare B1 ∧ mergedItems rBare A1 = mergedItems rBare B1
    ∧ A1.filter (fun a => !listed rBare a) = B1.filter (fun a => !listed rBare a) ∧ A1.length ≠ B1.length :=
  ⟨wfA1, wfB1, by rfl, by rfl, by decide⟩

/-- `interleaving_invariance`: same listed sub-list, same others, different interleaving -/
example : ([nvAttr "doc", bareAttr "my", badAttr "conf"] : List Attr).filter (listed rBare)
      = ([bareAttr "my", badAttr "conf", nvAttr "doc"] : List Attr).filter (listed rBare)
    ∧ ([nvAttr "doc", bareAttr "my", badAttr "conf"] : List Attr).filter (fun a => !listed rBare a)
      = ([bareAttr "my", badAttr "conf", nvAttr "doc"] : List Attr).filter (fun a => !listed rBare a) :=
  ⟨by rfl, by rfl⟩

/-- `several_are_one_list` -/
example : WellFormed rBare A1 ∧ listed rBare M1 = true ∧ itemsOf M1 = some (mergedItems rBare A1) :=
  ⟨wfA1, by decide, by rfl⟩

/-- `WellFormed` is a real restriction: a listed name-value attribute or unparseable body fails it -/
example : ¬ WellFormed rBare [nvAttr "my"] := by
  intro h; have := h (nvAttr "my") (by simp) (by decide); revert this; decide
example : ¬ WellFormed rBare [badAttr "conf"] := by
  intro h; have := h (badAttr "conf") (by simp) (by decide); revert this; decide

/-- `single_list_partial`, `walk_positional_partial`, `forwarding_partial`: `NoOverlap` holds for
    the bare form and for a disjoint list, on lists that do contain forwarded attributes -/
example : NoOverlap rBare A1 ∧ (forwardedSpec rBare A1).map (·.toks) = ["#[doc = \"x\"]"] :=
  ⟨noOverlap_of_bare rBare (Or.inl rfl) A1, by decide⟩
example : NoOverlap rList A1 ∧ (forwardedSpec rList A1).map (·.toks) = ["#[doc = \"x\"]"] :=
  ⟨noOverlap_of_disjoint rList ["doc"] rfl (by decide) A1, by decide⟩

/-- a receiver with a real field meeting `C02.WF` (the hypothesis of `walk_positional_partial`) -/
private def oneField : SStruct (List String) :=
  { noFields with
    fields := [{ ident := "a", name := "a", conv := fun _ => .ok ["a!"], fromNone := none,
                 fromList := fun _ => .ok [], dflt := none, skip := false, multiple := false, flatten := false }],
    allowUnknown := false }
example : C02.WF oneField := by
  refine ⟨?_, ?_, ?_⟩
  · intro f hf g hg _
    simp only [oneField, List.mem_cons, List.not_mem_nil, or_false] at hf hg
    rw [hf, hg]
  · intro f hf m msg
    simp only [oneField, List.mem_cons, List.not_mem_nil, or_false] at hf
    rw [hf]; intro h; cases h
  · intro f hf items msg
    simp only [oneField, List.mem_cons, List.not_mem_nil, or_false] at hf
    rw [hf]; intro h; cases h

/-- `split_anywhere` -/
example : listed rBare (mkAttr "my" [word "a", word "b"] "") = true ∧ listed rBare (mkAttr "conf" [word "a"] "") = true
    ∧ listed rBare (mkAttr "my" [word "b"] "") = true
    ∧ itemsOf (mkAttr "my" [word "a", word "b"] "") = some ([word "a"] ++ [word "b"])
    ∧ itemsOf (mkAttr "conf" [word "a"] "") = some [word "a"] ∧ itemsOf (mkAttr "my" [word "b"] "") = some [word "b"] :=
  ⟨by decide, by decide, by decide, rfl, rfl, rfl⟩

/-- `other_attribute_inert`: with a `forward_attrs(..)` list, an attribute not named in it … -/
example : Other rList (badAttr "cfg") := ⟨by decide, fun _ => by decide⟩
/-- … and with bare `forward_attrs` but no `attrs` field, every unlisted attribute -/
example : Other (parseOnly rBare) (badAttr "cfg") := ⟨by decide, fun h => by cases h⟩
/-- with bare `forward_attrs` *and* an `attrs` field no unlisted attribute is "other": it is forwarded -/
example : ¬ Other rBare (badAttr "cfg") := by
  intro h; have := h.2 rfl; revert this; decide

/-- `bare_or_empty_inert` -/
example : listed rBare (bareAttr "my") = true ∧ itemsOf (bareAttr "my") = some []
    ∧ listed rBare (mkAttr "conf" [] "") = true ∧ itemsOf (mkAttr "conf" [] "") = some [] :=
  ⟨by decide, rfl, by decide, rfl⟩

/-- `attrs_field_gets_exactly_partial`: the extractor does return `.ok (_, some v)` -/
example : (extract rList A1).toOption.map (·.2) = some (some ["#[doc = \"x\"]"]) := by decide

/-- `forwards_exactly_iff_noOverlap`: `attrsField.isSome` -/
example : rOverlap.attrsField.isSome = true := rfl

/-- `runOuter_*`: a receiver description that is not a newtype -/
private def rDesc : ROuter :=
  { trait_ := .fromField,
    base := { ident := "R", data := .struct .named [], dflt := none, post := none, allowUnknown := false },
    attrNames := ["my"], forward := none, attrsField := none, dataField := none, magic := [],
    fromIdent := false, supports := none, vsupports := none }
example : ∀ f, rDesc.base.data ≠ .struct .tuple [f] := by
  intro f h; simp [rDesc] at h

end C08
