import Darling.Props.C07
/-
  C07 (1) — every built-in conversion of the modelled type universe returns: NP for each
  syntax-valued implementor and the probe, then induction over `Ty` for `hooksOf`.
  The syn grammar parsers / oracles are arbitrary functions throughout.
-/
open Scalars Wrappers SynTypes

namespace C07
variable {α : Type}

/-- closes goals `(_ : Outcome _).Returns` built from constructors, `map`, `mapErr` and matches -/
syntax "returns_auto" : tactic
macro_rules
  | `(tactic| returns_auto) => `(tactic| first
      | exact Outcome.returns_ok _
      | exact Outcome.returns_err _
      | (apply Outcome.Returns.mapErr; returns_auto)
      | (apply Outcome.Returns.map; returns_auto)
      | (split <;> returns_auto))

/-! ### shared string-parsed conversions -/

theorem parsedFromValue_returns (parse : String → Option String) (tok : String → α) (l : Lit) :
    (parsedFromValue parse tok l).Returns := by
  unfold parsedFromValue; returns_auto

theorem parsedFromString_returns (parse : String → Option String) (tok : String → α) (s : String) :
    (parsedFromString parse tok s).Returns := by
  unfold parsedFromString; returns_auto

/-! ### syn::Expr, syn::Path, syn::Ident, IdentString -/

theorem exprFromExpr_returns (parse : String → Option String) (tok : String → α) :
    (e : Expr) → (exprFromExpr parse tok e).Returns
  | .lit l => by
      simp only [exprFromExpr]; split
      · exact parsedFromValue_returns parse tok l
      · exact Outcome.returns_ok _
  | .group g _ => by simp only [exprFromExpr]; exact exprFromExpr_returns parse tok g
  | .path _ _ => by simp only [exprFromExpr]; exact Outcome.returns_ok _
  | .qpath _ _ _ => by simp only [exprFromExpr]; exact Outcome.returns_ok _
  | .array _ _ _ => by simp only [exprFromExpr]; exact Outcome.returns_ok _
  | .other _ _ _ => by simp only [exprFromExpr]; exact Outcome.returns_ok _

theorem expr_np (parse : String → Option String) (tok : String → α) : (exprHooks parse tok).NP := by
  constructor <;> intro f hf <;> simp [exprHooks] at hf
  · subst hf; exact parsedFromValue_returns parse tok
  · subst hf; exact exprFromExpr_returns parse tok
  · subst hf; exact parsedFromString_returns parse tok

theorem pathFromExpr_returns (parse : String → Option String) (tok : String → α) :
    (e : Expr) → (pathFromExpr parse tok e).Returns
  | .lit l => by simp only [pathFromExpr]; exact parsedFromValue_returns parse tok l
  | .group g _ => by simp only [pathFromExpr]; exact pathFromExpr_returns parse tok g
  | .path _ _ => by simp only [pathFromExpr]; exact Outcome.returns_ok _
  | .qpath _ _ _ => by simp only [pathFromExpr]; exact Outcome.returns_err _
  | .array _ _ _ => by simp only [pathFromExpr]; exact Outcome.returns_err _
  | .other _ _ _ => by simp only [pathFromExpr]; exact Outcome.returns_err _

theorem path_np (parse : String → Option String) (tok : String → α) : (pathHooks parse tok).NP := by
  constructor <;> intro f hf <;> simp [pathHooks] at hf
  · subst hf; exact parsedFromValue_returns parse tok
  · subst hf; exact pathFromExpr_returns parse tok
  · subst hf; exact parsedFromString_returns parse tok

theorem identFromExpr_returns (parse : String → Option String) (tok : String → α) :
    (e : Expr) → (identFromExpr parse tok e).Returns
  | .lit l => by simp only [identFromExpr]; exact parsedFromValue_returns parse tok l
  | .group g _ => by simp only [identFromExpr]; exact identFromExpr_returns parse tok g
  | .path _ _ => by simp only [identFromExpr]; returns_auto
  | .qpath _ _ _ => by simp only [identFromExpr]; exact Outcome.returns_err _
  | .array _ _ _ => by simp only [identFromExpr]; exact Outcome.returns_err _
  | .other _ _ _ => by simp only [identFromExpr]; exact Outcome.returns_err _

theorem ident_np (parse : String → Option String) (tok : String → α) : (identHooks parse tok).NP := by
  constructor <;> intro f hf <;> simp [identHooks] at hf
  · subst hf; exact parsedFromValue_returns parse tok
  · subst hf; exact identFromExpr_returns parse tok
  · subst hf; exact parsedFromString_returns parse tok

theorem identString_np (parse : String → Option String) (tok : String → α) :
    (identStringHooks parse tok).NP := by
  constructor <;> intro f hf <;> simp [identStringHooks] at hf
  subst hf; intro m; exact (ident_np parse tok).fromMeta m

/-! ### `from_syn_expr_type!`, `from_syn_parse!`, where-predicates, RenameRule, Punctuated -/

theorem synExprFromExpr_returns (v : ExprVariant) (parse : String → Option String) (tok : String → α) :
    (e : Expr) → (synExprFromExpr v parse tok e).Returns
  | .lit l => by simp only [synExprFromExpr]; exact parsedFromValue_returns parse tok l
  | .group g _ => by simp only [synExprFromExpr]; exact synExprFromExpr_returns v parse tok g
  | .path _ _ => by simp only [synExprFromExpr]; returns_auto
  | .qpath _ _ _ => by simp only [synExprFromExpr]; returns_auto
  | .array _ _ _ => by simp only [synExprFromExpr]; returns_auto
  | .other _ _ _ => by simp only [synExprFromExpr]; returns_auto

theorem synExpr_np (v : ExprVariant) (parse : String → Option String) (tok : String → α) :
    (synExprHooks v parse tok).NP := by
  constructor <;> intro f hf <;> simp [synExprHooks] at hf
  · subst hf; exact parsedFromValue_returns parse tok
  · subst hf; exact synExprFromExpr_returns v parse tok

theorem synParse_np (parse : String → Option String) (tok : String → α) : (synParseHooks parse tok).NP := by
  constructor <;> intro f hf <;> simp [synParseHooks] at hf
  · subst hf; exact parsedFromValue_returns parse tok
  · subst hf; exact parsedFromString_returns parse tok

theorem wherePreds_np (parsePreds : String → Option String) (tok : String → α) :
    (wherePredsHooks parsePreds tok).NP := by
  constructor <;> intro f hf <;> simp [wherePredsHooks] at hf
  · subst hf; intro l; simp only []; returns_auto
  · subst hf; intro s; exact parsedFromString_returns parsePreds tok _

theorem renameRule_np (known : List String) (mk : String → α) : (renameRuleHooks known mk).NP := by
  constructor <;> intro f hf <;> simp [renameRuleHooks] at hf
  subst hf; intro s; simp only []; returns_auto

theorem punctuated_np (parse : String → Option String) (tok : String → α) : (punctuatedHooks parse tok).NP := by
  constructor <;> intro f hf <;> simp [punctuatedHooks] at hf
  subst hf; exact parsedFromValue_returns parse tok

/-! ### literals -/

theorem lit_np (tok : String → α) : (litHooks tok).NP := by
  constructor <;> intro f hf <;> simp [litHooks] at hf
  subst hf; intro l; exact Outcome.returns_ok _

theorem litKindFromValue_returns (k : LitKind) (tok : String → α) (l : Lit) :
    (litKindFromValue k tok l).Returns := by
  unfold litKindFromValue; returns_auto

theorem litKind_np (k : LitKind) (tok : String → α) : (litKindHooks k tok).NP := by
  constructor <;> intro f hf <;> simp [litKindHooks] at hf
  subst hf; exact litKindFromValue_returns k tok

/-- `collect::<Result<Vec<_>>>()` returns when the element conversion does -/
theorem collectFirstErr_returns {β γ : Type} (f : β → Outcome γ) (hf : ∀ x, (f x).Returns) :
    (xs : List β) → (collectFirstErr f xs).Returns
  | [] => by simp only [collectFirstErr]; exact Outcome.returns_ok _
  | x :: xs => by
      simp only [collectFirstErr]
      have hx := hf x
      cases h : f x with
      | ok v => exact (collectFirstErr_returns f hf xs).map _
      | err e => exact Outcome.returns_err _
      | panic m => exact absurd h (hx m)

theorem vecLitFromExpr_returns (k : LitKind) (parseArr : String → Option Expr) (tok : String → α)
    (injL : List α → α) : (e : Expr) → (vecLitFromExpr k parseArr tok injL e).Returns
  | .array es _ _ => by
      simp only [vecLitFromExpr]
      exact (collectFirstErr_returns _ (fun e => (litKind_np k tok).fromExpr e) es).map _
  | .lit l => by
      simp only [vecLitFromExpr]
      split
      · split
        · exact (collectFirstErr_returns _ (fun e => (litKind_np k tok).fromExpr e) _).map _
        · exact Outcome.returns_err _
      · exact Outcome.returns_err _
  | .group g _ => by simp only [vecLitFromExpr]; exact vecLitFromExpr_returns k parseArr tok injL g
  | .path _ _ => by simp only [vecLitFromExpr]; exact Outcome.returns_err _
  | .qpath _ _ _ => by simp only [vecLitFromExpr]; exact Outcome.returns_err _
  | .other _ _ _ => by simp only [vecLitFromExpr]; exact Outcome.returns_err _

theorem vecLit_np (k : LitKind) (parseArr : String → Option Expr) (tok : String → α) (injL : List α → α) :
    (vecLitHooks k parseArr tok injL).NP := by
  constructor <;> intro f hf <;> simp [vecLitHooks] at hf
  · subst hf; intro items
    exact (collectFirstErr_returns _ (fun n => (litKind_np k tok).fromNestedMeta n) items).map _
  · subst hf; intro l; exact vecLitFromExpr_returns k parseArr tok injL (.lit l)
  · subst hf; exact vecLitFromExpr_returns k parseArr tok injL

theorem numFromValue_returns (sp : IntSpec) (inj : Int → α) (l : Lit) : (numFromValue sp inj l).Returns :=
  (num_np sp inj).value _ rfl l

theorem numElem_returns (sp : IntSpec) (inj : Int → α) (e : Expr) : (numElem sp inj e).Returns := by
  unfold numElem
  split
  · exact numFromValue_returns sp inj _
  · exact Outcome.returns_err _

theorem numArrayFromExpr_returns (sp : IntSpec) (parseArr : String → Option Expr) (inj : Int → α)
    (injL : List α → α) : (e : Expr) → (numArrayFromExpr sp parseArr inj injL e).Returns
  | .array es _ _ => by
      simp only [numArrayFromExpr]
      exact (collectFirstErr_returns _ (numElem_returns sp inj) es).map _
  | .lit l => by
      simp only [numArrayFromExpr]
      split
      · split
        · exact (collectFirstErr_returns _ (numElem_returns sp inj) _).map _
        · exact Outcome.returns_err _
      · exact Outcome.returns_err _
  | .group g _ => by simp only [numArrayFromExpr]; exact numArrayFromExpr_returns sp parseArr inj injL g
  | .path _ _ => by simp only [numArrayFromExpr]; exact Outcome.returns_err _
  | .qpath _ _ _ => by simp only [numArrayFromExpr]; exact Outcome.returns_err _
  | .other _ _ _ => by simp only [numArrayFromExpr]; exact Outcome.returns_err _

theorem numArray_np (sp : IntSpec) (parseArr : String → Option Expr) (inj : Int → α) (injL : List α → α) :
    (numArrayHooks sp parseArr inj injL).NP := by
  constructor <;> intro f hf <;> simp [numArrayHooks] at hf
  · subst hf; intro l; exact numArrayFromExpr_returns sp parseArr inj injL (.lit l)
  · subst hf; exact numArrayFromExpr_returns sp parseArr inj injL

/-! ### syn::Meta, Ignored, PathList, Callable -/

theorem meta_np (tok : String → α) : (metaHooks tok).NP := by
  constructor <;> intro f hf <;> simp [metaHooks] at hf
  subst hf; intro m; exact Outcome.returns_ok _

theorem ignored_np (v : α) : (ignoredHooks v).NP := by
  constructor <;> intro f hf <;> simp [ignoredHooks] at hf
  subst hf; intro m; exact Outcome.returns_ok _

theorem pathListFromList_returns {β : Type} (f : Path → β) :
    (items : List NestedMeta) → (pathListFromList f items).Returns
  | [] => by simp only [pathListFromList]; exact Outcome.returns_ok _
  | .item (.path p) :: rest => by
      simp only [pathListFromList]; exact (pathListFromList_returns f rest).map _
  | .item (.list _ _ _ _ _ _) :: _ => by simp only [pathListFromList]; exact Outcome.returns_err _
  | .item (.nameValue _ _ _ _) :: _ => by simp only [pathListFromList]; exact Outcome.returns_err _
  | .lit _ :: _ => by simp only [pathListFromList]; exact Outcome.returns_err _

theorem pathList_np (tok : String → α) (injL : List α → α) : (pathListHooks tok injL).NP := by
  constructor <;> intro f hf <;> simp [pathListHooks] at hf
  subst hf; intro items; exact (pathListFromList_returns _ items).map _

theorem callableFromExpr_returns (tok : String → α) : (e : Expr) → (callableFromExpr tok e).Returns
  | .group g _ => by simp only [callableFromExpr]; exact callableFromExpr_returns tok g
  | .other k t s => by
      unfold callableFromExpr
      split <;> first | exact Outcome.returns_ok _ | exact Outcome.returns_err _ | simp_all
  | .path _ _ => by simp only [callableFromExpr]; exact Outcome.returns_ok _
  | .qpath _ _ _ => by simp only [callableFromExpr]; exact Outcome.returns_ok _
  | .lit _ => by simp only [callableFromExpr]; exact Outcome.returns_err _
  | .array _ _ _ => by simp only [callableFromExpr]; exact Outcome.returns_err _

theorem callable_np (tok : String → α) : (callableHooks tok).NP := by
  constructor <;> intro f hf <;> simp [callableHooks] at hf
  subst hf; exact callableFromExpr_returns tok

/-! ### the C15 probe -/

theorem probe_ret_returns (failing : Nat) (tag : String) : (Probe.ret failing tag).Returns := by
  unfold Probe.ret
  split <;> first | exact Outcome.returns_ok _ | exact Outcome.returns_err _

theorem probe_np (mask : Nat) (failing : Nat) : (Probe.hooks mask failing).NP := by
  constructor <;> intro f hf <;> simp [Probe.hooks] at hf
  all_goals (obtain ⟨_, hf⟩ := hf; subst hf)
  · exact probe_ret_returns _ _
  all_goals (intro x; exact probe_ret_returns _ _)

/-! ### the universe -/

theorem empty_np : ({} : Hooks α).NP := by
  constructor <;> intro f hf <;> simp at hf

/-- **every built-in conversion returns**: by induction over the universe of target types, given
    that the derived receivers of the environment do -/
theorem hooksOf_np (o : Oracle) (recvHooks : String → Hooks Val) (hr : ∀ n, (recvHooks n).NP) :
    (t : Ty) → (hooksOf o recvHooks t).NP
  | .unit => by simp only [hooksOf]; exact unit_np _
  | .bool => by simp only [hooksOf]; exact bool_np _
  | .char => by simp only [hooksOf]; exact char_np _
  | .string => by simp only [hooksOf]; exact string_np _
  | .pathBuf => by simp only [hooksOf]; exact string_np _
  | .int sp => by simp only [hooksOf]; exact num_np sp _
  | .float w => by simp only [hooksOf]; exact float_np _ _
  | .atomicBool => by simp only [hooksOf]; exact atomicBool_np _
  | .flag => by simp only [hooksOf]; exact flag_np _
  | .option t => by simp only [hooksOf]; exact option_np _ _ _ (hooksOf_np o recvHooks hr t)
  | .ptr t => by simp only [hooksOf]; exact ptr_np _ _ (hooksOf_np o recvHooks hr t)
  | .result t => by simp only [hooksOf]; exact result_np _ _ _ (hooksOf_np o recvHooks hr t)
  | .resultMeta t => by simp only [hooksOf]; exact resultMeta_np _ _ _ (hooksOf_np o recvHooks hr t)
  | .override t => by simp only [hooksOf]; exact override_np _ _ _ (hooksOf_np o recvHooks hr t)
  | .spanned t => by simp only [hooksOf]; exact spanned_np _ _ (hooksOf_np o recvHooks hr t)
  | .withOrig t => by simp only [hooksOf]; exact withOriginal_np _ _ (hooksOf_np o recvHooks hr t)
  | .probe mask failing => by simp only [hooksOf]; exact probe_np mask failing
  | .synExpr => by simp only [hooksOf]; exact expr_np _ _
  | .synPath => by simp only [hooksOf]; exact path_np _ _
  | .synIdent => by simp only [hooksOf]; exact ident_np _ _
  | .identString => by simp only [hooksOf]; exact identString_np _ _
  | .synExprTy v => by simp only [hooksOf]; exact synExpr_np v _ _
  | .synParse kind => by simp only [hooksOf]; exact synParse_np _ _
  | .wherePreds => by simp only [hooksOf]; exact wherePreds_np _ _
  | .renameRule => by simp only [hooksOf]; exact renameRule_np _ _
  | .punctuated kind => by simp only [hooksOf]; exact punctuated_np _ _
  | .lit => by simp only [hooksOf]; exact lit_np _
  | .litKind k => by simp only [hooksOf]; exact litKind_np k _
  | .vecLit k => by simp only [hooksOf]; exact vecLit_np k _ _ _
  | .numArray sp => by simp only [hooksOf]; exact numArray_np sp _ _ _
  | .synMeta => by simp only [hooksOf]; exact meta_np _
  | .ignored => by simp only [hooksOf]; exact ignored_np _
  | .pathList => by simp only [hooksOf]; exact pathList_np _ _
  | .callable => by simp only [hooksOf]; exact callable_np _
  | .map key _ t => by simp only [hooksOf]; exact map_np key _ _ (hooksOf_np o recvHooks hr t)
  | .vec _ => by simp only [hooksOf]; exact empty_np
  | .recv n => by simp only [hooksOf]; exact hr n

/-- every built-in `from_meta` yields `Ok` or `Err`, whatever the item -/
theorem builtin_returns (o : Oracle) (recvHooks : String → Hooks Val) (hr : ∀ n, (recvHooks n).NP)
    (t : Ty) (m : Meta) : ((hooksOf o recvHooks t).fromMeta m).Returns :=
  (hooksOf_np o recvHooks hr t).fromMeta m

/-- … and likewise when handed a nested item (the entry point used by derived receivers) -/
theorem builtin_nested_returns (o : Oracle) (recvHooks : String → Hooks Val) (hr : ∀ n, (recvHooks n).NP)
    (t : Ty) (n : NestedMeta) : ((hooksOf o recvHooks t).fromNestedMeta n).Returns :=
  (hooksOf_np o recvHooks hr t).fromNestedMeta n

end C07
