import Darling.Derive.Enum
import Darling.Props.C02
import Darling.Options
/-
  C09 — Derived enum receivers select exactly one declared, non-skipped variant.
  Decision logic stated outright, for every enum (any variants, any names, any inner converters)
  and every input.
-/
open Derive

namespace C09
variable {ν : Type}

/-- effective names of the selectable variants are pairwise distinct -/
def DistinctNames (e : SEnum ν) : Prop :=
  ∀ v ∈ e.variants, ∀ w ∈ e.variants, v.skip = false → w.skip = false → v.name = w.name → v = w

/-! ### which variant a name selects -/

/-- a skipped variant is never selected, and a selected variant has exactly the given name -/
theorem arm_sound (e : SEnum ν) (n : String) (v : SVariant ν) (h : e.arm n = some v) :
    v ∈ e.variants ∧ v.skip = false ∧ v.name = n := by
  unfold SEnum.arm at h
  have hm := List.mem_of_find?_eq_some h
  have hp := List.find?_some h
  simp at hp
  exact ⟨hm, hp.1, hp.2⟩

/-- a skipped variant can never be produced: no name reaches its arm -/
theorem skipped_never_selected (e : SEnum ν) (v : SVariant ν) (hs : v.skip = true) (n : String) :
    e.arm n ≠ some v := by
  intro h
  have := (arm_sound e n v h).2.1
  rw [hs] at this; cases this

/-- under distinct names, the variant selected is *the* declared non-skipped variant of that name -/
theorem arm_complete (e : SEnum ν) (hd : DistinctNames e) (v : SVariant ν) (hv : v ∈ e.variants) (hs : v.skip = false) :
    e.arm v.name = some v := by
  cases h : e.arm v.name with
  | some w =>
      obtain ⟨hw, hws, hwn⟩ := arm_sound e v.name w h
      rw [hd w hw v hv hws hs hwn]
  | none =>
      exfalso
      unfold SEnum.arm at h
      rw [List.find?_eq_none] at h
      have := h v hv
      simp [hs] at this

theorem arm_none_iff (e : SEnum ν) (n : String) :
    e.arm n = none ↔ ∀ v ∈ e.variants, v.skip = true ∨ v.name ≠ n := by
  unfold SEnum.arm
  rw [List.find?_eq_none]
  constructor
  · intro h v hv
    have := h v hv
    cases hs : v.skip with
    | true => exact Or.inl rfl
    | false => right; intro hn; simp [hs, hn] at this
  · intro h v hv
    rcases h v hv with hs | hn
    · simp [hs]
    · simp [hn]

/-! ### the list form: exactly one nested item -/

theorem list_empty (e : SEnum ν) : enumFromList e [] = .err (Err.new (.tooFewItems 1)) := rfl

theorem list_too_many (e : SEnum ν) (a b : NestedMeta) (rest : List NestedMeta) :
    enumFromList e (a :: b :: rest) = .err (Err.new (.tooManyItems 1)) := by
  cases a <;> rfl

theorem list_literal (e : SEnum ν) (l : Lit) : enumFromList e [.lit l] = .err (Err.unsupportedFormat "literal") := rfl

/-- one nested item: the variant named by the item — whatever its arm reports is spanned with the
    selecting item unless it is located more precisely — or an unknown-name error at the item -/
theorem list_one (e : SEnum ν) (nested : Meta) :
    enumFromList e [.item nested] =
      match e.arm nested.path'.toStr with
      | some v => (dataArm v nested).mapErr (·.withSpan nested.span)
      | none => .err ((e.unknownErr nested.path'.toStr).withSpan nested.span) := rfl

/-- a single nested *word* selects the unit variant of that name -/
theorem word_selects_unit (v : SVariant ν) (val : ν) (hk : v.kind = .unit val) (p : Path) :
    dataArm v (.path p) = .ok val := by
  simp [dataArm, hk]

theorem unit_rejects_value (v : SVariant ν) (val : ν) (hk : v.kind = .unit val) (m : Meta) (hm : ∀ p, m ≠ .path p) :
    dataArm v m = .err (Err.unsupportedFormat "non-path") := by
  cases m with
  | path p => exact absurd rfl (hm p)
  | list _ _ _ _ _ _ => simp [dataArm, hk]
  | nameValue _ _ _ _ => simp [dataArm, hk]

/-- a newtype variant delegates to its inner type, locating errors under the variant's name -/
theorem newtype_delegates (v : SVariant ν) (fm : Meta → Outcome ν) (fn : Option ν) (wrap : ν → ν)
    (hk : v.kind = .newtype fm fn wrap) (m : Meta) :
    dataArm v m = ((fm m).mapErr (·.at v.name)).map wrap := by
  simp [dataArm, hk]

/-- a struct variant needs the list form … -/
theorem struct_needs_list (v : SVariant ν) (s : SStruct ν) (hk : v.kind = .struct s) (m : Meta)
    (hm : ∀ p items bad ts t sp, m ≠ .list p items bad ts t sp) :
    dataArm v m = .err (Err.unsupportedFormat "non-list") := by
  cases m with
  | list p items bad ts t sp => exact absurd rfl (hm p items bad ts t sp)
  | path _ => simp [dataArm, hk]
  | nameValue _ _ _ _ => simp [dataArm, hk]

/-- … and is then parsed exactly as a struct receiver, errors located under the variant's name -/
theorem struct_variant_is_struct_receiver (v : SVariant ν) (s : SStruct ν) (hk : v.kind = .struct s)
    (hwf : C02.WF s) (hd : C02.Distinct s) (p : Path) (items : List NestedMeta) (ts : Option Span) (t : String) (sp : Span) :
    dataArm v (.list p items none ts t sp) =
      (match Spec.C02.mistakes s items with
       | [] => Spec.C01.expected s items
       | errs => (Err.bundleErr errs : Outcome ν).mapErr (·.at v.name)) := by
  obtain ⟨st0, st1, h0, h1, herrs, hslots⟩ := C02.before_check s hwf hd items
  simp only [dataArm, hk, h0, finishStruct, if_true, h1]
  rw [herrs]
  cases hm : Spec.C02.mistakes s items with
  | cons e es => rfl
  | nil =>
      simp only
      rw [C02.initFields_eq s hwf items hm _ hslots s.fields (fun _ h => h)]
      simp only [Spec.C01.expected]
      cases Spec.C01.collect (s.fields.map (fun f => (f.ident, Spec.C01.fieldValue s items f))) <;> rfl

/-! ### the string form -/

theorem string_selects (e : SEnum ν) (lit : String) :
    enumFromString e lit =
      match e.arm lit with
      | some v => (match v.kind with
          | .unit val => .ok val
          | .newtype _ fromNone wrap => (match fromNone with
              | some x => .ok (wrap x)
              | none => .err (Err.unsupportedFormat "literal"))
          | .struct _ => .err (Err.unsupportedFormat "literal"))
      | none => .err (Err.unknownValue lit) := rfl

/-- a string that names no selectable variant is an error, never a silently chosen variant -/
theorem string_unknown (e : SEnum ν) (lit : String) (h : e.arm lit = none) :
    enumFromString e lit = .err (Err.unknownValue lit) := by
  simp [enumFromString, h]

/-! ### bare word and absence -/

theorem bare_word (e : SEnum ν) (p : Path) :
    (enumHooks e).fromMeta (.path p) =
      match e.fromWord with
      | some r => r.mapErr (·.withSpan p.span)
      | none => .err (.leaf (.unexpectedFormat "word") [] (some p.span)) := by
  simp only [Hooks.fromMeta, enumHooks, Hooks.fromMetaD, Hooks.fromWord, Meta.span]
  cases e.fromWord <;> rfl

theorem absent (e : SEnum ν) : (enumHooks e).fromNone = e.fromNone := rfl

/-- the enum's entry point routes by form: list ↦ `from_list`, string value ↦ `from_string` -/
theorem list_form_routes (e : SEnum ν) (p : Path) (items : List NestedMeta) (ts : Option Span) (t : String) (sp : Span) :
    (enumHooks e).fromMeta (.list p items none ts t sp) = (enumFromList e items).mapErr (·.withSpan sp) := rfl

theorem string_form_routes (e : SEnum ν) (p : Path) (s t t' : String) (lsp sp : Span) :
    (enumHooks e).fromMeta (.nameValue p (.lit ⟨.str s, t, lsp⟩) t' sp)
      = (((enumFromString e s).mapErr (·.withSpan lsp)).mapErr (·.withSpan lsp)).mapErr (·.withSpan sp) := rfl

/-! non-vacuity -/
def ex : SEnum String :=
  { variants := [⟨"alpha", false, .unit "Alpha"⟩, ⟨"beta", true, .unit "Beta"⟩,
                 ⟨"gamma", false, .newtype (fun _ => .ok "inner") (some "dflt") (fun s => "Gamma(" ++ s ++ ")")⟩],
    score := fun _ _ => 0, thr := 1, fromWord := none, fromNone := none }
example : enumFromString ex "alpha" = .ok "Alpha" := by simp [enumFromString, SEnum.arm, ex]
example : ∃ e, enumFromString ex "beta" = .err e := ⟨_, rfl⟩
example : enumFromString ex "gamma" = .ok "Gamma(dflt)" := by simp [enumFromString, SEnum.arm, ex]

/-- the bare-word form of an enum never produces a skipped variant: the variant the generated
    `from_word` returns is a declared, non-skipped variant that carries `word = true` -/
theorem word_variant_not_skipped (vs : List Options.RVariant) (id : String) (h : Options.wordVariant vs = some id) :
    ∃ v ∈ vs, v.ident = id ∧ v.skip = false := by
  unfold Options.wordVariant at h
  rw [Option.map_eq_some_iff] at h
  obtain ⟨v, hf, hid⟩ := h
  have hm := List.mem_of_find?_eq_some hf
  have hp := List.find?_some hf
  refine ⟨v, hm, hid, ?_⟩
  cases hs : v.skip with
  | false => rfl
  | true => rw [hs] at hp; simp at hp

end C09
